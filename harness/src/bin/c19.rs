//! C19 — binding of spec/MMR.tla and spec/BlockFilter.tla to the chain-root MMR and the block-filter builder.
//!
//! `c19 chain --in f.json`  TLC-generated / random histories (block arrivals on any branch, with work and an honest
//!     or flawed chain-root commitment, bodies over a transaction universe) are delivered to a REAL node with the REAL
//!     `BlockFilter` service running. After every arrival:
//!       * the node's main chain must be the one MMR.tla expects (flawed commitment refused, honest accepted, heavier wins);
//!       * `snapshot.chain_root_mmr(n).get_root()` for every n, every stored position below the size, every main-chain
//!         block's extension[0..32] are compared with an in-memory MMR (same merge function) over the MODEL's main chain
//!         (the headers of the fixture's blocks);
//!       * `gen_proof(positions)` for all / random position sets verifies against that root and FAILS against the root
//!         of every sibling branch of the same height;
//!       * the filter builder is awaited (every main-chain block has a filter hash), then every expected script hash
//!         (outputs and spent inputs, from the history's transactions) must match the GCS filter and the hash chain is recomputed.
//! `c19 race`  the snapshot / live-store interleaving of the filter builder placed deterministically with the H8 yield point.
use ckb_merkle_mountain_range::{leaf_index_to_mmr_size, leaf_index_to_pos};
use ckb_store::ChainStore;
use ckb_types::prelude::*;
use ckb_types::{
    bytes::Bytes,
    core::{BlockView, Capacity, HeaderView, TransactionBuilder, TransactionView},
    packed::{self, Byte32, CellInput, CellOutput, OutPoint},
    utilities::difficulty_to_compact,
    U256,
};
use ckb_verification_traits::Switch;
use ckbv::fixture::*;
use ckbv::util::{opt, Rng};
use serde::Deserialize;
use serde_json::{json, Value};
use std::collections::{HashMap, HashSet};
use std::sync::Arc;
use ckb_network::{CKBProtocolHandler, PeerIndex, SupportProtocols};
use ckbv::netctx::RecCtx;

#[derive(Deserialize, Clone, Debug)]
struct Out {
    lock: String,
    #[serde(rename = "type")]
    ty: String,
    cap: u64,
    dlen: u64,
}
#[derive(Deserialize, Clone, Debug)]
struct TxD {
    ins: Vec<(usize, u32)>,
    outs: Vec<Out>,
}
#[derive(Deserialize, Clone, Debug)]
struct ScriptD {
    code: String,
    args: Vec<u8>,
}
#[derive(Deserialize, Clone, Debug)]
struct Step {
    b: usize,
    parent: usize,
    work: u64,
    honest: bool,
    #[serde(default)]
    txs: Vec<usize>,
    /// expected after the arrival
    main: Vec<usize>,
    /// timestamp gap to the parent in ms (0 = the fixture's block interval)
    #[serde(default)]
    gap_ms: u64,
}
#[derive(Deserialize, Clone, Debug)]
struct Hist {
    id: u64,
    steps: Vec<Step>,
}
#[derive(Deserialize)]
struct Input {
    scripts: HashMap<String, ScriptD>,
    txs: Vec<TxD>,
    genesis_txs: Vec<usize>,
    hists: Vec<Hist>,
    seed: u64,
    /// all position subsets up to this many leaves, random subsets above
    all_subsets_upto: u64,
    /// > 0: epochs of this many blocks with REAL difficulty adjustment (timestamps decide); the epoch check stays on
    #[serde(default)]
    epoch_len: u64,
    /// the expected main chain is derived from the headers' real difficulties by the spec's rule (strictly heavier
    /// chain wins, first seen stays on a tie); only for histories without flawed blocks
    #[serde(default)]
    main_by_difficulty: bool,
}

const CKB: u64 = 100_000_000;

fn script_of(d: &ScriptD) -> packed::Script {
    match d.code.as_str() {
        "default" => packed::Script::default().as_builder().args(Bytes::from(d.args.clone()).pack()).build(),
        _ => lock().as_builder().args(Bytes::from(d.args.clone()).pack()).build(),
    }
}

struct World {
    consensus: ckb_chain_spec::consensus::Consensus,
    txs: Vec<Option<TransactionView>>,
}

fn world(inp: &Input) -> World {
    let mut p = Params { genesis_cells: inp.genesis_txs.len(), window: (1, 1), ..Default::default() };
    if inp.epoch_len > 0 {
        p.epoch_len = inp.epoch_len;
        p.permanent_difficulty = false;
    }
    let consensus = consensus(&p);
    let scripts: HashMap<String, packed::Script> = inp.scripts.iter().map(|(k, v)| (k.clone(), script_of(v))).collect();
    let mut txs: Vec<Option<TransactionView>> = vec![None; inp.txs.len() + 1];
    for (pos, id) in inp.genesis_txs.iter().enumerate() {
        txs[*id] = Some(consensus.genesis_block().transactions()[1 + pos].clone());
    }
    for id in 1..=inp.txs.len() {
        if txs[id].is_some() {
            continue;
        }
        let d = &inp.txs[id - 1];
        let mut b = TransactionBuilder::default().cell_dep(always_success_dep(&consensus));
        for (t, i) in &d.ins {
            b = b.input(CellInput::new(OutPoint::new(txs[*t].as_ref().expect("earlier tx").hash(), *i), 0));
        }
        for o in &d.outs {
            let ob = CellOutput::new_builder().capacity(Capacity::shannons(o.cap * CKB)).lock(scripts[&o.lock].clone());
            let out = if o.ty != "none" { ob.type_(Some(scripts[&o.ty].clone()).pack()).build() } else { ob.build() };
            b = b.output(out).output_data(Bytes::from(vec![id as u8; o.dlen as usize]));
        }
        txs[id] = Some(b.build());
    }
    World { consensus, txs }
}

/// heavier blocks are made by overriding the compact target, hence the epoch check is off in that setting;
/// with real difficulty adjustment (`adjust`) it stays on
static ADJUST: std::sync::atomic::AtomicBool = std::sync::atomic::AtomicBool::new(false);
fn sw_node() -> Switch {
    if ADJUST.load(std::sync::atomic::Ordering::SeqCst) { Switch::DISABLE_TWO_PHASE_COMMIT } else { Switch::DISABLE_EPOCH | Switch::DISABLE_TWO_PHASE_COMMIT }
}

/// deliver through the asynchronous entry (never blocks on an orphan); Some(result) or None on time-out
fn deliver(n: &Node, b: &BlockView, sw: Switch) -> Option<Result<bool, String>> {
    let (tx, rx) = std::sync::mpsc::channel();
    n.chain.chain_controller().asynchronous_process_lonely_block(ckb_chain::LonelyBlock {
        block: Arc::new(b.clone()),
        switch: Some(sw),
        verify_callback: Some(Box::new(move |r| {
            let _ = tx.send(r.map_err(|e| e.to_string()));
        })),
    });
    rx.recv_timeout(std::time::Duration::from_secs(180)).ok()
}

struct Blk {
    parent: usize,
    view: BlockView,
    honest: bool,
}
/// builder nodes verify honest blocks (so that fees are recorded for later rewards) and force-accept flawed ones
fn feed(m: &Node, b: &Blk) -> Result<bool, String> {
    if b.honest {
        m.chain.chain_controller().blocking_process_block_with_switch(Arc::new(b.view.clone()), sw_node()).map_err(|e| e.to_string())
    } else {
        m.process_unchecked(&b.view)
    }
}
fn chain_of(blocks: &HashMap<usize, Blk>, mut b: usize) -> Vec<usize> {
    let mut v = vec![b];
    while b != 0 {
        b = blocks[&b].parent;
        v.push(b);
    }
    v.reverse();
    v
}

/// INDEPENDENT reference for the chain-root MMR (RFC 0044): the digest of a node is recomputed field by field from
/// the headers of the MODEL's chain, without `MergeHeaderDigest::merge`, `HeaderView::digest` or the MMR library:
/// start_* from the leftmost header below the node, end_* from the rightmost, total difficulty = sum,
/// children_hash = blake2b(left.hash | right.hash) (leaf: the header hash).
fn ref_leaf(h: &HeaderView) -> packed::HeaderDigest {
    let raw = h.data().raw();
    packed::HeaderDigest::new_builder()
        .children_hash(h.hash())
        .total_difficulty(ckb_types::utilities::compact_to_difficulty(raw.compact_target().into()))
        .start_number(raw.number())
        .end_number(raw.number())
        .start_epoch(raw.epoch())
        .end_epoch(raw.epoch())
        .start_timestamp(raw.timestamp())
        .end_timestamp(raw.timestamp())
        .start_compact_target(raw.compact_target())
        .end_compact_target(raw.compact_target())
        .build()
}
fn ref_merge(l: &packed::HeaderDigest, r: &packed::HeaderDigest) -> packed::HeaderDigest {
    let mut buf = l.calc_mmr_hash().raw_data().to_vec();
    buf.extend_from_slice(&r.calc_mmr_hash().raw_data());
    let hash = ckb_hash::blake2b_256(&buf);
    let (a, b): (U256, U256) = (l.total_difficulty().into(), r.total_difficulty().into());
    packed::HeaderDigest::new_builder()
        .children_hash(Byte32::from_slice(&hash).unwrap())
        .total_difficulty(a + b)
        .start_number(l.start_number())
        .start_epoch(l.start_epoch())
        .start_timestamp(l.start_timestamp())
        .start_compact_target(l.start_compact_target())
        .end_number(r.end_number())
        .end_epoch(r.end_epoch())
        .end_timestamp(r.end_timestamp())
        .end_compact_target(r.end_compact_target())
        .build()
}
/// peaks of an MMR with `leaves` leaves, left to right: (position, height, first leaf)
fn ref_peaks(leaves: u64) -> Vec<(u64, u32, u64)> {
    let (mut off, mut first, mut v) = (0u64, 0u64, vec![]);
    for h in (0..63u32).rev() {
        if leaves & (1 << h) != 0 {
            let size = (1u64 << (h + 1)) - 1;
            v.push((off + size - 1, h, first));
            off += size;
            first += 1 << h;
        }
    }
    v
}
struct RefMmr {
    headers: Vec<HeaderView>,
    nodes: HashMap<u64, packed::HeaderDigest>,
}
impl RefMmr {
    fn new(blocks: &HashMap<usize, Blk>, chain: &[usize]) -> RefMmr {
        RefMmr { headers: chain.iter().map(|b| blocks[b].view.header()).collect(), nodes: HashMap::new() }
    }
    fn node(&mut self, pos: u64, h: u32, first: u64) -> packed::HeaderDigest {
        if let Some(d) = self.nodes.get(&pos) {
            return d.clone();
        }
        let d = if h == 0 {
            ref_leaf(&self.headers[first as usize])
        } else {
            let l = self.node(pos - (1 << h), h - 1, first);
            let r = self.node(pos - 1, h - 1, first + (1 << (h - 1)));
            ref_merge(&l, &r)
        };
        self.nodes.insert(pos, d.clone());
        d
    }
    /// root over the leaves 0..=n (peaks bagged from the right, header order kept)
    fn root(&mut self, n: u64) -> packed::HeaderDigest {
        let pk = ref_peaks(n + 1);
        let mut ds: Vec<packed::HeaderDigest> = pk.iter().map(|(p, h, f)| self.node(*p, *h, *f)).collect();
        let mut acc = ds.pop().unwrap();
        while let Some(l) = ds.pop() {
            acc = ref_merge(&l, &acc);
        }
        acc
    }
}
fn crosses_adjustment(d: &packed::HeaderDigest) -> bool {
    d.start_compact_target().as_slice() != d.end_compact_target().as_slice()
}

fn subsets(n: u64, all_upto: u64, rng: &mut Rng) -> Vec<Vec<u64>> {
    let leaves = n + 1;
    if leaves <= all_upto {
        (1u64..(1 << leaves)).map(|m| (0..leaves).filter(|i| m >> i & 1 == 1).collect()).collect()
    } else {
        (0..24).map(|_| {
            let k = rng.range(1, leaves.min(5));
            let mut s: Vec<u64> = (0..k).map(|_| rng.below(leaves)).collect();
            s.sort();
            s.dedup();
            s
        }).collect()
    }
}

fn expected_script_hashes(w: &World, blocks: &HashMap<usize, Blk>, b: usize, all_txs: &HashMap<Byte32, TransactionView>) -> Vec<Byte32> {
    let _ = w;
    let mut v = vec![];
    for tx in blocks[&b].view.transactions() {
        for o in tx.outputs() {
            v.push(o.calc_lock_hash());
            if let Some(t) = o.type_().to_opt() {
                v.push(t.calc_script_hash());
            }
        }
        if !tx.is_cellbase() {
            for inp in tx.input_pts_iter() {
                if let Some(ptx) = all_txs.get(&inp.tx_hash()) {
                    let idx: usize = inp.index().into();
                    if let Some(o) = ptx.outputs().get(idx) {
                        v.push(o.calc_lock_hash());
                        if let Some(t) = o.type_().to_opt() {
                            v.push(t.calc_script_hash());
                        }
                    }
                }
            }
        }
    }
    v
}

/// named vacuity case: an input spends a TYPED cell, an earlier input of the block has the same lock, and that
/// type script occurs nowhere else in the block (no output, no earlier input)
fn typed_inputs_under_repeated_lock(b: &BlockView, all_txs: &HashMap<Byte32, TransactionView>) -> u64 {
    let mut out_types: HashSet<Byte32> = HashSet::new();
    for tx in b.transactions() {
        for o in tx.outputs() {
            if let Some(t) = o.type_().to_opt() {
                out_types.insert(t.calc_script_hash());
            }
        }
    }
    let (mut locks, mut in_types, mut n) = (HashSet::new(), HashSet::new(), 0u64);
    for tx in b.transactions() {
        if tx.is_cellbase() {
            continue;
        }
        for inp in tx.input_pts_iter() {
            let idx: usize = inp.index().into();
            if let Some(o) = all_txs.get(&inp.tx_hash()).and_then(|p| p.outputs().get(idx)) {
                let lh = o.calc_lock_hash();
                let th = o.type_().to_opt().map(|t| t.calc_script_hash());
                if let Some(th) = &th {
                    if locks.contains(&lh) && !out_types.contains(th) && !in_types.contains(th) {
                        n += 1;
                    }
                    in_types.insert(th.clone());
                }
                locks.insert(lh);
            }
        }
    }
    n
}

fn filter_matches(f: &packed::Bytes, h: &Byte32) -> bool {
    use golomb_coded_set::{GCSFilterReader, SipHasher24Builder, M, P};
    let reader = GCSFilterReader::new(SipHasher24Builder::new(0, 0), M, P);
    reader.match_any(&mut std::io::Cursor::new(f.raw_data().to_vec()), &mut std::iter::once(h.as_slice())).unwrap_or(false)
}


/// disk hygiene: temp-db nodes leave their directories behind when dropped (≈ 80 MB each); everything this
/// process created under the temp dir since `base` was taken is removed between histories
fn tmp_entries() -> std::collections::HashSet<std::path::PathBuf> {
    std::fs::read_dir(std::env::temp_dir()).map(|d| d.filter_map(|e| e.ok().map(|e| e.path())).collect()).unwrap_or_default()
}
fn sweep(base: &std::collections::HashSet<std::path::PathBuf>) {
    for e in tmp_entries() {
        if !base.contains(&e) {
            // `SharedBuilder::with_temp_db` keeps ONE process-wide base directory with a `db_<n>` child per node:
            // keep the base, remove the children (no temp node is alive between histories)
            let kids: Vec<std::path::PathBuf> = std::fs::read_dir(&e).map(|d| d.filter_map(|x| x.ok().map(|x| x.path())).collect()).unwrap_or_default();
            if !kids.is_empty() && kids.iter().all(|k| k.file_name().map(|f| f.to_string_lossy().starts_with("db_")).unwrap_or(false)) {
                for k in kids {
                    let _ = std::fs::remove_dir_all(&k);
                }
            } else if std::fs::remove_dir_all(&e).is_err() {
                let _ = std::fs::remove_file(&e);
            }
        }
    }
}

#[derive(Default)]
struct Stats {
    steps: u64,
    reorgs: u64,
    deep: u64,
    shorter_heavier: u64,
    refused: u64,
    roots: u64,
    positions: u64,
    extensions: u64,
    proofs: u64,
    proofs_rejected_on_sibling: u64,
    filters: u64,
    script_hashes: u64,
    input_script_hashes: u64,
    mismatches: u64,
    renotified: u64,
    digests_across_adjustment: u64,
    typed_input_under_repeated_lock: u64,
    serve_cases: u64,
    serve_requests: u64,
    serve_nonempty_above0: u64,
}

fn chain_cmd(inp: &Input) {
    let w = world(inp);
    let c = &w.consensus;
    let mut st = Stats::default();
    let mut rng = Rng::new(inp.seed);
    let mut tool_errors: Vec<String> = vec![];
    let heavy = difficulty_to_compact(U256::from(6u64));
    ADJUST.store(inp.epoch_len > 0, std::sync::atomic::Ordering::SeqCst);
    let base = tmp_entries();
    'hist: for hist in &inp.hists {
        let mut td: HashMap<usize, U256> = HashMap::new();
        td.insert(0, c.genesis_block().difficulty());
        let mut exp_main: Vec<usize> = vec![0];
        sweep(&base);
        let (n, relay_rx) = start_with_relay(&NodeCfg { assembler: false, ..NodeCfg::temp(c) });
        ckb_block_filter::filter::BlockFilter::new(n.shared.clone()).start();
        // the block-filter protocol server (sync/src/filter), driven without a network (FilterServe.tla)
        let sync_shared = Arc::new(ckb_sync::SyncShared::new(n.shared.clone(), Default::default(), relay_rx));
        let mut fproto = ckb_sync::BlockFilter::new(sync_shared);
        let mut blocks: HashMap<usize, Blk> = HashMap::new();
        blocks.insert(0, Blk { parent: 0, view: c.genesis_block().clone(), honest: true });
        let mut ids: HashMap<Byte32, usize> = HashMap::new();
        ids.insert(c.genesis_block().hash(), 0);
        let mut all_txs: HashMap<Byte32, TransactionView> = HashMap::new();
        for t in c.genesis_block().transactions() {
            all_txs.insert(t.hash(), t);
        }
        let mut builders: Vec<(usize, Node)> = vec![];
        let mut tip = 0usize;
        let mut report = |kind: &str, step: usize, detail: String, st: &mut Stats| {
            st.mismatches += 1;
            if st.mismatches <= 40 {
                println!("{}", json!({"mismatch": {"hist": hist.id, "step": step, "kind": kind, "detail": detail}}));
            }
        };
        for (si, s) in hist.steps.iter().enumerate() {
            // ---- build the block on a builder node whose tip is the parent (force-accepting flawed ancestors)
            let bi = match builders.iter().position(|(t, _)| *t == s.parent) {
                Some(i) => i,
                None => {
                    let m = Node::start(&NodeCfg { assembler: false, ..NodeCfg::temp(c) });
                    for b in chain_of(&blocks, s.parent).iter().skip(1) {
                        if let Err(e) = feed(&m, &blocks[b]) {
                            tool_errors.push(format!("hist {} builder rejects ancestor {}: {}", hist.id, b, e));
                            continue 'hist;
                        }
                    }
                    builders.push((s.parent, m));
                    builders.len() - 1
                }
            };
            let commits: Vec<TransactionView> = s.txs.iter().map(|t| w.txs[*t].clone().unwrap()).collect();
            let ts = if s.gap_ms > 0 { blocks[&s.parent].view.timestamp() + s.gap_ms } else { 0 };
            let view = match assemble(&builders[bi].1, &BlockSpec { commits, nonce: s.b as u64, ts, ..Default::default() }) {
                Ok(v) => v,
                Err(e) => {
                    tool_errors.push(format!("hist {} cannot assemble block {}: {}", hist.id, s.b, e));
                    continue 'hist;
                }
            };
            let mut bb = view.as_advanced_builder();
            if s.work > 1 {
                bb = bb.compact_target(heavy);
            }
            if !s.honest {
                bb = bb.extension(Some(Bytes::from(vec![0xABu8; 32]).pack()));
            }
            let view = bb.build();
            if let Err(e) = feed(&builders[bi].1, &Blk { parent: s.parent, view: view.clone(), honest: s.honest }) {
                tool_errors.push(format!("hist {} builder rejects its own block {}: {}", hist.id, s.b, e));
                continue 'hist;
            }
            builders[bi].0 = s.b;
            ids.insert(view.hash(), s.b);
            for t in view.transactions() {
                all_txs.insert(t.hash(), t);
            }
            blocks.insert(s.b, Blk { parent: s.parent, view: view.clone(), honest: s.honest });
            // ---- deliver
            let verdict = deliver(&n, &view, sw_node());
            if verdict.is_none() {
                tool_errors.push(format!("hist {} step {}: no verdict for block {} within 180 s", hist.id, si, s.b));
                continue 'hist;
            }
            st.steps += 1;
            let snap = n.shared.cloned_snapshot();
            let real_main: Vec<Option<usize>> = (0..=snap.tip_number()).map(|h| snap.get_block_hash(h).and_then(|x| ids.get(&x).copied())).collect();
            let tdb = td[&s.parent].clone() + view.difficulty();
            if tdb > td[exp_main.last().unwrap()] {
                exp_main = chain_of(&blocks, s.b);
            }
            td.insert(s.b, tdb);
            let smain: Vec<usize> = if inp.main_by_difficulty { exp_main.clone() } else { s.main.clone() };
            let want_main: Vec<Option<usize>> = smain.iter().map(|x| Some(*x)).collect();
            if real_main != want_main {
                report("main-chain", si, format!("after block {} (work {}, honest {}): node main chain {:?}, MMR.tla expects {:?}; verdict {:?}", s.b, s.work, s.honest, real_main, smain, verdict), &mut st);
                continue 'hist;
            }
            if !s.honest && *smain.last().unwrap() != s.b {
                st.refused += 1;
            }
            let new_tip = *smain.last().unwrap();
            if new_tip != tip {
                if blocks[&new_tip].parent != tip {
                    st.reorgs += 1;
                    let (a, b) = (chain_of(&blocks, tip), chain_of(&blocks, new_tip));
                    let common = a.iter().zip(b.iter()).take_while(|(x, y)| x == y).count();
                    if a.len() - common > 1 {
                        st.deep += 1;
                    }
                    if b.len() < a.len() {
                        st.shorter_heavier += 1;
                    }
                }
                tip = new_tip;
            }
            // ---- MMR: roots, stored positions, extensions, proofs
            let main = &smain;
            let mut refm = RefMmr::new(&blocks, main);
            let tipn = (main.len() - 1) as u64;
            for nn in 0..=tipn {
                let want = refm.root(nn);
                if crosses_adjustment(&want) {
                    st.digests_across_adjustment += 1;
                }
                match snap.chain_root_mmr(nn).get_root() {
                    Ok(got) if got.as_slice() == want.as_slice() => {}
                    other => report("root", si, format!("chain_root_mmr({nn}).get_root() differs from the digest recomputed from the headers of the model's main chain: {:?}", other.map(|g| format!("{}", g)).map_err(|e| e.to_string())), &mut st),
                }
                st.roots += 1;
                // the block at nn+1 commits to it
                if nn < tipn {
                    let child = &blocks[&main[nn as usize + 1]].view;
                    let ext = child.extension().map(|e| e.raw_data()).unwrap_or_default();
                    if ext.len() < 32 || ext[..32] != want.calc_mmr_hash().raw_data()[..] {
                        report("extension", si, format!("block {} on the main chain does not commit to the root over its ancestors", main[nn as usize + 1]), &mut st);
                    }
                    st.extensions += 1;
                }
            }
            let size = leaf_index_to_mmr_size(tipn);
            for pos in 0..size {
                let want = refm.nodes.get(&pos).cloned();
                let got = snap.get_header_digest(pos);
                if want.is_none() {
                    tool_errors.push(format!("hist {} step {}: reference MMR has no node at position {}", hist.id, si, pos));
                }
                if let Some(w) = &want {
                    if crosses_adjustment(w) {
                        st.digests_across_adjustment += 1;
                    }
                }
                if want.as_ref().map(|x| x.as_slice().to_vec()) != got.as_ref().map(|x| x.as_slice().to_vec()) {
                    report("stored-node", si, format!("position {pos} below the size {size}: stored digest {} differs from the digest recomputed from the main chain's headers {}", got.map(|g| format!("{}", g)).unwrap_or_default(), want.map(|g| format!("{}", g)).unwrap_or_default()), &mut st);
                }
                st.positions += 1;
            }
            // sibling roots: every non-main block c of the tree at height h gives another chain of that height
            let mut sibling_roots: HashMap<u64, Vec<packed::HeaderDigest>> = HashMap::new();
            for (id, _) in blocks.iter() {
                if !main.contains(id) {
                    let ch = chain_of(&blocks, *id);
                    let h = (ch.len() - 1) as u64;
                    if h <= tipn {
                        let mut sref = RefMmr::new(&blocks, &ch);
                        sibling_roots.entry(h).or_default().push(sref.root(h));
                    }
                }
            }
            for nn in 0..=tipn {
                let root = refm.root(nn);
                let mmr = snap.chain_root_mmr(nn);
                for set in subsets(nn, inp.all_subsets_upto, &mut rng) {
                    let positions: Vec<u64> = set.iter().map(|i| leaf_index_to_pos(*i)).collect();
                    let leaves: Vec<(u64, packed::HeaderDigest)> = set.iter().map(|i| (leaf_index_to_pos(*i), ref_leaf(&blocks[&main[*i as usize]].view.header()))).collect();
                    match mmr.gen_proof(positions.clone()) {
                        Ok(proof) => {
                            st.proofs += 1;
                            if !matches!(proof.verify(root.clone(), leaves.clone()), Ok(true)) {
                                report("proof", si, format!("proof for leaves {:?} at height {nn} does not verify against the root of the main chain", set), &mut st);
                            }
                            for sr in sibling_roots.get(&nn).map(|v| v.as_slice()).unwrap_or(&[]) {
                                if matches!(proof.verify(sr.clone(), leaves.clone()), Ok(true)) {
                                    report("proof-other-chain", si, format!("proof for leaves {:?} at height {nn} verifies against the root of a sibling branch", set), &mut st);
                                }
                                st.proofs_rejected_on_sibling += 1;
                            }
                        }
                        Err(e) => report("proof", si, format!("gen_proof({:?}) at height {nn}: {e}", set), &mut st),
                    }
                }
            }
            // ---- filters: wait for the builder's own progress condition, then check
            let store_db = n.shared.store();
            let mut ready = false;
            let (mut built_last, mut progress_round, mut stalled) = (usize::MAX, 0u64, false);
            for round in 0..36000u64 {
                let built = main.iter().filter(|b| store_db.get_block_filter_hash(&blocks[*b].view.hash()).is_some()).count();
                if built == main.len() {
                    ready = true;
                    break;
                }
                if built != built_last {
                    built_last = built;
                    progress_round = round;
                }
                // no progress for 60 s of a quiescent chain although the builder was notified again and again (>= 25 times):
                // this is no longer slowness - the builder does not cover the main chain
                if round - progress_round >= 12000 && (round - progress_round) / 400 >= 25 {
                    stalled = true;
                    break;
                }
                // the builder marks the notification channel as seen AFTER a build: a block that arrived while the
                // previous build was finishing is only picked up at the next notification - repeat it (timeliness is
                // not part of the property; see design.d/C19.md)
                if round > 0 && round % 400 == 0 {
                    n.shared.notify_controller().notify_new_block(blocks[main.last().unwrap()].view.clone());
                    st.renotified += 1;
                }
                std::thread::sleep(std::time::Duration::from_millis(5));
            }
            if stalled {
                let missing: Vec<usize> = main.iter().filter(|b| store_db.get_block_filter_hash(&blocks[*b].view.hash()).is_none()).cloned().collect();
                report("filter-never-built", si, format!("main-chain blocks {:?} have no filter although the chain is quiescent and the builder was notified 25 times without any progress in 60 s", missing), &mut st);
                break 'hist; // every further history would stall the same way
            }
            if !ready {
                tool_errors.push(format!("hist {} step {}: the filter builder did not cover the main chain within 180 s", hist.id, si));
                continue 'hist;
            }
            let mut parent_fh = Byte32::zero();
            for b in main {
                let bh = blocks[b].view.hash();
                let (f, fh) = (store_db.get_block_filter(&bh).expect("filter"), store_db.get_block_filter_hash(&bh).expect("filter hash"));
                let want_fh: Byte32 = ckb_types::utilities::calc_filter_hash(&parent_fh, &f).into();
                if want_fh != fh {
                    report("filter-hash-chain", si, format!("filter hash of block {b} does not chain from its parent's"), &mut st);
                }
                parent_fh = fh;
                st.filters += 1;
                let hashes = expected_script_hashes(&w, &blocks, *b, &all_txs);
                st.typed_input_under_repeated_lock += typed_inputs_under_repeated_lock(&blocks[b].view, &all_txs);
                let n_out: usize = blocks[b].view.transactions().iter().map(|t| t.outputs().into_iter().map(|o| 1 + o.type_().to_opt().is_some() as usize).sum::<usize>()).sum();
                st.input_script_hashes += (hashes.len() - n_out) as u64;
                for hsh in hashes {
                    st.script_hashes += 1;
                    if !filter_matches(&f, &hsh) {
                        report("filter-incomplete", si, format!("filter of main-chain block {b} does not match script hash {:x}", hsh), &mut st);
                    }
                }
            }
            // ---- the protocol server: every start number, first from the snapshot as published (it lags the builder), then
            //      after a refresh (the snapshot a next block would publish)
            for phase in ["published", "refreshed"] {
                if phase == "refreshed" {
                    n.shared.refresh_snapshot();
                }
                serve_round(&n, &mut fproto, &blocks, &ids, main, phase, hist.id, si, &mut st);
            }
        }
        drop(builders);
        drop(n);
    }
    sweep(&base);
    for e in &tool_errors {
        println!("{}", json!({"tool_error": e}));
    }
    println!("{}", json!({"summary": {"histories": inp.hists.len(), "steps": st.steps, "reorgs": st.reorgs, "reorgs_deeper_than_1": st.deep, "reorgs_to_shorter_heavier": st.shorter_heavier,
        "flawed_refused": st.refused, "roots": st.roots, "positions": st.positions, "extensions": st.extensions, "proofs": st.proofs,
        "proofs_rejected_on_sibling": st.proofs_rejected_on_sibling, "filters": st.filters, "script_hashes": st.script_hashes,
        "input_script_hashes": st.input_script_hashes, "renotified": st.renotified, "digests_across_adjustment": st.digests_across_adjustment, "typed_input_under_repeated_lock": st.typed_input_under_repeated_lock, "serve_cases": st.serve_cases, "serve_requests": st.serve_requests, "serve_nonempty_above0": st.serve_nonempty_above0, "mismatches": st.mismatches, "tool_errors": tool_errors.len()}}));
}

/// One round of requests to the real block-filter protocol handler: the published snapshot is recorded (main chain and
/// latest-built marker; which blocks have filter / filter-hash rows in the LIVE store) together with the normalised answers;
/// Judge_FilterServe.tla computes what FilterServe.tla demands for that snapshot and the check compares.
#[allow(clippy::too_many_arguments)]
fn serve_round(n: &Node, proto: &mut ckb_sync::BlockFilter, blocks: &HashMap<usize, Blk>, ids: &HashMap<Byte32, usize>, main: &[usize], phase: &str, hist: u64, step: usize, st: &mut Stats) {
    let snap = n.shared.snapshot();
    let nmax = *blocks.keys().max().unwrap();
    let mut parent = vec![];
    let mut number = vec![];
    for b in 1..=nmax {
        match blocks.get(&b) {
            Some(x) => { parent.push(x.parent as i64); number.push(x.view.number()); }
            None => { parent.push(0); number.push(1); }
        }
    }
    let mut pfilters = vec![];
    let mut pfhash = vec![];
    let mut fh = serde_json::Map::new();
    for (b, x) in blocks.iter() {
        let h = x.view.hash();
        // the rows themselves are read from the LIVE store by the server (ActiveChain::get_block_filter / _hash)
        if n.shared.store().get_block_filter(&h).is_some() { pfilters.push(*b); }
        if let Some(v) = n.shared.store().get_block_filter_hash(&h) { pfhash.push(*b); fh.insert(b.to_string(), json!(format!("{:x}", v))); }
    }
    pfilters.sort();
    pfhash.sort();
    let platest: i64 = snap.get_latest_built_filter_data_block_hash().map(|h| ids.get(&h).map(|&i| i as i64).unwrap_or(-2)).unwrap_or(-1);
    let handle = n.shared.async_handle().clone();
    let mut bad: Vec<String> = vec![];
    let mut ask = |msg: packed::BlockFilterMessage, bad: &mut Vec<String>| -> Option<packed::BlockFilterMessage> {
        let (nc, rec) = RecCtx::new(SupportProtocols::Filter);
        let data = msg.as_bytes();
        let r = std::panic::catch_unwind(std::panic::AssertUnwindSafe(|| {
            handle.block_on(proto.received(nc, PeerIndex::new(1), data));
        }));
        if r.is_err() {
            bad.push("panic".into());
            return None;
        }
        if !rec.banned.lock().unwrap().is_empty() {
            bad.push("ban".into());
        }
        let sent = rec.sent.lock().unwrap();
        if sent.len() > 1 {
            bad.push("several-answers".into());
        }
        sent.first().and_then(|d| packed::BlockFilterMessage::from_slice(d).map_err(|_| bad.push("answer-malformed".into())).ok())
    };
    let ignored = json!({"k": "ignored"});
    let (mut af, mut ah, mut ac) = (vec![], vec![], vec![]);
    let starts: Vec<u64> = (0..=main.len() as u64 + 1).chain([1u64 << 32, u64::MAX - 1999, u64::MAX - 1, u64::MAX]).collect();
    for &start in &starts {
        let modelled = start <= main.len() as u64 + 1;
        st.serve_requests += 3;
        // GetBlockFilters
        let q = packed::BlockFilterMessage::new_builder().set(packed::GetBlockFilters::new_builder().start_number(start).build()).build();
        let a = match ask(q, &mut bad).map(|m| m.to_enum()) {
            None => ignored.clone(),
            Some(packed::BlockFilterMessageUnion::BlockFilters(x)) => {
                let sn: u64 = x.start_number().into();
                if sn != start { bad.push(format!("filters:start-number:{start}")); }
                let hs: Vec<Byte32> = x.block_hashes().into_iter().collect();
                let fs: Vec<packed::Bytes> = x.filters().into_iter().collect();
                if hs.len() != fs.len() { bad.push(format!("filters:lengths-differ:{start}")); }
                for (h, f) in hs.iter().zip(fs.iter()) {
                    // the served filter is the stored filter of that block (its completeness is judged by the chain check above)
                    if n.shared.store().get_block_filter(h).map(|s| s.as_slice() == f.as_slice()) != Some(true) { bad.push(format!("filters:content:{start}")); }
                }
                if start > 0 && !hs.is_empty() { st.serve_nonempty_above0 += 1; }
                json!({"k": "filters", "b": hs.iter().map(|h| ids.get(h).map(|&i| i as i64).unwrap_or(-2)).collect::<Vec<_>>()})
            }
            Some(_) => { bad.push(format!("filters:wrong-answer-type:{start}")); ignored.clone() }
        };
        if modelled { af.push(a) } else if a != ignored { bad.push(format!("filters:answered-beyond-chain:{start}")); }
        // GetBlockFilterHashes
        let q = packed::BlockFilterMessage::new_builder().set(packed::GetBlockFilterHashes::new_builder().start_number(start).build()).build();
        let a = match ask(q, &mut bad).map(|m| m.to_enum()) {
            None => ignored.clone(),
            Some(packed::BlockFilterMessageUnion::BlockFilterHashes(x)) => {
                let sn: u64 = x.start_number().into();
                if sn != start { bad.push(format!("hashes:start-number:{start}")); }
                json!({"k": "hashes", "parent": format!("{:x}", x.parent_block_filter_hash()), "h": x.block_filter_hashes().into_iter().map(|h| format!("{:x}", h)).collect::<Vec<_>>()})
            }
            Some(_) => { bad.push(format!("hashes:wrong-answer-type:{start}")); ignored.clone() }
        };
        if modelled { ah.push(a) } else if a != ignored { bad.push(format!("hashes:answered-beyond-chain:{start}")); }
        // GetBlockFilterCheckPoints
        let q = packed::BlockFilterMessage::new_builder().set(packed::GetBlockFilterCheckPoints::new_builder().start_number(start).build()).build();
        let a = match ask(q, &mut bad).map(|m| m.to_enum()) {
            None => ignored.clone(),
            Some(packed::BlockFilterMessageUnion::BlockFilterCheckPoints(x)) => {
                let sn: u64 = x.start_number().into();
                if sn != start { bad.push(format!("checkpoints:start-number:{start}")); }
                json!({"k": "checkpoints", "h": x.block_filter_hashes().into_iter().map(|h| format!("{:x}", h)).collect::<Vec<_>>()})
            }
            Some(_) => { bad.push(format!("checkpoints:wrong-answer-type:{start}")); ignored.clone() }
        };
        if modelled { ac.push(a) } else if a != ignored { bad.push(format!("checkpoints:answered-beyond-chain:{start}")); }
    }
    // unsolicited answers from a peer are ignored without a reply
    let q = packed::BlockFilterMessage::new_builder().set(packed::BlockFilterHashes::new_builder().start_number(1u64).build()).build();
    if ask(q, &mut bad).is_some() { bad.push("reply-to-unsolicited-answer".into()); }
    st.serve_cases += 1;
    println!("{}", json!({"serve": {"idx": st.serve_cases, "hist": hist, "step": step, "phase": phase, "n": nmax, "parent": parent, "number": number,
        "main": main, "pfilters": pfilters, "pfhash": pfhash, "platest": platest, "fh": fh, "zero": format!("{:x}", Byte32::zero()),
        "filters": af, "hashes": ah, "checkpoints": ac, "bad": bad}}));
}

/// The snapshot / live-store interleaving, placed with the H8 yield point:
/// a1 creates a cell locked by s1, a2 spends it; the builder has taken its snapshot (tip a2) and built 0, a1 when the
/// chain reorganises to b1 (heavier); a2's filter is then built from the live store; later the chain returns to a3 on a2.
fn race() {
    use std::sync::atomic::{AtomicBool, Ordering};
    use std::sync::mpsc;
    let p = Params { genesis_cells: 3, window: (1, 1), ..Default::default() };
    let c = consensus(&p);
    let n = Node::start(&NodeCfg { assembler: false, ..NodeCfg::temp(&c) });
    let s1 = lock().as_builder().args(Bytes::from(vec![1u8]).pack()).build();
    let s3 = lock().as_builder().args(Bytes::from(vec![3u8]).pack()).build();
    let t1 = TransactionBuilder::default()
        .cell_dep(always_success_dep(&c))
        .input(CellInput::new(genesis_cell(&c, 0), 0))
        .output(CellOutput::new_builder().capacity(Capacity::shannons(49_999 * CKB)).lock(s1.clone()).build())
        .output_data(Bytes::new())
        .build();
    let t2 = TransactionBuilder::default()
        .cell_dep(always_success_dep(&c))
        .input(CellInput::new(OutPoint::new(t1.hash(), 0), 0))
        .output(CellOutput::new_builder().capacity(Capacity::shannons(49_998 * CKB)).lock(s3.clone()).build())
        .output_data(Bytes::new())
        .build();
    let heavy = difficulty_to_compact(U256::from(6u64));
    // branch A on a builder: a1 [t1], a2 [t2], a3 (heavy)
    let ma = Node::start(&NodeCfg { assembler: false, ..NodeCfg::temp(&c) });
    let a1 = assemble(&ma, &BlockSpec { commits: vec![t1.clone()], nonce: 1, ..Default::default() }).unwrap();
    ma.chain.chain_controller().blocking_process_block_with_switch(Arc::new(a1.clone()), sw_node()).unwrap();
    let a2 = assemble(&ma, &BlockSpec { commits: vec![t2.clone()], nonce: 2, ..Default::default() }).unwrap();
    ma.chain.chain_controller().blocking_process_block_with_switch(Arc::new(a2.clone()), sw_node()).unwrap();
    let a3 = assemble(&ma, &BlockSpec { nonce: 3, ..Default::default() }).unwrap().as_advanced_builder().compact_target(heavy).build();
    // branch B: b1 (heavy) on genesis
    let mb = Node::start(&NodeCfg { assembler: false, ..NodeCfg::temp(&c) });
    let b1 = assemble(&mb, &BlockSpec { nonce: 11, ..Default::default() }).unwrap().as_advanced_builder().compact_target(heavy).build();
    // the yield point: the first time the builder is about to build block number 2, wait for the release
    let (reached_tx, reached_rx) = mpsc::channel::<()>();
    let (release_tx, release_rx) = mpsc::channel::<()>();
    let release_rx = std::sync::Mutex::new(release_rx);
    let reached_tx = std::sync::Mutex::new(reached_tx);
    let armed = Arc::new(AtomicBool::new(true));
    let armed2 = Arc::clone(&armed);
    ckb_block_filter::filter::verif::set_yield(Some(Arc::new(move |num: u64| {
        if num == 2 && armed2.swap(false, Ordering::SeqCst) {
            let _ = reached_tx.lock().unwrap().send(());
            let _ = release_rx.lock().unwrap().recv_timeout(std::time::Duration::from_secs(300));
        }
    })));
    // a1 and a2 are on the chain before the builder starts: its initial run snapshots tip a2
    let r1 = deliver(&n, &a1, sw_node());
    let r2 = deliver(&n, &a2, sw_node());
    ckb_block_filter::filter::BlockFilter::new(n.shared.clone()).start();
    let reached = reached_rx.recv_timeout(std::time::Duration::from_secs(180)).is_ok();
    // the reorganisation placed between the snapshot and the build of a2
    let rb = deliver(&n, &b1, sw_node());
    let tip_b = n.tip().1 == b1.hash();
    let _ = release_tx.send(());
    let store = n.shared.store();
    let wait = |hashes: Vec<Byte32>| -> bool {
        for round in 0..36000u64 {
            if hashes.iter().all(|h| store.get_block_filter_hash(h).is_some()) {
                return true;
            }
            if round > 0 && round % 400 == 0 {
                let tip = n.shared.snapshot().tip_hash();
                if let Some(b) = store.get_block(&tip) {
                    n.shared.notify_controller().notify_new_block(b);
                }
            }
            std::thread::sleep(std::time::Duration::from_millis(5));
        }
        false
    };
    let built_a2 = wait(vec![a2.hash(), b1.hash()]);
    // back to branch A
    let r3 = deliver(&n, &a3, sw_node());
    let tip_a = n.tip().1 == a3.hash();
    let built_a3 = wait(vec![a1.hash(), a2.hash(), a3.hash()]);
    let f2 = store.get_block_filter(&a2.hash());
    let spent_lock = s1.calc_script_hash();
    let out_lock = s3.calc_script_hash();
    let m_in = f2.as_ref().map(|f| filter_matches(f, &spent_lock));
    let m_out = f2.as_ref().map(|f| filter_matches(f, &out_lock));
    ckb_block_filter::filter::verif::set_yield(None);
    println!("{}", json!({"race": {"delivered": [format!("{:?}", r1), format!("{:?}", r2), format!("{:?}", rb), format!("{:?}", r3)],
        "yield_point_reached": reached, "reorg_to_b_while_builder_held": tip_b, "a2_built_while_off_main": built_a2,
        "back_on_a": tip_a, "main_chain_filters_complete_after_return": built_a3,
        "a2_filter_matches_spent_input_lock": m_in, "a2_filter_matches_output_lock": m_out}}));
}

fn main() {
    let args: Vec<String> = std::env::args().collect();
    let ft = ckb_systemtime::faketime();
    ft.set_faketime(GENESIS_TS + 100_000 * BLOCK_INTERVAL_MS);
    let rest = &args[2.min(args.len())..];
    match args.get(1).map(|s| s.as_str()) {
        Some("chain") => {
            let inp: Input = serde_json::from_str(&std::fs::read_to_string(opt(rest, "--in").expect("--in")).expect("read")).expect("input json");
            chain_cmd(&inp)
        }
        Some("race") => race(),
        _ => {
            eprintln!("usage: c19 chain --in f.json | race");
            std::process::exit(2);
        }
    }
    let _: Option<Value> = None;
    let _: HashSet<u8> = HashSet::new();
    use std::io::Write;
    std::io::stdout().flush().unwrap();
    std::process::exit(0);
}
