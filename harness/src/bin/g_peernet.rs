//! Growth binding of spec/PeerNet.tla: the real PeerRegistry / PeerStore / BanList / AddrManager (and, in `ctl`
//! mode, the real NetworkController's ban interface) driven by seeded random histories.  Every operation is one
//! ndjson event carrying its arguments, its answer and the COMPLETE projected state after it; spec/Trace_PeerNet.tla
//! validates the event sequence with TLC.  Time is ckb_systemtime's faketime (whole seconds).
use ckb_network::{
    Flags, PeerId, PeerRegistry, RawSessionType, SessionId, SessionType, extract_peer_id,
    multiaddr::Multiaddr,
    peer_store::{PeerStore, types::AddrInfo},
    secio::SecioKeyPair,
};
use ckbv::util::{self, Rng, Scratch};
use serde_json::{Value, json};
use std::collections::{BTreeMap, HashMap};
use std::time::{Duration, Instant};

const BASE_NOW: u64 = 1_000_000; // model seconds

struct Univ {
    addrs: Vec<Multiaddr>, // index a-1
    peer_of: Vec<u64>,
    ip_of: Vec<u64>,
    gw: u64,
    white: Vec<u64>,
    white_only: bool,
    max_in: u32,
    max_out: u32,
    no_br: bool,
    by_addr: HashMap<Multiaddr, u64>,
    pid_of_peerid: HashMap<PeerId, u64>,
}

fn ip_str(ip: u64, gw: u64) -> String {
    // group = first two octets
    format!("{}.{}.0.{}", 11 + ip / gw, 7, 1 + ip % gw)
}

fn make_universe(rng: &mut Rng, profile: u64) -> Univ {
    let gw = 10u64;
    let n = match profile % 4 {
        0 => 8,
        1 => 26,
        2 => 30,
        _ => 14,
    } as usize;
    let npeers = n - (rng.below(3) as usize).min(n - 2); // a few peer ids own two addresses
    let keys: Vec<PeerId> = (0..npeers).map(|_| SecioKeyPair::secp256k1_generated().peer_id()).collect();
    let groups = match profile % 4 {
        0 => 2,
        1 => 4,
        2 => 3,
        _ => 6,
    };
    let mut addrs = vec![];
    let mut peer_of = vec![];
    let mut ip_of = vec![];
    let mut by_addr = HashMap::new();
    let mut pid_of_peerid = HashMap::new();
    let mut used = std::collections::HashSet::new();
    for a in 0..n {
        let pid = if a < npeers { a } else { rng.below(npeers as u64) as usize };
        // ips: skewed over the groups so that one group is the largest; some addresses share an ip (other port)
        let mut ip;
        let mut port;
        loop {
            let g = if rng.chance(1, 2) { 0 } else { rng.below(groups) };
            ip = g * gw + rng.below(gw.min(6));
            port = 8000 + rng.below(3);
            if used.insert((pid, ip, port)) {
                break;
            }
        }
        let m: Multiaddr = format!("/ip4/{}/tcp/{}/p2p/{}", ip_str(ip, gw), port, keys[pid].to_base58()).parse().unwrap();
        by_addr.insert(m.clone(), (a + 1) as u64);
        pid_of_peerid.insert(keys[pid].clone(), (pid + 1) as u64);
        addrs.push(m);
        peer_of.push((pid + 1) as u64);
        ip_of.push(ip);
    }
    let (max_in, max_out) = match profile % 4 {
        0 => (2, 1),
        1 => (rng.range(10, 13) as u32, 2),
        2 => (rng.range(17, 20) as u32, 3),
        _ => (3, 2),
    };
    let mut white = vec![];
    for p in 1..=npeers as u64 {
        if rng.chance(1, 8) {
            white.push(p);
        }
    }
    Univ {
        addrs,
        peer_of,
        ip_of,
        gw,
        white,
        white_only: profile % 11 == 10,
        max_in,
        max_out,
        no_br: profile % 5 == 4,
        by_addr,
        pid_of_peerid,
    }
}

struct World {
    u: Univ,
    reg: PeerRegistry,
    store: PeerStore,
    now: u64,
    t0: Instant,
    conn_seq: HashMap<SessionId, u64>,
    ages: HashMap<SessionId, u64>,
    seq: u64,
    next_sid: usize,
    dir: Scratch,
}

fn ty_str(t: SessionType) -> &'static str {
    match t {
        SessionType::Inbound => "in",
        SessionType::Outbound => "out",
        SessionType::BlockRelayOnly => "br",
    }
}
fn flag_bits(f: u64) -> Vec<u64> {
    (0..16).filter(|b| f & (1 << b) != 0).collect()
}
const INF: u64 = 1_000_000_000;

impl World {
    fn new(u: Univ) -> World {
        let white: Vec<Multiaddr> = u
            .addrs
            .iter()
            .enumerate()
            .filter(|(i, _)| u.white.contains(&u.peer_of[*i]))
            .map(|(_, a)| a.clone())
            .collect();
        let reg = PeerRegistry::new(u.max_in, u.max_out, u.white_only, white, u.no_br);
        World {
            u,
            reg,
            store: PeerStore::default(),
            now: BASE_NOW,
            t0: Instant::now(),
            conn_seq: HashMap::new(),
            ages: HashMap::new(),
            seq: 1,
            next_sid: 1,
            dir: Scratch::new("peernet"),
        }
    }
    fn set_time(&self) {
        set_faketime(self.now * 1000);
    }
    fn aid(&self, m: &Multiaddr) -> u64 {
        *self.u.by_addr.get(m).unwrap_or(&0)
    }
    /// complete projection + API consistency
    fn state(&self) -> (Value, bool) {
        let mut ok = true;
        let mut peers = vec![];
        let mut sids: Vec<_> = self.reg.peers().keys().cloned().collect();
        sids.sort();
        if self.reg.connected_peers().len() != sids.len() {
            ok = false;
        }
        for s in sids {
            let p = &self.reg.peers()[&s];
            let a = self.aid(&p.connected_addr);
            if a == 0 || p.session_id != s {
                ok = false;
            }
            if self.reg.get_key_by_peer_id(&extract_peer_id(&p.connected_addr).unwrap()) != Some(s) {
                ok = false;
            }
            peers.push(json!({"s": s.value(), "addr": a, "ty": ty_str(p.session_type), "wl": p.is_whitelist,
                "ping": p.ping_rtt.map(|d| d.as_secs()).unwrap_or(INF),
                "age": self.ages.get(&s).cloned().unwrap_or(INF),
                "conn": self.conn_seq.get(&s).cloned().unwrap_or(0)}));
        }
        // connection order as the code sees it must be the acceptance order
        let mut by_time: Vec<_> = self.reg.peers().values().map(|p| (p.connected_time, self.conn_seq.get(&p.session_id).cloned().unwrap_or(0))).collect();
        by_time.sort();
        if by_time.windows(2).any(|w| w[0].1 >= w[1].1) {
            ok = false;
        }
        let mut connected = vec![];
        for (pid_raw, pid) in self.u.pid_of_peerid.iter() {
            if self.store.peer_status(pid_raw) == ckb_network::peer_store::Status::Connected {
                connected.push(json!({"p": pid}));
            }
        }
        connected.sort_by_key(|v| v["p"].as_u64());
        let mut anchors: Vec<u64> = self.u.addrs.iter().filter(|m| self.store.anchors().contains(m)).map(|m| self.aid(m)).collect();
        anchors.sort();
        if anchors.len() != self.store.anchors().count() {
            ok = false;
        }
        let mut bans = vec![];
        for b in self.store.ban_list().get_banned_addrs() {
            let (k, v) = net_abs(&b.address, self.u.gw);
            if k == "?" || b.ban_until % 1000 != 0 {
                ok = false;
            }
            bans.push(json!({"k": k, "v": v, "until": b.ban_until / 1000}));
        }
        bans.sort_by_key(|v| (v["k"].as_str().unwrap().to_string(), v["v"].as_u64()));
        if bans.len() != self.store.ban_list().count() {
            ok = false;
        }
        let mut banned: Vec<u64> = vec![];
        for (i, m) in self.u.addrs.iter().enumerate() {
            if self.store.is_addr_banned(m) {
                banned.push(i as u64 + 1);
            }
        }
        let mut book: BTreeMap<u64, Value> = BTreeMap::new();
        let mut poss = vec![];
        for i in self.store.addr_manager().addrs_iter() {
            let a = self.aid(&i.addr);
            if a == 0 || i.last_connected_at_ms % 1000 != 0 || i.last_tried_at_ms % 1000 != 0 {
                ok = false;
            }
            poss.push(i.random_id_pos);
            if book
                .insert(a, json!({"a": a, "score": i.score, "lc": i.last_connected_at_ms / 1000, "lt": i.last_tried_at_ms / 1000,
                    "at": i.attempts_count, "fl": flag_bits(i.flags)}))
                .is_some()
            {
                ok = false;
            }
        }
        poss.sort();
        if poss != (0..poss.len()).collect::<Vec<_>>() || self.store.addr_manager().count() != poss.len() {
            ok = false;
        }
        for (i, m) in self.u.addrs.iter().enumerate() {
            let got = self.store.addr_manager().get(m).map(|x| self.aid(&x.addr));
            let want = book.get(&(i as u64 + 1)).map(|_| i as u64 + 1);
            if got != want {
                ok = false;
            }
        }
        (
            json!({"now": self.now, "seq": self.seq, "peers": peers, "connected": connected, "anchors": anchors, "bans": bans,
                "banned": banned, "store": book.values().collect::<Vec<_>>()}),
            ok,
        )
    }
    fn emit(&self, mut ev: Value) {
        let (st, ok) = self.state();
        ev["st"] = st;
        ev["api_ok"] = json!(ok);
        println!("{}", ev);
    }
}

fn set_faketime(ms: u64) {
    let g = ckb_systemtime::faketime();
    g.set_faketime(ms);
    std::mem::forget(g); // the guard's drop would switch faketime off
}

fn net_abs(n: &ipnetwork::IpNetwork, gw: u64) -> (&'static str, u64) {
    if let ipnetwork::IpNetwork::V4(v4) = n {
        let o = v4.ip().octets();
        if v4.prefix() == 32 && o[1] == 7 && o[2] == 0 && o[0] >= 11 && o[3] >= 1 {
            return ("ip", (o[0] as u64 - 11) * gw + (o[3] as u64 - 1));
        }
        if v4.prefix() == 16 && o[1] == 7 && o[0] >= 11 {
            return ("grp", o[0] as u64 - 11);
        }
    }
    ("?", 0)
}
fn net_conc(k: &str, v: u64, gw: u64) -> ipnetwork::IpNetwork {
    if k == "ip" {
        format!("{}/32", ip_str(v, gw)).parse().unwrap()
    } else {
        format!("{}.7.0.0/16", 11 + v).parse().unwrap()
    }
}

fn reset_event(w: &World, purge_limit: usize) -> Value {
    let (protect, max_br) = PeerRegistry::verif_constants();
    json!({"ev": "Reset", "u": {"peerOf": w.u.peer_of, "ipOf": w.u.ip_of, "gw": w.u.gw, "white": w.u.white,
        "whiteOnly": w.u.white_only, "maxIn": w.u.max_in, "maxOut": w.u.max_out, "noBR": w.u.no_br},
        "protect": protect, "maxBR": max_br, "addrLimit": purge_limit})
}

fn accept_ev(w: &mut World, rng: &mut Rng, a: u64, raw_in: bool, sid: SessionId) {
    let raw = if raw_in { RawSessionType::Inbound } else { RawSessionType::Outbound };
    let res = w.reg.verif_accept_peer(w.u.addrs[a as usize - 1].clone(), sid, raw, &mut w.store);
    let (ret, ev) = match &res {
        Ok(None) => ("ok".to_string(), 0),
        Ok(Some(p)) => ("ok".to_string(), p.session_id.value()),
        Err(e) => {
            let s = format!("{:?}", e);
            let name = ["SessionExists", "PeerIdExists", "NonReserved", "Banned", "ReachMaxInboundLimit", "ReachMaxOutboundLimit"]
                .iter()
                .find(|k| s.contains(*k))
                .map(|k| k.to_string())
                .unwrap_or(s);
            (name, 0)
        }
    };
    if let Ok(evicted) = &res {
        w.conn_seq.insert(sid, w.seq);
        w.seq += 1;
        if let Some(p) = evicted {
            w.conn_seq.remove(&p.session_id);
            w.ages.remove(&p.session_id);
        }
    }
    w.emit(json!({"ev": "Accept", "a": a, "s": sid.value(), "raw": if raw_in {"in"} else {"out"}, "ret": ret, "evicted": ev}));
    if let Ok(Some(p)) = res {
        // the transport closes the evicted session; mostly at once, sometimes later (or never in this history)
        if rng.chance(3, 4) {
            let ea = w.aid(&p.connected_addr);
            // only when no live session of that peer id exists (the close handler's condition is on the session)
            let pid = extract_peer_id(&p.connected_addr).unwrap();
            if w.reg.get_key_by_peer_id(&pid).is_none() {
                w.store.remove_disconnected_peer(&p.connected_addr);
                w.emit(json!({"ev": "Closed", "a": ea}));
            }
        }
    }
}

fn tick(w: &mut World, d: u64) {
    w.now += d;
    w.set_time();
    w.emit(json!({"ev": "Tick", "d": d}));
}
fn fetch_ev(w: &mut World, kind: &str, req: Flags, cnt: usize) {
    let res: Vec<AddrInfo> = match kind {
        "attempt" => w.store.fetch_addrs_to_attempt(cnt, req, |_| true),
        "feeler" => w.store.fetch_addrs_to_feeler(cnt, |_| true),
        "nat" => w.store.fetch_nat_addrs(cnt, req),
        _ => w.store.fetch_random_addrs(cnt, req),
    };
    let ids: Vec<u64> = res.iter().map(|i| w.aid(&i.addr)).collect();
    w.emit(json!({"ev": "Fetch", "kind": kind, "req": flag_bits(req.bits()), "n": cnt, "res": ids}));
}
/// the time boundaries of the fetch rules, hit exactly: DIAL_INTERVAL, one minute after a try, ADDR_TRY_TIMEOUT, ADDR_TIMEOUT
fn boundaries(w: &mut World, rng: &mut Rng) {
    let n = w.u.addrs.len() as u64;
    let full = Flags::DISCOVERY | Flags::SYNC | Flags::RELAY;
    let a = 1 + rng.below(n);
    let m = w.u.addrs[a as usize - 1].clone();
    w.store.add_outbound_addr(m.clone(), full);
    w.emit(json!({"ev": "AddOutbound", "a": a, "fl": flag_bits(full.bits())}));
    let all = |w: &mut World| {
        for k in ["attempt", "feeler", "nat", "random"] {
            fetch_ev(w, k, full, 50);
        }
    };
    all(w);
    for d in [14u64, 1, 1] {
        tick(w, d); // lc = now - 14 / - 15 / - 16
        all(w);
    }
    let now_ms = w.now * 1000;
    if let Some(i) = w.store.mut_addr_manager().get_mut(&m) {
        i.mark_tried(now_ms);
        w.emit(json!({"ev": "MarkTried", "a": a}));
    }
    for d in [59u64, 1, 1] {
        tick(w, d); // lt = now - 59 / - 60 / - 61
        all(w);
    }
    tick(w, 259_200 - 16 - 61 - 1);
    all(w); // lc = now - TRY_TIMEOUT + 1
    for _ in 0..2 {
        tick(w, 1);
        all(w); // lc = now - TRY_TIMEOUT, then one second older
    }
    tick(w, 604_800 - 259_200 - 2);
    all(w); // lc = now - ADDR_TIMEOUT + 1
    for _ in 0..2 {
        tick(w, 1);
        all(w);
    }
}

fn restart_ev(w: &mut World) {
    // dump, process exit, load: sessions are gone
    w.store.dump_to_dir(w.dir.path()).expect("dump");
    let st = PeerStore::load_from_dir_or_default(w.dir.path());
    w.store = st;
    let white: Vec<Multiaddr> = w.u.addrs.iter().enumerate().filter(|(i, _)| w.u.white.contains(&w.u.peer_of[*i])).map(|(_, a)| a.clone()).collect();
    w.reg = PeerRegistry::new(w.u.max_in, w.u.max_out, w.u.white_only, white, w.u.no_br);
    w.conn_seq.clear();
    w.ages.clear();
    w.emit(json!({"ev": "Restart"}));
}

fn history(seed: u64, h: u64, steps: u64) {
    let mut rng = Rng::new(seed.wrapping_mul(1000003).wrapping_add(h));
    let u = make_universe(&mut rng, h);
    let mut w = World::new(u);
    w.set_time();
    let n = w.u.addrs.len() as u64;
    w.emit(reset_event(&w, PeerStore::verif_addr_count_limit()));
    // pools of distinct measurement values: distinct keys make the eviction rule deterministic up to the group choice;
    // every fourth history reuses values (ties: the specification then allows any of the tied)
    let ties = h % 4 == 3;
    let mut ping_pool: Vec<u64> = (1..=40).collect();
    let mut age_pool: Vec<u64> = (0..=24).collect();
    // profiles with a large inbound side start full, every session measured: the protection rounds of the eviction
    // rule (8 lowest pings, 8 most recent senders, the older half) then really drop candidates
    if h % 4 == 1 || h % 4 == 2 {
        let mut a = 1;
        while a <= n && (w.reg.peers().values().filter(|p| p.is_inbound() && !p.is_whitelist).count() as u32) < w.u.max_in {
            w.next_sid += 1;
            let sid = SessionId::new(w.next_sid);
            accept_ev(&mut w, &mut rng, a, true, sid);
            if w.reg.get_peer(sid).is_some() {
                if !rng.chance(1, 10) {
                    let p = if ties { 1 + rng.below(3) } else { ping_pool.swap_remove(rng.below(ping_pool.len() as u64) as usize) };
                    w.reg.get_peer_mut(sid).unwrap().ping_rtt = Some(Duration::from_secs(p));
                    w.emit(json!({"ev": "SetPing", "s": sid.value(), "p": p}));
                }
                if !rng.chance(1, 10) && (ties || !age_pool.is_empty()) {
                    let g = if ties { rng.below(3) } else { age_pool.swap_remove(rng.below(age_pool.len() as u64) as usize) };
                    let t = w.t0.checked_sub(Duration::from_secs(2 * g)).unwrap_or_else(|| {
                        eprintln!("TOOL-ERROR monotonic clock too young");
                        std::process::exit(2)
                    });
                    w.reg.get_peer_mut(sid).unwrap().last_ping_protocol_message_received_at = Some(t);
                    w.ages.insert(sid, g);
                    w.emit(json!({"ev": "SetAge", "s": sid.value(), "g": g}));
                }
            }
            a += 1;
        }
        // two newcomers against the full, measured inbound side
        let mut extra = 0;
        while a <= n && extra < 2 {
            w.next_sid += 1;
            let sid = SessionId::new(w.next_sid);
            accept_ev(&mut w, &mut rng, a, true, sid);
            if w.reg.get_peer(sid).is_some() {
                extra += 1;
            }
            a += 1;
        }
    }
    if h % 4 == 0 {
        boundaries(&mut w, &mut rng);
    }
    // outbound sessions beyond max_outbound become block-relay-only (two slots) and their addresses anchors: open them, then
    // dump / load - both anchors must survive
    if h % 4 == 3 && !w.u.no_br && !w.u.white_only {
        let mut a = 1;
        while a <= n && w.reg.peers().values().filter(|p| p.is_block_relay_only()).count() < 2 {
            w.next_sid += 1;
            let sid = SessionId::new(w.next_sid);
            accept_ev(&mut w, &mut rng, a, false, sid);
            a += 1;
        }
        restart_ev(&mut w);
    }
    // one history in twelve is a ban storm: more than 1024 insertions into one BanList, short bans, ticks in between:
    // the periodic sweep of expired entries happens (and must never drop a live ban)
    if h % 12 == 7 {
        for i in 0..1100u64 {
            let a = 1 + rng.below(n);
            let t = [1, 2, 5, 3600][rng.below(4) as usize];
            w.store.verif_ban_addr(&w.u.addrs[a as usize - 1].clone(), t * 1000, "verif".into());
            w.emit(json!({"ev": "BanAddr", "a": a, "t": t}));
            if i % 3 == 2 {
                let d = 1 + rng.below(3);
                w.now += d;
                w.set_time();
                w.emit(json!({"ev": "Tick", "d": d}));
            }
        }
    }
    for _ in 0..steps {
        let r = rng.below(100);
        let sids: Vec<SessionId> = {
            let mut v: Vec<_> = w.reg.peers().keys().cloned().collect();
            v.sort();
            v
        };
        if r < 34 {
            // a session opens; most often inbound from a fresh peer; sometimes a known session id / peer id
            let a = 1 + rng.below(n);
            let raw_in = rng.chance(2, 3);
            let sid = if rng.chance(1, 25) && !sids.is_empty() { sids[rng.below(sids.len() as u64) as usize] } else {
                w.next_sid += 1;
                SessionId::new(w.next_sid)
            };
            accept_ev(&mut w, &mut rng, a, raw_in, sid);
        } else if r < 44 && !sids.is_empty() {
            let s = sids[rng.below(sids.len() as u64) as usize];
            let p = w.reg.verif_remove_peer(s).unwrap();
            w.store.remove_disconnected_peer(&p.connected_addr);
            w.conn_seq.remove(&s);
            w.ages.remove(&s);
            w.emit(json!({"ev": "Disconnect", "s": s.value()}));
        } else if r < 56 && !sids.is_empty() {
            let s = sids[rng.below(sids.len() as u64) as usize];
            let p = if ties { 1 + rng.below(3) } else if ping_pool.is_empty() { 50 + rng.below(1000) } else { ping_pool.swap_remove(rng.below(ping_pool.len() as u64) as usize) };
            w.reg.get_peer_mut(s).unwrap().ping_rtt = Some(Duration::from_secs(p));
            w.emit(json!({"ev": "SetPing", "s": s.value(), "p": p}));
        } else if r < 68 && !sids.is_empty() {
            let s = sids[rng.below(sids.len() as u64) as usize];
            let g = if ties { rng.below(3) } else if age_pool.is_empty() { continue } else { age_pool.swap_remove(rng.below(age_pool.len() as u64) as usize) };
            let t = match w.t0.checked_sub(Duration::from_secs(2 * g)) {
                Some(t) => t,
                None => {
                    eprintln!("TOOL-ERROR monotonic clock too young for an age of {} s", 2 * g);
                    std::process::exit(2);
                }
            };
            w.reg.get_peer_mut(s).unwrap().last_ping_protocol_message_received_at = Some(t);
            w.ages.insert(s, g);
            w.emit(json!({"ev": "SetAge", "s": s.value(), "g": g}));
        } else if r < 72 {
            let d = [1, 10, 20, 50, 61, 3600, 86400, 86401, 200000, 259200, 604801][rng.below(11) as usize];
            w.now += d;
            w.set_time();
            w.emit(json!({"ev": "Tick", "d": d}));
        } else if r < 76 {
            let a = 1 + rng.below(n);
            let t = [1, 60, 3600, 86400][rng.below(4) as usize];
            w.store.verif_ban_addr(&w.u.addrs[a as usize - 1].clone(), t * 1000, "verif".into());
            w.emit(json!({"ev": "BanAddr", "a": a, "t": t}));
        } else if r < 78 {
            let a = 1 + rng.below(n);
            let (k, v) = if rng.chance(1, 2) { ("ip", w.u.ip_of[a as usize - 1]) } else { ("grp", w.u.ip_of[a as usize - 1] / w.u.gw) };
            let t = [30, 3600][rng.below(2) as usize];
            w.store.verif_ban_network(net_conc(k, v, w.u.gw), t * 1000, "verif".into());
            w.emit(json!({"ev": "BanUntil", "k": k, "v": v, "until": w.now + t}));
        } else if r < 80 {
            let bl = w.store.ban_list().get_banned_addrs();
            if bl.is_empty() || rng.chance(1, 6) {
                w.store.clear_ban_list();
                w.emit(json!({"ev": "ClearBans"}));
            } else {
                let b = &bl[rng.below(bl.len() as u64) as usize];
                let (k, v) = net_abs(&b.address, w.u.gw);
                w.store.mut_ban_list().unban_network(&b.address);
                w.emit(json!({"ev": "Unban", "k": k, "v": v}));
            }
        } else if r < 86 {
            let a = 1 + rng.below(n);
            let fl = [Flags::COMPATIBILITY, Flags::DISCOVERY | Flags::SYNC | Flags::RELAY, Flags::SYNC, Flags::all()][rng.below(4) as usize];
            if rng.chance(2, 3) {
                let res = w.store.add_addr(w.u.addrs[a as usize - 1].clone(), fl);
                w.emit(json!({"ev": "AddAddr", "a": a, "fl": flag_bits(fl.bits()), "removed": [], "ret": if res.is_ok() {"ok"} else {"full"}}));
            } else {
                w.store.add_outbound_addr(w.u.addrs[a as usize - 1].clone(), fl);
                w.emit(json!({"ev": "AddOutbound", "a": a, "fl": flag_bits(fl.bits())}));
            }
        } else if r < 91 {
            let a = 1 + rng.below(n);
            let m = w.u.addrs[a as usize - 1].clone();
            match rng.below(4) {
                0 => {
                    w.store.update_outbound_addr_last_connected_ms(m);
                    w.emit(json!({"ev": "Touch", "a": a}));
                }
                1 => {
                    let now_ms = w.now * 1000;
                    if let Some(i) = w.store.mut_addr_manager().get_mut(&m) {
                        i.mark_tried(now_ms);
                        w.emit(json!({"ev": "MarkTried", "a": a}));
                    }
                }
                2 => {
                    let now_ms = w.now * 1000;
                    if let Some(i) = w.store.mut_addr_manager().get_mut(&m) {
                        i.mark_connected(now_ms);
                        w.emit(json!({"ev": "MarkConnected", "a": a}));
                    }
                }
                _ => {
                    let r = w.store.mut_addr_manager().remove(&m);
                    w.emit(json!({"ev": "Remove", "a": a, "ret": if r.is_some() {"some"} else {"none"}}));
                }
            }
        } else if r < 98 {
            let kind = ["attempt", "feeler", "nat", "random"][rng.below(4) as usize];
            let req = [Flags::DISCOVERY | Flags::SYNC | Flags::RELAY, Flags::empty(), Flags::SYNC][rng.below(3) as usize];
            let cnt = [1usize, 2, 3, 50][rng.below(4) as usize];
            let res: Vec<AddrInfo> = match kind {
                "attempt" => w.store.fetch_addrs_to_attempt(cnt, req, |_| true),
                "feeler" => w.store.fetch_addrs_to_feeler(cnt, |_| true),
                "nat" => w.store.fetch_nat_addrs(cnt, req),
                _ => w.store.fetch_random_addrs(cnt, req),
            };
            let ids: Vec<u64> = res.iter().map(|i| w.aid(&i.addr)).collect();
            w.emit(json!({"ev": "Fetch", "kind": kind, "req": flag_bits(req.bits()), "n": cnt, "res": ids}));
        } else if sids.is_empty() || rng.chance(1, 3) {
            restart_ev(&mut w);
        }
    }
}

/// the operator's interface: NetworkController::ban / unban / clear_banned_addrs / get_banned_addrs (rpc set_ban,
/// get_banned_addresses, clear_banned_addresses) on a started network service
fn ctl(seed: u64, histories: u64, steps: u64) {
    use ckb_app_config::NetworkConfig;
    use ckb_network::{NetworkService, NetworkState, network::TransportType};
    use std::sync::Arc;
    let handle = ckb_async_runtime::new_background_runtime();
    let gw = 10u64;
    for h in 0..histories {
        let mut rng = Rng::new(seed.wrapping_mul(7919).wrapping_add(h));
        let dir = Scratch::new("peernet-ctl");
        let config = NetworkConfig {
            max_peers: 19,
            max_outbound_peers: 5,
            path: dir.path().to_path_buf(),
            ping_interval_secs: 15,
            ping_timeout_secs: 20,
            connect_outbound_interval_secs: 1,
            discovery_local_address: true,
            bootnode_mode: true,
            reuse_port_on_linux: true,
            ..Default::default()
        };
        let state = Arc::new(NetworkState::from_config(config).expect("network state"));
        let ctl = NetworkService::new(state, vec![], vec![], ("ckb".to_string(), "test".to_string(), Flags::COMPATIBILITY), TransportType::Tcp)
            .start(&handle)
            .expect("start network service");
        let mut now = BASE_NOW;
        set_faketime(now * 1000);
        let (protect, max_br) = PeerRegistry::verif_constants();
        let emit = |mut ev: Value, now: u64| {
            let mut bans = vec![];
            let mut ok = true;
            for b in ctl.get_banned_addrs() {
                let (k, v) = net_abs(&b.address, gw);
                if k == "?" || b.ban_until % 1000 != 0 {
                    ok = false;
                }
                bans.push(json!({"k": k, "v": v, "until": b.ban_until / 1000}));
            }
            bans.sort_by_key(|v| (v["k"].as_str().unwrap().to_string(), v["v"].as_u64()));
            ev["st"] = json!({"now": now, "seq": 1, "peers": [], "connected": [], "anchors": [], "bans": bans, "banned": [], "store": []});
            ev["api_ok"] = json!(ok);
            ev["banned_skip"] = json!(true);
            println!("{}", ev);
        };
        emit(json!({"ev": "Reset", "u": {"peerOf": [1], "ipOf": [0], "gw": gw, "white": [], "whiteOnly": false, "maxIn": 1, "maxOut": 1, "noBR": false},
            "protect": protect, "maxBR": max_br, "addrLimit": PeerStore::verif_addr_count_limit()}), now);
        for _ in 0..steps {
            match rng.below(10) {
                0..=4 => {
                    let (k, v) = if rng.chance(1, 2) { ("ip", rng.below(25)) } else { ("grp", rng.below(3)) };
                    // rpc set_ban: absolute instant, or now + duration (the RPC module computes the instant either way)
                    let until = now + [1, 30, 3600, 86400][rng.below(4) as usize];
                    ctl.ban(net_conc(k, v, gw), until * 1000, "verif".into());
                    emit(json!({"ev": "BanUntil", "k": k, "v": v, "until": until}), now);
                }
                5..=6 => {
                    let bl = ctl.get_banned_addrs();
                    if !bl.is_empty() {
                        let b = &bl[rng.below(bl.len() as u64) as usize];
                        let (k, v) = net_abs(&b.address, gw);
                        ctl.unban(&b.address);
                        emit(json!({"ev": "Unban", "k": k, "v": v}), now);
                    }
                }
                7 => {
                    ctl.clear_banned_addrs();
                    emit(json!({"ev": "ClearBans"}), now);
                }
                _ => {
                    let d = [1, 30, 3600][rng.below(3) as usize];
                    now += d;
                    set_faketime(now * 1000);
                    emit(json!({"ev": "Tick", "d": d}), now);
                }
            }
        }
    }
    let _ = std::io::Write::flush(&mut std::io::stdout());
    unsafe { libc::_exit(0) }
}

/// the purge of a full address book (ADDR_COUNT_LIMIT entries): one record per experiment for Judge_PeerPurge
fn purge(seed: u64, experiments: u64) {
    let limit = PeerStore::verif_addr_count_limit() as u64;
    for x in 0..experiments {
        let mut rng = Rng::new(seed.wrapping_mul(104729).wrapping_add(x));
        let mut now = BASE_NOW;
        set_faketime(now * 1000);
        let mut store = PeerStore::default();
        let key = SecioKeyPair::secp256k1_generated().peer_id().to_base58();
        // shape of the book: number of groups and how the addresses spread over them
        let shape = x % 4;
        let ngroups: u64 = match shape {
            0 => 9,
            1 => 64,
            2 => 5000, // many small groups: nothing to evict in the second phase
            _ => 7,
        };
        let mut grp_of: Vec<u64> = vec![];
        let addr_of = |i: u64, g: u64| -> Multiaddr {
            // group = first two octets (b0 = 20 + g / 200, b1 = g % 200), host part from i
            format!("/ip4/{}.{}.{}.{}/tcp/{}/p2p/{}", 20 + g / 200, g % 200, (i / 250) % 250, 1 + i % 250, 8000 + i / 62500, key).parse().unwrap()
        };
        let mut addrs = vec![];
        for i in 0..limit {
            let g = if shape == 2 { i % ngroups } else if rng.chance(1, 2) { rng.below(3) } else { rng.below(ngroups) };
            let m = addr_of(i, g);
            store.add_addr(m.clone(), Flags::COMPATIBILITY).expect("below the limit");
            addrs.push(m);
            grp_of.push(g);
        }
        assert_eq!(store.addr_manager().count() as u64, limit);
        // phase-1 experiments: some entries are not connectable (never connected, 3 tries, long ago)
        let dead_n = if x % 8 >= 4 { 1 + rng.below(40) } else { 0 };
        let mut dead = vec![];
        for _ in 0..dead_n {
            let i = rng.below(limit);
            if dead.contains(&i) {
                continue;
            }
            let info = store.mut_addr_manager().get_mut(&addrs[i as usize]).unwrap();
            for _ in 0..3 {
                info.mark_tried(now * 1000);
            }
            dead.push(i);
        }
        now += 120;
        set_faketime(now * 1000);
        let newcomer = addr_of(limit + 7, 1);
        let res = store.add_addr(newcomer.clone(), Flags::COMPATIBILITY);
        let mut removed = vec![];
        for (i, m) in addrs.iter().enumerate() {
            if store.addr_manager().get(m).is_none() {
                removed.push(i as u64 + 1);
            }
        }
        dead.sort();
        let mut sizes: BTreeMap<u64, u64> = BTreeMap::new();
        for g in &grp_of {
            *sizes.entry(*g).or_default() += 1;
        }
        println!(
            "{}",
            json!({"ev": "Purge", "x": x, "limit": limit, "ret": if res.is_ok() {"ok"} else {"full"},
                "dead": dead.iter().map(|i| i + 1).collect::<Vec<_>>(), "removed": removed,
                "removedGroups": removed.iter().map(|i| grp_of[*i as usize - 1]).collect::<Vec<_>>(),
                "groups": sizes.iter().map(|(g, n)| json!({"g": g, "n": n})).collect::<Vec<_>>(),
                "added": store.addr_manager().get(&newcomer).is_some(), "count": store.addr_manager().count()})
        );
    }
}

fn main() {
    let args: Vec<String> = std::env::args().collect();
    let seed = util::opt_u64(&args, "--seed", 1);
    match args.get(1).map(|s| s.as_str()) {
        Some("drive") => {
            let hs = util::opt_u64(&args, "--histories", 8);
            let steps = util::opt_u64(&args, "--steps", 200);
            let first = util::opt_u64(&args, "--first", 0);
            for h in first..first + hs {
                history(seed, h, steps);
            }
        }
        Some("ctl") => ctl(seed, util::opt_u64(&args, "--histories", 3), util::opt_u64(&args, "--steps", 40)),
        Some("purge") => purge(seed, util::opt_u64(&args, "--experiments", 4)),
        _ => {
            eprintln!("usage: g_peernet drive|ctl|purge [--seed N] ...");
            std::process::exit(2);
        }
    }
}
