//! Growth item "Node" — binding of spec/Node.tla (the composition of ChainState, ProposalWindow, TxPool + Template and
//! MMR) to ONE real node.
//!
//! `g_node random --seed S --steps N --profile P --out <file>` runs one long random whole-node history and writes one
//! JSON document {universe, genesis, ngen, epochLen, events, summary}.  The node under test lives on a persistent
//! directory, has a block assembler and is driven through its public controllers only:
//!   * submissions (chains, joins, conflicting twins, cell deps, header deps), removals,
//!   * blocks sealed from its OWN template, blocks sealed from the template of a SECOND node (which receives part of
//!     the submissions and sometimes a conflicting twin only it knows), hand-assembled blocks,
//!   * competing branches assembled on throw-away builder nodes (empty, proposing / committing twins or pooled
//!     transactions) -> side blocks and reorganisations, directed reorganisations below a recently committed parent,
//!   * truncations (ChainController::truncate),
//!   * RESTARTS: the history is executed as a sequence of *lives*, each its own OS process on the same directory
//!     (`g_node life`): a life ends either after `TxPoolController::save_pool` (the pool file is reloaded by the next
//!     life) or abruptly; the next life re-opens the store, the proposal table, the snapshot and the pool.
//! After EVERY step - once the chain service is quiescent, the pool's snapshot is the chain tip and its verify queue
//! is empty - ONE event is recorded carrying all projections the existing bindings know how to take: the pool dump
//! (hook verif_dump, harness/src/poolfix.rs), the eleven store columns (harness/src/chainstate.rs), the published
//! proposal view, the chain root served below the tip, the block template.  spec/Trace_Node.tla validates it.
#[path = "../chainstate.rs"]
mod chainstate;
use chainstate::{project, raw_dump, u256_to_u64, Dict};
use ckb_merkle_mountain_range::util::MemStore;
use ckb_store::ChainStore;
use ckb_types::core::{BlockView, TransactionView};
use ckb_types::packed::{self, OutPoint};
use ckb_types::prelude::*;
use ckb_types::utilities::merkle_mountain_range::ChainRootMMR;
use ckbv::fixture::*;
use ckbv::poolfix::*;
use ckbv::util::{flag, opt, opt_u64, Rng, Scratch};
use serde_json::{json, Value};
use std::collections::HashSet;
use std::io::Write;

fn profile(p: u64) -> Scn {
    let mut s = Scn::default();
    s.mine = true;
    match p % 4 {
        0 => { s.window = (2, 4); s.epoch_len = 7; }
        1 => { s.window = (2, 3); s.rbf = false; s.epoch_len = 5; }
        2 => { s.window = (3, 5); s.max_anc = 6; s.epoch_len = 9; }
        _ => { s.window = (2, 4); s.max_anc = 25; s.rbf = false; s.epoch_len = 6; }
    }
    s
}

fn pick<T: Copy>(rng: &mut Rng, v: &[T]) -> Option<T> {
    if v.is_empty() { None } else { Some(v[rng.below(v.len() as u64) as usize]) }
}

fn hex(b: &[u8]) -> String {
    b.iter().map(|x| format!("{:02x}", x)).collect()
}
fn unhex(s: &str) -> Vec<u8> {
    (0..s.len() / 2).map(|i| u8::from_str_radix(&s[2 * i..2 * i + 2], 16).unwrap()).collect()
}

// ------------------------------------------------------------------------------------------------ the whole-node world

struct NW {
    w: World,
    rng: Rng,
    /// second node: assembler on, follows the main chain, receives part of the submissions
    miner: Option<Node>,
    ev: Vec<Value>,
    nonce: u64,
    twins: Vec<usize>,
    /// transactions only the second node was given
    miner_only: Vec<usize>,
    st: serde_json::Map<String, Value>,
    /// a removal happened that the assembler is not told about and no full template update since
    tpl_maybe_stale: bool,
    /// the pool was not told about a truncation: out of contract until the next restart
    desync: bool,
    dir: std::path::PathBuf,
}

fn numeric_block(name: &str) -> i64 {
    if name == "genesis" { 0 } else { name.trim_start_matches('b').parse::<i64>().unwrap_or(-9) }
}

impl NW {
    fn bump(&mut self, k: &str, n: u64) {
        let v = self.st.get(k).and_then(|x| x.as_u64()).unwrap_or(0);
        self.st.insert(k.to_string(), json!(v + n));
    }

    fn ngen(&self) -> usize {
        self.w.c.genesis_block().transactions().len()
    }

    fn dict(&self) -> Dict {
        let mut d = Dict::default();
        let g = self.w.c.genesis_block().clone();
        d.block_id.insert(g.hash(), 0);
        d.blocks.push(g.clone());
        for (i, b) in self.w.blocks.iter().enumerate() {
            d.block_id.insert(b.view.hash(), i + 1);
            d.blocks.push(b.view.clone());
        }
        for (i, t) in g.transactions().iter().enumerate() {
            d.tx_id.insert(t.hash(), i + 1);
        }
        let ngen = self.ngen();
        for (i, t) in self.w.txs.iter().enumerate() {
            d.tx_id.insert(t.view.hash(), ngen + i + 1);
        }
        d
    }

    /// ids (genesis first) of the chain ending in block id `b` by parent links of the dictionary
    fn chain_ids(&self, mut b: usize) -> Vec<usize> {
        let mut v = vec![];
        while b != 0 {
            v.push(b);
            b = self.w.blocks[b - 1].parent.map(|p| p + 1).unwrap_or(0);
        }
        v.push(0);
        v.reverse();
        v
    }

    fn header_of(&self, id: usize) -> ckb_types::core::HeaderView {
        if id == 0 { self.w.c.genesis_block().header() } else { self.w.blocks[id - 1].view.header() }
    }

    /// the chain root over the headers `ids` computed from scratch
    fn fresh_root(&self, ids: &[usize]) -> packed::HeaderDigest {
        let store = MemStore::default();
        let mut m = ChainRootMMR::new(0, &store);
        for id in ids {
            m.push(self.header_of(*id).digest()).expect("mem mmr push");
        }
        m.get_root().expect("mem mmr root")
    }

    /// Register a block with the world's dictionary (name b<k>, numeric id k) and record its Mint event.
    fn register(&mut self, b: &BlockView) -> usize {
        if let Some(&i) = self.w.blk_by_hash.get(&b.hash()) {
            return i + 1;
        }
        let w = &mut self.w;
        let parent = w.blk_by_hash.get(&b.parent_hash()).copied();
        let mut props: Vec<String> = b.union_proposal_ids().iter().filter_map(|id| w.tx_by_short.get(id).map(|&i| w.txs[i].name.clone())).collect();
        props.sort();
        let mut unknown = 0;
        let commits: Vec<String> = b.transactions().iter().skip(1).filter_map(|t| match w.tx_by_hash.get(&t.hash()) {
            Some(&i) => Some(w.txs[i].name.clone()),
            None => { unknown += 1; None }
        }).collect();
        let idx = w.blocks.len();
        let name = format!("b{}", idx + 1);
        w.blocks.push(BlkRec { name, view: b.clone(), parent, props: props.clone(), commits, unknown_commits: unknown });
        w.blk_by_hash.insert(b.hash(), idx);
        let id = idx + 1;
        let pid = parent.map(|p| p + 1).unwrap_or(0);
        let ngen = self.ngen();
        let cs: Vec<usize> = b.transactions().iter().skip(1).map(|t| self.w.tx_by_hash.get(&t.hash()).map(|&i| ngen + i + 1).unwrap_or(0)).collect();
        let us: Vec<i64> = b.uncles().into_iter().map(|u| self.w.blk_by_hash.get(&u.hash()).map(|&i| i as i64 + 1).unwrap_or(-9)).collect();
        // which chain the extension commits to
        let anc = self.chain_ids(pid);
        let expect = self.fresh_root(&anc).calc_mmr_hash();
        let root: Vec<i64> = match b.extension() {
            Some(e) if e.raw_data().len() >= 32 && e.raw_data()[..32] == expect.as_slice()[..] => anc.iter().map(|x| *x as i64).collect(),
            _ => vec![-9],
        };
        self.ev.push(json!({"ev": "Mint", "b": id, "p": pid, "num": b.number(), "cs": cs, "us": us, "cbo": b.transactions()[0].outputs().len(),
            "ok": true, "work": u256_to_u64(&b.difficulty()), "props": props, "root": root}));
        self.bump("blocks", 1);
        if !us.is_empty() { self.bump("uncles", us.len() as u64); }
        id
    }

    // ------------------------------------------------------------------ observation
    fn template(&self) -> Option<(u64, u64, Vec<String>, Vec<String>)> {
        let t = self.w.node.shared.get_block_template(None, None, None).ok().and_then(|r| r.ok())?;
        let work_id: u64 = t.work_id.into();
        let number: u64 = t.number.into();
        let block: packed::Block = t.into();
        let blk = block.as_advanced_builder().build();
        let txs: Vec<String> = blk.transactions().iter().skip(1).map(|t| self.w.tx_name(&t.hash())).collect();
        let mut props: Vec<String> = blk.data().proposals().into_iter().map(|id| self.w.tx_by_short.get(&id).map(|&i| self.w.txs[i].name.clone()).unwrap_or("?".into())).collect();
        props.sort();
        Some((work_id, number - 1, props, txs))
    }

    /// The template is a lagging observer of the pool (messages to the assembler task): wait until it names the tip
    /// and has stopped changing; after an operation the assembler IS told about, also until it reflects the pool.
    fn settled_template(&self, pool: &Value, notified: bool) -> Value {
        let tip = self.w.node.tip().0;
        let pg: HashSet<&String> = pool["st"].as_object().unwrap().iter().filter(|(_, s)| s.as_str() != Some("proposed")).map(|(k, _)| k).collect();
        let pr: HashSet<&String> = pool["st"].as_object().unwrap().iter().filter(|(_, s)| s.as_str() == Some("proposed")).map(|(k, _)| k).collect();
        let mut last: Option<(u64, u64, Vec<String>, Vec<String>)> = None;
        let mut same = 0;
        // an inconsistent template is waited for (up to 8 s: the assembler task may lag under load); the wait costs
        // nothing in the normal case and only delays the report when the template really is wrong
        for i in 0..5000 {
            let cur = self.template();
            if let Some(c) = &cur {
                let consistent = c.2.iter().all(|p| pg.contains(p)) && c.3.iter().all(|t| pr.contains(t));
                if cur == last { same += 1 } else { same = 0 }
                if c.1 == tip && same >= 2 && (consistent || !notified || self.tpl_maybe_stale || i > 4000) {
                    break;
                }
            }
            last = cur;
            std::thread::sleep(std::time::Duration::from_millis(2));
        }
        match last {
            Some((wid, parent, props, txs)) => json!({"parent": parent, "props": props, "txs": txs, "work_id": wid}),
            None => json!({"parent": -1, "props": [], "txs": [], "work_id": 0}),
        }
    }

    fn node_obs(&self, pool: &Value, notified: bool) -> Value {
        let d = self.dict();
        let snap = self.w.node.shared.snapshot();
        let obs = project(&raw_dump(self.w.node.shared.store()), &d);
        let pv = snap.proposals();
        let names = |ids: &HashSet<packed::ProposalShortId>| -> Vec<String> {
            let mut v: Vec<String> = ids.iter().map(|id| self.w.tx_by_short.get(id).map(|&i| self.w.txs[i].name.clone()).unwrap_or("?".into())).collect();
            v.sort();
            v
        };
        let tip_id = d.bid(&snap.tip_hash());
        let croot: Vec<i64> = if snap.tip_number() == 0 || tip_id < 0 { vec![] } else {
            let served = snap.chain_root_mmr(snap.tip_number() - 1).get_root();
            let mut anc = self.chain_ids(tip_id as usize);
            anc.pop();
            match served {
                Ok(r) if r.as_slice() == self.fresh_root(&anc).as_slice() => anc.iter().map(|x| *x as i64).collect(),
                _ => vec![-9],
            }
        };
        let tpl = if self.desync { json!({"parent": -1, "props": [], "txs": [], "work_id": 0}) } else { self.settled_template(pool, notified) };
        json!({"obs": obs, "pv": {"set": names(pv.set()), "gap": names(pv.gap())}, "croot": croot, "tpl": tpl, "snaptip": tip_id, "desync": self.desync})
    }

    /// Turn the pool events the world recorded since `n0` into node events (`kind` renames the last one).
    fn absorb(&mut self, n0: usize, kind: Option<&str>, extra: Value, notified: bool) {
        let evs: Vec<Value> = self.w.events[n0..].to_vec();
        let n = evs.len();
        for (i, mut e) in evs.into_iter().enumerate() {
            let is_last = i + 1 == n;
            if let Some(a) = e.get_mut("attach").and_then(|a| a.as_array_mut()) {
                for b in a.iter_mut() {
                    b["id"] = json!(numeric_block(b["id"].as_str().unwrap_or("?")));
                }
            }
            if let Some(a) = e.get_mut("ehdr").and_then(|a| a.as_array_mut()) {
                for p in a.iter_mut() {
                    p[1] = json!(numeric_block(p[1].as_str().unwrap_or("?")));
                }
            }
            e["ptip"] = json!(numeric_block(e["ptip"].as_str().unwrap_or("?")));
            if is_last {
                if let Some(k) = kind {
                    if e["ev"] == "Reorg" || e["ev"] == "Idle" {
                        e["ev"] = json!(k);
                    }
                }
                if let (Some(m), Some(x)) = (e.as_object_mut(), extra.as_object()) {
                    for (k, v) in x {
                        m.insert(k.clone(), v.clone());
                    }
                }
            }
            if e["ev"] == "Reorg" {
                // a change of the main chain nobody delivered a block for does not happen
                e["ev"] = json!("Block");
            }
            let full = e.get("detach").is_some() && (e["detach"].as_u64().unwrap_or(0) > 0 || e["attach"].as_array().map(|a| !a.is_empty()).unwrap_or(false));
            if full || e["ev"] == "Restart" {
                self.tpl_maybe_stale = false;
            }
            let o = self.node_obs(&e, notified || full);
            if let (Some(m), Some(x)) = (e.as_object_mut(), o.as_object()) {
                for (k, v) in x {
                    m.insert(k.clone(), v.clone());
                }
            }
            self.ev.push(e);
        }
        self.w.events.truncate(n0);
    }

    // ------------------------------------------------------------------ steps
    fn submit(&mut self, t: usize) -> bool {
        let n0 = self.w.events.len();
        let before: HashSet<String> = self.w.pool_names.iter().cloned().collect();
        let ok = self.w.submit(t).is_ok();
        let after: HashSet<String> = self.w.pool_names.iter().cloned().collect();
        if before.difference(&after).next().is_some() {
            self.tpl_maybe_stale = true; // a replacement / eviction: the assembler hears only about the new entry's stage
        }
        self.absorb(n0, None, json!({}), ok);
        if ok {
            self.bump("accepted", 1);
            if let Some(m) = &self.miner {
                if self.rng.chance(3, 4) {
                    let _ = m.shared.tx_pool_controller().submit_local_tx(self.w.txs[t].view.clone());
                }
            }
        } else {
            self.bump("rejected", 1);
        }
        ok
    }

    fn remove(&mut self, t: usize) {
        let n0 = self.w.events.len();
        if self.w.remove(t) {
            self.tpl_maybe_stale = true;
            self.bump("removed", 1);
        }
        self.absorb(n0, None, json!({}), false);
    }

    /// Deliver one block to the node under test; one `Block` event once chain and pool have settled.
    fn deliver(&mut self, b: &BlockView) -> Result<(usize, usize), String> {
        stage(&format!("deliver block {}", b.number()));
        let id = self.register(b);
        let before = self.w.node.tip().1;
        let r = self.w.node.process(b);
        let res = match &r { Ok(true) => "ok", Ok(false) => "dup", Err(_) => "err" };
        if let Err(e) = &r {
            return Err(format!("block b{} rejected: {}", id, e));
        }
        let n0 = self.w.events.len();
        let (d, a) = self.w.sync_chain(vec![])?;
        if self.w.events.len() == n0 && !self.w.stopped {
            self.w.emit("Idle", json!({"detach": 0, "attach": [], "expirable": []}));
        }
        let changed = self.w.node.tip().1 != before;
        self.absorb(n0, Some("Block"), json!({"b": id, "res": res}), changed);
        if d > 0 {
            self.bump("reorgs", 1);
            self.bump("detached_blocks", d as u64);
            let md = self.st.get("max_reorg_depth").and_then(|x| x.as_u64()).unwrap_or(0);
            self.st.insert("max_reorg_depth".into(), json!(md.max(d as u64)));
        } else if !changed {
            self.bump("side_blocks", 1);
        }
        if changed {
            if let Some(m) = &self.miner {
                // the second node follows: feed it whatever it lacks of the new main chain
                for &i in &self.w.chain {
                    let v = &self.w.blocks[i].view;
                    if !m.shared.snapshot().is_main_chain(&v.hash()) {
                        let _ = m.process(v);
                    }
                }
            }
        }
        Ok((d, a))
    }

    fn mine_own(&mut self) -> Result<(), String> {
        let b = self.w.node.mine(0);
        let txs = b.transactions().len() - 1;
        self.deliver(&b)?;
        self.bump("own_templates_mined", 1);
        self.bump("own_template_commits", txs as u64);
        Ok(())
    }

    fn mine_second(&mut self) -> Result<(), String> {
        let Some(m) = &self.miner else { return self.mine_own() };
        if m.tip().1 != self.w.node.tip().1 {
            return self.mine_own();
        }
        m.wait_pool_synced();
        let b = m.mine(3);
        if b.parent_hash() != self.w.node.tip().1 {
            return self.mine_own();
        }
        let txs = b.transactions().len() - 1;
        self.deliver(&b)?;
        self.bump("second_node_templates_mined", 1);
        self.bump("second_node_template_commits", txs as u64);
        Ok(())
    }

    fn attach(&mut self, props: &[usize], commits: &[usize]) -> Result<(), String> {
        self.nonce += 1;
        let spec = BlockSpec {
            commits: commits.iter().map(|&t| self.w.txs[t].view.clone()).collect(),
            proposals: props.iter().map(|&t| self.w.txs[t].view.proposal_short_id()).collect(),
            nonce: self.nonce,
            ..Default::default()
        };
        let b = assemble(&self.w.node, &spec)?;
        self.deliver(&b).map(|_| ())
    }

    /// A competing branch forking `depth` blocks below the tip, block i carrying contents[i] = (proposals, commits).
    fn branch(&mut self, depth: usize, contents: &[(Vec<usize>, Vec<usize>)]) -> Result<(usize, usize), String> {
        let keep = self.w.chain.len() - depth.min(self.w.chain.len());
        let anc: Vec<BlockView> = self.w.chain[..keep].iter().map(|&i| self.w.blocks[i].view.clone()).collect();
        stage("branch: builder node");
        let tmp_before = tmp_listing();
        let m = builder_node(&self.w.c, &anc);
        let mut side = vec![];
        self.nonce += 100;
        for (k, (props, commits)) in contents.iter().enumerate() {
            let spec = BlockSpec {
                commits: commits.iter().map(|&t| self.w.txs[t].view.clone()).collect(),
                proposals: props.iter().map(|&t| self.w.txs[t].view.proposal_short_id()).collect(),
                nonce: self.nonce + k as u64,
                ..Default::default()
            };
            let b = match assemble(&m, &spec) {
                Ok(b) => b,
                Err(_) => assemble(&m, &BlockSpec { nonce: self.nonce + k as u64, ..Default::default() })?,
            };
            if m.process(&b).is_err() {
                let e = assemble(&m, &BlockSpec { nonce: self.nonce + 50 + k as u64, ..Default::default() })?;
                m.process(&e).map_err(|e| format!("builder rejects empty block: {e}"))?;
                side.push(e);
            } else {
                if !commits.is_empty() { self.bump("side_blocks_with_commits", 1); }
                side.push(b);
            }
        }
        stage("branch: drop builder");
        if drop_bounded(m) {
            tmp_sweep(&tmp_before);
        }
        let mut tot = (0, 0);
        for b in &side {
            let (d, a) = self.deliver(b)?;
            tot.0 += d;
            tot.1 += a;
            if self.w.stopped {
                break;
            }
        }
        Ok(tot)
    }

    /// ChainController::truncate (a test-only API): the chain service rolls the store back and deletes the blocks but
    /// does NOT notify the pool, whose snapshot stays on the deleted tip until the next block.  From here to the next
    /// restart the pool side of the history is outside any contract (`desync`): the events are recorded, the python
    /// side compares the chain side only, and blocks are hand-assembled (the assembler's template names a deleted parent).
    fn truncate(&mut self, back: usize) -> Result<(), String> {
        let n = self.w.chain.len();
        if back == 0 || back > n {
            return Ok(());
        }
        let target_id = if back == n { 0 } else { self.w.chain[n - back - 1] + 1 };
        let h = if target_id == 0 { self.w.c.genesis_hash() } else { self.w.blocks[target_id - 1].view.hash() };
        stage(&format!("truncate to {}", target_id));
        self.w.node.truncate_to(&h)?;
        self.desync = true;
        self.w.chain.truncate(n - back);
        let n0 = self.w.events.len();
        self.w.emit("Idle", json!({"detach": back, "attach": [], "expirable": []}));
        self.absorb(n0, Some("Truncate"), json!({"b": target_id}), false);
        self.bump("truncations", 1);
        self.bump("truncated_blocks", back as u64);
        if let Some(m) = self.miner.take() {
            // the second node is not needed before the next life
            let before = tmp_listing();
            if drop_bounded(m) {
                let _ = before;
            }
        }
        Ok(())
    }
}

// ------------------------------------------------------------------------------------------------ state across lives

fn save_state(nw: &NW, done: bool, restart: Option<&str>) -> Value {
    let w = &nw.w;
    json!({
        "done": done, "restart": restart, "rng": nw.rng.0, "nonce": nw.nonce, "salt": w.salt, "twins": nw.twins, "miner_only": nw.miner_only,
        "outs": w.outs.iter().map(|o| json!({"op": hex(o.op.as_slice()), "cap": o.cap, "name": [o.name.0, o.name.1], "creator": o.creator, "lv": o.lock_variant, "members": o.members})).collect::<Vec<_>>(),
        "txs": w.txs.iter().map(|t| json!({"name": t.name, "view": hex(t.view.data().as_slice()), "ins": t.ins, "deps": t.deps, "gdeps": t.gdeps, "hdeps": t.hdeps, "outs": t.outs,
            "fee": t.fee, "size": t.size, "cycles": t.cycles})).collect::<Vec<_>>(),
        "blocks": w.blocks.iter().map(|b| json!({"name": b.name, "view": hex(b.view.data().as_slice()), "parent": b.parent, "props": b.props, "commits": b.commits,
            "unknown": b.unknown_commits})).collect::<Vec<_>>(),
        "chain": w.chain, "pool_names": w.pool_names, "stopped": w.stopped, "stop_reason": w.stop_reason,
        "events": nw.ev, "stats": Value::Object(nw.st.clone()),
    })
}

fn load_world(scn: &Scn, node: Node, s: Option<&Value>) -> World {
    // World::new starts its own (temp-db) node; the node under test on the persistent directory takes its place.
    // (Built this way rather than by a struct literal so that fields other bindings add to World do not matter.)
    let before = tmp_listing();
    let mut w = World::new(scn, "");
    let temp = std::mem::replace(&mut w.node, node);
    if drop_bounded(temp) {
        tmp_sweep(&before);
    }
    w.events.clear();
    let Some(s) = s else { return w };
    w.salt = s["salt"].as_u64().unwrap();
    let us = |v: &Value| -> Vec<usize> { v.as_array().unwrap().iter().map(|x| x.as_u64().unwrap() as usize).collect() };
    let ss = |v: &Value| -> Vec<String> { v.as_array().unwrap().iter().map(|x| x.as_str().unwrap().to_string()).collect() };
    w.outs = s["outs"].as_array().unwrap().iter().map(|o| OutRec {
        op: OutPoint::from_slice(&unhex(o["op"].as_str().unwrap())).unwrap(), cap: o["cap"].as_u64().unwrap(),
        name: (o["name"][0].as_str().unwrap().to_string(), o["name"][1].as_u64().unwrap() as u32),
        creator: o["creator"].as_u64().map(|x| x as usize), lock_variant: o["lv"].as_u64().unwrap() as u8, members: o.get("members").map(&us).unwrap_or_default() }).collect();
    for t in s["txs"].as_array().unwrap() {
        let view: TransactionView = packed::Transaction::from_slice(&unhex(t["view"].as_str().unwrap())).unwrap().into_view();
        let idx = w.txs.len();
        w.tx_by_hash.insert(view.hash(), idx);
        w.tx_by_short.insert(view.proposal_short_id(), idx);
        w.txs.push(TxRec { name: t["name"].as_str().unwrap().to_string(), view, ins: us(&t["ins"]), deps: us(&t["deps"]), gdeps: t.get("gdeps").map(&us).unwrap_or_default(), hdeps: us(&t["hdeps"]), outs: us(&t["outs"]),
            fee: t["fee"].as_u64().unwrap(), size: t["size"].as_u64().unwrap(), cycles: t["cycles"].as_u64().unwrap() });
    }
    for b in s["blocks"].as_array().unwrap() {
        let view = packed::Block::from_compatible_slice(&unhex(b["view"].as_str().unwrap())).unwrap().into_view_without_reset_header();
        w.blk_by_hash.insert(view.hash(), w.blocks.len());
        w.blocks.push(BlkRec { name: b["name"].as_str().unwrap().to_string(), view, parent: b["parent"].as_u64().map(|x| x as usize), props: ss(&b["props"]),
            commits: ss(&b["commits"]), unknown_commits: b["unknown"].as_u64().unwrap() as usize });
    }
    w.chain = us(&s["chain"]);
    w
}

fn random_tx(w: &mut World, rng: &mut Rng) -> Option<usize> {
    let spendable = w.spendable();
    let all: Vec<usize> = (0..w.outs.len()).collect();
    let k = if rng.chance(4, 5) { 1 } else { 2 };
    let mut ins = vec![];
    for _ in 0..k {
        let o = if rng.chance(5, 6) { pick(rng, &spendable) } else { pick(rng, &all) };
        if let Some(o) = o {
            if !ins.contains(&o) {
                ins.push(o);
            }
        }
    }
    if ins.is_empty() {
        return None;
    }
    let mut deps = vec![];
    if rng.chance(1, 7) {
        if let Some(o) = pick(rng, &spendable) {
            if !ins.contains(&o) {
                deps.push(o);
            }
        }
    }
    let mut hdeps = vec![];
    if rng.chance(1, 8) && !w.chain.is_empty() {
        let n = w.chain.len();
        let lo = n.saturating_sub(3);
        hdeps.push(w.chain[lo + rng.below((n - lo) as u64) as usize]);
    }
    let n_out = rng.range(1, 3) as usize;
    let fee = rng.range(700, 9_000);
    w.new_tx(&ins, &deps, &hdeps, n_out, fee, rng)
}

fn twin_of(w: &mut World, t: usize, rng: &mut Rng) -> Option<usize> {
    let ins = w.txs[t].ins.clone();
    let fee = w.txs[t].fee + rng.range(20_000, 60_000);
    w.new_tx(&ins, &[], &[], 1, fee, rng)
}

/// One step of the history. Ok(Some(kind)) = the life ends here with a restart of that kind.
fn step(nw: &mut NW, allow_restart: bool) -> Result<Option<&'static str>, String> {
    let r = nw.rng.below(100);
    let close = nw.w.scn.window.0 as usize;
    if r < 36 {
        if let Some(t) = random_tx(&mut nw.w, &mut nw.rng) {
            if nw.submit(t) && nw.rng.chance(1, 3) {
                if let Some(x) = twin_of(&mut nw.w, t, &mut nw.rng) {
                    nw.twins.push(x);
                    // now and then only the second node hears of the twin: its template proposes / commits a conflict
                    if nw.rng.chance(1, 3) {
                        if let Some(m) = &nw.miner {
                            if m.shared.tx_pool_controller().submit_local_tx(nw.w.txs[x].view.clone()).map(|r| r.is_ok()).unwrap_or(false) {
                                nw.miner_only.push(x);
                                nw.bump("twins_known_to_second_node_only", 1);
                            }
                        }
                    }
                }
            }
        }
    } else if r < 40 {
        let pooled = nw.w.pooled();
        let cands: Vec<usize> = (0..nw.w.txs.len()).filter(|i| !pooled.contains(i)).collect();
        if let Some(t) = pick(&mut nw.rng, &cands) {
            nw.submit(t);
        }
    } else if r < 43 {
        let pooled = nw.w.pooled();
        if let Some(t) = pick(&mut nw.rng, &pooled) {
            nw.remove(t);
        }
    } else if r < 70 {
        let k = nw.rng.below(10);
        if k < 5 {
            nw.mine_own()?;
        } else if k < 8 {
            nw.mine_second()?;
        } else {
            let pooled = nw.w.pooled();
            let mut props = vec![];
            for _ in 0..nw.rng.range(0, 3) {
                if let Some(t) = pick(&mut nw.rng, &pooled) {
                    if !props.contains(&t) {
                        props.push(t);
                    }
                }
            }
            let _ = nw.attach(&props, &[]);
        }
    } else if r < 78 && !nw.w.chain.is_empty() {
        // directed: a transaction committed within the last three blocks gets a pooled child; the blocks down to its
        // commitment are replaced by a branch that commits a conflicting twin of it, or nothing
        let n = nw.w.chain.len();
        let mut cands = vec![];
        for back in 1..=3.min(n) {
            let bi = nw.w.chain[n - back];
            for name in nw.w.blocks[bi].commits.clone() {
                if let Some(t) = nw.w.txs.iter().position(|x| x.name == name) {
                    cands.push((back, t));
                }
            }
        }
        if let Some((back, t)) = pick(&mut nw.rng, &cands) {
            let out0 = nw.w.txs[t].outs[0];
            let fee = nw.rng.range(800, 5000);
            if let Some(child) = nw.w.new_tx(&[out0], &[], &[], 1, fee, &mut nw.rng) {
                nw.submit(child);
            }
            let len = (back + 1).max(close + 1);
            let mut contents: Vec<(Vec<usize>, Vec<usize>)> = vec![(vec![], vec![]); len];
            if nw.rng.chance(1, 2) {
                if let Some(x) = twin_of(&mut nw.w, t, &mut nw.rng) {
                    contents[0].0 = vec![x];
                    contents[close].1 = vec![x];
                }
            }
            let (d, _) = nw.branch(back, &contents)?;
            if d > 0 { nw.bump("directed_reorgs", 1); }
        }
    } else if r < 90 && !nw.w.chain.is_empty() {
        let maxd = 4.min(nw.w.chain.len() as u64);
        let depth = nw.rng.range(1, maxd) as usize;
        let len = (depth + nw.rng.range(0, 2) as usize).max(if nw.rng.chance(1, 2) { close + 1 } else { 1 });
        let mut contents: Vec<(Vec<usize>, Vec<usize>)> = vec![(vec![], vec![]); len];
        let kind = nw.rng.below(4);
        if kind >= 1 && !nw.w.txs.is_empty() {
            let mut chosen = vec![];
            for _ in 0..nw.rng.range(1, 3) {
                let c = if kind == 1 && !nw.twins.is_empty() { pick(&mut nw.rng, &nw.twins.clone()) } else if kind == 2 { pick(&mut nw.rng, &nw.w.pooled()) } else { Some(nw.rng.below(nw.w.txs.len() as u64) as usize) };
                if let Some(c) = c {
                    if !chosen.contains(&c) {
                        chosen.push(c);
                    }
                }
            }
            chosen.sort();
            let at = nw.rng.below((len - close.min(len - 1)) as u64) as usize;
            contents[at].0 = chosen.clone();
            if at + close < len {
                contents[at + close].1 = chosen;
            }
        }
        nw.branch(depth, &contents)?;
    } else if r < 95 && nw.w.chain.len() >= 2 {
        let back = nw.rng.range(1, 3.min(nw.w.chain.len() as u64 - 1)) as usize;
        nw.truncate(back)?;
    } else if allow_restart {
        return Ok(Some(if nw.rng.chance(2, 3) { "saved" } else { "killed" }));
    }
    Ok(None)
}

fn life(args: &[String]) {
    let dir = std::path::PathBuf::from(opt(args, "--dir").expect("--dir"));
    let seed = opt_u64(args, "--seed", 1);
    let steps = opt_u64(args, "--steps", 100);
    let scn = profile(opt_u64(args, "--profile", seed));
    let with_second = !flag(args, "--no-second");
    let state_path = dir.join("state.json");
    let prev: Option<Value> = std::fs::read_to_string(&state_path).ok().map(|t| serde_json::from_str(&t).expect("state json"));
    let c = consensus(&params_of(&scn));
    stage("start node under test");
    let node = Node::start(&NodeCfg { assembler: true, tx_pool: Some(pool_config(&scn)), ..NodeCfg::at(&c, &dir.join("node")) });
    let w = load_world(&scn, node, prev.as_ref());
    let mut nw = NW { w, rng: Rng::new(seed), miner: None, ev: vec![], nonce: 100, twins: vec![], miner_only: vec![], st: serde_json::Map::new(),
                      tpl_maybe_stale: false, desync: false, dir: dir.clone() };
    let _ = &nw.dir;
    let mut done_steps = 0u64;
    if let Some(p) = &prev {
        nw.rng = Rng(p["rng"].as_u64().unwrap());
        nw.nonce = p["nonce"].as_u64().unwrap();
        nw.twins = p["twins"].as_array().unwrap().iter().map(|x| x.as_u64().unwrap() as usize).collect();
        nw.ev = p["events"].as_array().unwrap().clone();
        nw.st = p["stats"].as_object().unwrap().clone();
        done_steps = nw.st.get("steps_done").and_then(|x| x.as_u64()).unwrap_or(0);
    } else {
        nw.ev.push(json!({"ev": "Reset", "conf": nw.w.conf_json(), "w0": u256_to_u64(&c.genesis_block().difficulty()), "epochLen": scn.epoch_len}));
    }
    if with_second {
        stage("start second node");
        let m = Node::start(&NodeCfg { assembler: true, tx_pool: Some(pool_config(&scn)), ..NodeCfg::temp(&c) });
        for &i in &nw.w.chain {
            let _ = m.process(&nw.w.blocks[i].view);
        }
        nw.miner = Some(m);
    }
    let mut err: Option<String> = None;
    if let Some(p) = &prev {
        // the first event of a life: what the restarted node reports
        let kind = p["restart"].as_str().unwrap_or("killed").to_string();
        if !nw.w.node.wait_pool_synced() {
            err = Some("pool of the restarted node does not follow the store's tip".into());
        }
        // the store's main chain must be the one the previous life left (the dictionary's chain)
        let tip = nw.w.node.tip().1;
        let expect = nw.w.chain.last().map(|&i| nw.w.blocks[i].view.hash()).unwrap_or(c.genesis_hash());
        nw.w.pool_names = vec![];
        let n0 = nw.w.events.len();
        nw.w.emit("Restart", json!({"kind": kind, "tip_kept": tip == expect}));
        nw.absorb(n0, None, json!({}), true);
        nw.bump(if kind == "saved" { "restarts_after_save_pool" } else { "restarts_after_kill" }, 1);
        if let Some(e) = nw.ev.last() {
            nw.bump("entries_reloaded_after_restart", e["st"].as_object().map(|m| m.len()).unwrap_or(0) as u64);
        }
        if tip != expect {
            err = Some("the restarted node's tip is not the tip the previous life left".into());
        }
    } else {
        let n0 = nw.w.events.len();
        nw.w.emit("Idle", json!({}));
        nw.absorb(n0, None, json!({}), true);
    }
    let mut restart: Option<&'static str> = None;
    let max_lives_restart = opt_u64(args, "--restarts", 3);
    let restarts_so_far = nw.st.get("restarts_after_save_pool").and_then(|x| x.as_u64()).unwrap_or(0) + nw.st.get("restarts_after_kill").and_then(|x| x.as_u64()).unwrap_or(0);
    while err.is_none() && done_steps < steps && !nw.w.stopped {
        done_steps += 1;
        nw.st.insert("steps_done".into(), json!(done_steps));
        // planned restarts at 1/3 and 2/3 of the history, random ones besides
        let planned = restarts_so_far < max_lives_restart && (done_steps == steps / 3 || done_steps == 2 * steps / 3);
        if planned {
            restart = Some(if restarts_so_far % 2 == 0 { "saved" } else { "killed" });
            break;
        }
        if nw.desync {
            // after a truncation: a few hand-assembled blocks on the truncated chain, then the restart that puts the
            // pool back under its contract
            if nw.rng.chance(1, 2) || restarts_so_far >= max_lives_restart + 2 {
                restart = Some(if nw.rng.chance(1, 2) { "saved" } else { "killed" });
                break;
            }
            let known: Vec<usize> = (0..nw.w.txs.len()).collect();
            let mut props = vec![];
            if let Some(t) = pick(&mut nw.rng, &known) {
                props.push(t);
            }
            if let Err(e) = nw.attach(&props, &[]) {
                err = Some(e);
            }
            continue;
        }
        match step(&mut nw, restarts_so_far < max_lives_restart && done_steps > 6) {
            Ok(Some(k)) => { restart = Some(k); break; }
            Ok(None) => {}
            Err(e) => err = Some(e),
        }
    }
    let done = restart.is_none();
    if restart == Some("saved") {
        stage("save_pool");
        if let Err(e) = nw.w.ctl().save_pool() {
            err = Some(format!("save_pool: {e}"));
        }
    }
    if let Some(e) = &err {
        nw.st.insert("error".into(), json!(e));
    }
    let mut state = save_state(&nw, done || err.is_some(), restart);
    if done || err.is_some() {
        state["universe"] = nw.w.universe_json();
        let ngen = nw.ngen();
        for (i, t) in nw.w.txs.iter().enumerate() {
            state["universe"][&t.name]["no"] = json!(ngen + i + 1);
            state["universe"][&t.name]["nouts"] = json!(t.outs.len());
            state["universe"][&t.name]["hdeps"] = json!(t.hdeps.iter().map(|&b| b + 1).collect::<Vec<_>>());
        }
        state["genesis"] = json!(nw.w.outs.iter().filter(|o| o.creator.is_none()).map(|o| json!([o.name.0, o.name.1])).collect::<Vec<_>>());
        state["ngen"] = json!(ngen);
    }
    let tmp = dir.join("state.json.tmp");
    std::fs::write(&tmp, serde_json::to_vec(&state).unwrap()).expect("write state");
    std::fs::rename(&tmp, &state_path).expect("rename state");
    println!("{}", json!({"life": {"done": done, "restart": restart, "steps_done": done_steps, "events": nw.ev.len(), "error": err}}));
    std::io::stdout().flush().ok();
    std::process::exit(0);
}

fn random(args: &[String]) {
    let seed = opt_u64(args, "--seed", 1);
    let out_path = opt(args, "--out").unwrap_or("/dev/null").to_string();
    let dir = Scratch::new("gnode");
    let exe = std::env::current_exe().expect("current exe");
    let mut lives = 0;
    let mut fail: Option<String> = None;
    loop {
        lives += 1;
        let mut cmd = std::process::Command::new(&exe);
        cmd.arg("life").arg("--dir").arg(dir.path());
        for a in args {
            cmd.arg(a);
        }
        let o = cmd.output().expect("spawn life");
        let text = String::from_utf8_lossy(&o.stdout).to_string();
        if !o.status.success() {
            fail = Some(format!("life {} ended with {:?}: {} {}", lives, o.status.code(), text.chars().rev().take(300).collect::<String>().chars().rev().collect::<String>(),
                String::from_utf8_lossy(&o.stderr).chars().rev().take(600).collect::<String>().chars().rev().collect::<String>()));
            break;
        }
        let st: Value = serde_json::from_str(&std::fs::read_to_string(dir.path().join("state.json")).unwrap_or("{}".into())).unwrap_or(json!({}));
        if st["done"].as_bool().unwrap_or(true) || lives > 12 {
            break;
        }
    }
    let st: Value = serde_json::from_str(&std::fs::read_to_string(dir.path().join("state.json")).unwrap_or("{}".into())).unwrap_or(json!({}));
    let scn = profile(opt_u64(args, "--profile", seed));
    let mut summary = st["stats"].clone();
    if !summary.is_object() { summary = json!({}); }
    summary["seed"] = json!(seed);
    summary["profile"] = json!(opt_u64(args, "--profile", seed) % 4);
    summary["steps"] = json!(opt_u64(args, "--steps", 100));
    summary["lives"] = json!(lives);
    summary["events"] = json!(st["events"].as_array().map(|a| a.len()).unwrap_or(0));
    summary["txs"] = json!(st["txs"].as_array().map(|a| a.len()).unwrap_or(0));
    summary["stopped"] = st["stop_reason"].clone();
    if let Some(f) = fail { summary["error"] = json!(f); }
    if summary.get("error").is_none() { summary["error"] = Value::Null; }
    let doc = json!({"universe": st["universe"], "genesis": st["genesis"], "ngen": st["ngen"], "epochLen": scn.epoch_len, "events": st["events"],
        "stopped": st["stop_reason"], "summary": summary});
    let mut out = std::io::BufWriter::new(std::fs::File::create(&out_path).unwrap());
    writeln!(out, "{}", doc).unwrap();
    out.flush().unwrap();
    println!("{}", json!({"summary": doc["summary"]}));
}

fn main() {
    let args: Vec<String> = std::env::args().collect();
    let rest = &args[2.min(args.len())..];
    match args.get(1).map(|s| s.as_str()) {
        Some("random") => random(rest),
        Some("life") => {
            let ft = ckb_systemtime::faketime();
            ft.set_faketime(GENESIS_TS + 1000 * BLOCK_INTERVAL_MS);
            std::mem::forget(ft);
            watchdog(240);
            life(rest)
        }
        _ => {
            eprintln!("usage: g_node random --seed S --steps N --profile P --out F");
            std::process::exit(2);
        }
    }
}
