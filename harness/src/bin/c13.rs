//! C13 — every block template handed to miners would be accepted by the node itself.  The C12 histories (below) run on a
//! node with a block assembler; at many moments (after an operation, and right after a block was handed to the chain
//! service, before the pool caught up) `get_block_template` is called, the template is sealed as it is, and a JUDGE node
//! synchronised exactly to the template's parent verifies it (HeaderVerifier + chain service).  Every template becomes a
//! `Template` event (content in abstract names, sizes, judge verdict) validated by Trace_TxPool.tla!TemplateValid.
//!
//! `c12 random --seed S --steps N --profile P --out <file>`: submissions (chains, conflicting pairs, cell deps, header
//!   deps), own templates / hand-assembled blocks, and many reorgs through side branches built on throw-away builder
//!   nodes: empty branches, branches that propose and commit transactions (also ones conflicting with the pool or with
//!   the abandoned branch), branches forking below a header-dep target, proposals entering / leaving the window exactly
//!   at its edges; a second thread submits transactions while the side branch is being delivered (the pool processes the
//!   reorg notification asynchronously).  No expiry (faketime never advances past the expiry).
//!   After every operation - for blocks: after `quiesce` + `wait_pool_synced` - the pool is dumped; the history is
//!   validated by Trace_TxPool.tla with the C12 invariants.
use ckbv::fixture::*;
use ckbv::poolfix::*;
use ckbv::poolhist::reorg_history;
use ckbv::util::opt;
use serde_json::json;
use std::io::Write;

fn main() {
    let args: Vec<String> = std::env::args().collect();
    let rest = &args[2.min(args.len())..];
    let ft = ckb_systemtime::faketime();
    ft.set_faketime(GENESIS_TS + 1000 * BLOCK_INTERVAL_MS);
    watchdog(180);
    let out_path = opt(rest, "--out").unwrap_or("/dev/null").to_string();
    let mut out = std::io::BufWriter::new(std::fs::File::create(&out_path).unwrap());
    match args.get(1).map(|s| s.as_str()) {
        Some("random") => {
            let doc = reorg_history(rest, true);
            writeln!(out, "{}", doc).unwrap();
            println!("{}", json!({"summary": doc["summary"]}));
        }
        _ => {
            eprintln!("usage: c13 random ...");
            std::process::exit(2);
        }
    }
    out.flush().unwrap();
    drop(out);
    std::process::exit(0);
}
