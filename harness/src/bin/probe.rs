#![allow(dead_code, unused_imports, unused_variables, clippy::all)]
use ckb_app_config::{BlockAssemblerConfig, NetworkConfig, TxPoolConfig};
use ckb_chain::ChainServiceScope;
use ckb_chain_spec::consensus::{Consensus, ConsensusBuilder, build_genesis_epoch_ext};
use ckb_dao_utils::genesis_dao_data;
use ckb_jsonrpc_types::ScriptHashType;
use ckb_network::{Flags, NetworkController, NetworkService, NetworkState, network::TransportType};
use ckb_shared::{Shared, SharedBuilder};
use ckb_store::ChainStore;
use ckb_test_chain_utils::{always_success_cell, create_always_success_tx};
use ckb_types::prelude::*;
use ckb_types::{
    bytes::Bytes,
    core::{BlockBuilder, BlockView, Capacity, EpochNumberWithFraction, TransactionBuilder, TransactionView, capacity_bytes, DepType},
    h256,
    packed::{self, CellDep, CellInput, CellOutput, OutPoint, Block},
    utilities::DIFF_TWO,
};
use std::sync::Arc;

fn consensus(epoch_len: u64) -> Consensus {
    let (_, _, always_success_script) = always_success_cell();
    let tx = create_always_success_tx();
    let dao = genesis_dao_data(vec![&tx]).unwrap();
    let transactions: Vec<TransactionView> = (0..10u64)
        .map(|i| {
            let data = Bytes::from(i.to_le_bytes().to_vec());
            TransactionBuilder::default()
                .input(CellInput::new(OutPoint::null(), 0))
                .output(CellOutput::new_builder().capacity(capacity_bytes!(50_000)).lock(always_success_script.clone()).build())
                .output_data(data)
                .build()
        })
        .collect();
    let genesis_block = BlockBuilder::default()
        .dao(dao).compact_target(DIFF_TWO).timestamp(1_000_000u64)
        .transaction(tx).transactions(transactions).build();
    let epoch_ext = build_genesis_epoch_ext(capacity_bytes!(1_000_000), DIFF_TWO, epoch_len, 8 * epoch_len, (1, 40));
    ConsensusBuilder::new(genesis_block, epoch_ext)
        .cellbase_maturity(EpochNumberWithFraction::new(0, 0, 1))
        .epoch_duration_target(8 * epoch_len)
        .permanent_difficulty_in_dummy(true)
        .build()
}

fn dummy_network(shared: &Shared) -> NetworkController {
    let tmp_dir = tempfile::Builder::new().tempdir().unwrap();
    let config = NetworkConfig { max_peers: 19, max_outbound_peers: 5, path: tmp_dir.path().to_path_buf(), ping_interval_secs: 15, ping_timeout_secs: 20, connect_outbound_interval_secs: 1, discovery_local_address: true, bootnode_mode: true, reuse_port_on_linux: true, ..Default::default() };
    let network_state = Arc::new(NetworkState::from_config(config).expect("Init network state failed"));
    NetworkService::new(network_state, vec![], vec![], (shared.consensus().identify_name(), "test".to_string(), Flags::COMPATIBILITY), TransportType::Tcp)
        .start(shared.async_handle()).expect("Start network service failed")
}

struct Node { chain: ChainServiceScope, shared: Shared }

fn start(c: Consensus) -> Node {
    let config = BlockAssemblerConfig { code_hash: h256!("0x0"), args: Default::default(), hash_type: ScriptHashType::Data, message: Default::default(), use_binary_version_as_message_prefix: false, binary_version: "TEST".to_string(), update_interval_millis: 0, notify: vec![], notify_scripts: vec![], notify_timeout_millis: 800 };
    let (shared, mut pack) = SharedBuilder::with_temp_db().consensus(c).tx_pool_config(TxPoolConfig::default()).block_assembler_config(Some(config)).build().unwrap();
    let network = dummy_network(&shared);
    pack.take_tx_pool_builder().start(network);
    let chain = ChainServiceScope::new(pack.take_chain_services_builder());
    while chain.chain_controller().is_verifying_unverified_blocks_on_startup() { std::thread::sleep(std::time::Duration::from_millis(10)); }
    Node { chain, shared }
}

impl Node {
    fn mine(&self, ts_bump: u64) -> BlockView {
        // wait for template to follow tip
        let tip = self.shared.snapshot().tip_hash();
        let mut n = 0;
        loop {
            let t = self.shared.get_block_template(None, None, None).unwrap().unwrap();
            let ph: packed::Byte32 = t.parent_hash.clone().into();
            if ph == tip || n > 200 { 
                let block: Block = t.into();
                let b = block.as_advanced_builder();
                let ts = self.shared.snapshot().tip_header().timestamp() + 8000 + ts_bump;
                return b.timestamp(ts).build();
            }
            n += 1;
            std::thread::sleep(std::time::Duration::from_millis(10));
        }
    }
    fn process(&self, b: &BlockView) -> String {
        format!("{:?}", self.chain.chain_controller().blocking_process_block(Arc::new(b.clone())).map_err(|e| e.to_string()))
    }
    fn tip(&self) -> (u64, String) { let s = self.shared.snapshot(); (s.tip_number(), format!("{:x}", s.tip_hash())[..8].to_string()) }
}


fn start_persistent(c: Consensus, root: &std::path::Path, asm: bool) -> Node {
    let config = BlockAssemblerConfig { code_hash: h256!("0x0"), args: Default::default(), hash_type: ScriptHashType::Data, message: Default::default(), use_binary_version_as_message_prefix: false, binary_version: "TEST".to_string(), update_interval_millis: 0, notify: vec![], notify_scripts: vec![], notify_timeout_millis: 800 };
    let mut dbc = ckb_app_config::DBConfig::default();
    dbc.path = root.join("db");
    let mut sc = ckb_app_config::StoreConfig::default();
    sc.freezer_enable = std::env::var("NOFREEZER").is_err();
    let handle = ckb_async_runtime::new_background_runtime();
    let (shared, mut pack) = SharedBuilder::new("ckb", root, &dbc, Some(root.join("ancient")), handle, c).unwrap()
        .store_config(sc).tx_pool_config(TxPoolConfig::default()).block_assembler_config(if asm {Some(config)} else {None}).build().unwrap();
    let network = dummy_network(&shared);
    pack.take_tx_pool_builder().start(network);
    let chain = ChainServiceScope::new(pack.take_chain_services_builder());
    while chain.chain_controller().is_verifying_unverified_blocks_on_startup() { std::thread::sleep(std::time::Duration::from_millis(10)); }
    Node { chain, shared }
}

fn answers(n: &Node, num: u64) -> String {
    let st = n.shared.store();
    let h = st.get_block_hash(num).unwrap();
    let r = |f: &dyn Fn() -> String| -> String { match std::panic::catch_unwind(std::panic::AssertUnwindSafe(|| f())) { Ok(s) => s, Err(_) => "PANIC".to_string() } };
    format!("blk#{} ext={} packed={} uncles={} cellbase={} body_len={} proposals={} txhashes={} get_block_txs={}",
        num,
        r(&|| format!("{:?}", st.get_block_extension(&h).map(|e| e.len()))),
        r(&|| format!("{:?}", st.get_packed_block(&h).map(|b| b.transactions().len()))),
        r(&|| format!("{:?}", st.get_block_uncles(&h).map(|u| u.data().len()))),
        r(&|| format!("{:?}", st.get_cellbase(&h).is_some())),
        r(&|| format!("{}", st.get_block_body(&h).len())),
        r(&|| format!("{:?}", st.get_block_proposal_txs_ids(&h).map(|p| p.len()))),
        r(&|| format!("{}", st.get_block_txs_hashes(&h).len())),
        r(&|| format!("{:?}", st.get_block(&h).map(|b| b.transactions().len()))),
    )
}

fn freezer_probe(phase: &str) {
    let _ft = ckb_systemtime::faketime();
    let root = std::path::PathBuf::from("/tmp/probe/fznode");
    let c = consensus(4);
    if phase == "1" {
        let _ = std::fs::remove_dir_all(&root);
        std::fs::create_dir_all(root.join("ancient")).unwrap();
        _ft.set_faketime(1_000_000 + 8000);
        let n = start_persistent(c, &root, true);
        let m = start(consensus(4));
        let mut side: Option<BlockView> = None;
        for i in 0..18 { let b = n.mine(0); let r = n.process(&b); if i < 2 { m.process(&b); } if i == 2 { let s3 = m.mine(3); m.process(&s3); side = Some(s3); } if b.number() % 6 == 0 { println!("mined {} {} ext={}", b.number(), r, b.extension().is_some()); } }
        let s3 = side.unwrap();
        println!("side s3 #{} process on N: {}", s3.number(), n.process(&s3));
        let main3 = n.shared.store().get_block_hash(3).unwrap();
        println!("BEFORE get_block(s3)={:?} main3={:x} s3={:x}", n.shared.store().get_block(&s3.hash()).map(|b| format!("{:x}", b.hash())), main3, s3.hash());
        let tip_ts = n.shared.snapshot().tip_header().timestamp();
        _ft.set_faketime(tip_ts + 1000);
        println!("tip={:?} epoch={} ibd={}", n.tip(), n.shared.snapshot().epoch_ext().number(), n.shared.is_initial_block_download());
        println!("BEFORE  {}", answers(&n, 2));
        let _close = n.shared.spawn_freeze();
        std::thread::sleep(std::time::Duration::from_secs(64));
        println!("freezer.number={:?}", n.shared.store().freezer().map(|f| f.number()));
        println!("AFTER(warm caches) {}", answers(&n, 2));
        println!("AFTER(warm caches) {}", answers(&n, 5));
        println!("AFTER get_block(s3)={:?} header(s3)={:?} main3={:x}", n.shared.store().get_block(&s3.hash()).map(|b| format!("{:x} txs={}", b.hash(), b.transactions().len())), n.shared.store().get_block_header(&s3.hash()).map(|h| h.number()), main3);
        std::process::exit(0);
    } else {
        _ft.set_faketime(1_000_000 + 8000 * 40);
        let n = start_persistent(c, &root, false);
        println!("reopened tip={:?} freezer.number={:?}", n.tip(), n.shared.store().freezer().map(|f| f.number()));
        println!("AFTER RESTART(cold) {}", answers(&n, 2));
        println!("AFTER RESTART(cold) unfrozen {}", answers(&n, 15));
        std::process::exit(0);
    }
}

fn script_probe() {
    use ckb_script::{TransactionScriptsVerifier, TxVerifyEnv, VerifyResult};
    use ckb_store::data_loader_wrapper::AsDataLoader;
    use ckb_types::core::cell::{CellMetaBuilder, ResolvedTransaction};
    use ckb_types::core::{HeaderView, ScriptHashType};
    let (cell, data, script) = always_success_cell();
    let tmp = tempfile::tempdir().unwrap();
    let db = ckb_db::RocksDB::open_in(&tmp, ckb_db_schema::COLUMNS);
    let store = Arc::new(ckb_store::ChainDB::new(db, Default::default()));
    let dep_out = OutPoint::new(h256!("0x1").into(), 0);
    let dep_meta = CellMetaBuilder::from_cell_output(cell.clone(), data.clone()).out_point(dep_out.clone()).build();
    let _ = ScriptHashType::Data;
    let input_out = OutPoint::new(h256!("0x2").into(), 0);
    let input_cell = CellOutput::new_builder().capacity(capacity_bytes!(100)).lock(script.clone()).build();
    let input_meta = CellMetaBuilder::from_cell_output(input_cell, Bytes::new()).out_point(input_out.clone()).build();
    let tx = TransactionBuilder::default().input(CellInput::new(input_out, 0)).cell_dep(CellDep::new_builder().out_point(dep_out).dep_type(DepType::Code).build()).build();
    let rtx = Arc::new(ResolvedTransaction { transaction: tx, resolved_cell_deps: vec![dep_meta], resolved_inputs: vec![input_meta], resolved_dep_groups: vec![] });
    let consensus = Arc::new(ConsensusBuilder::default().build());
    let header = HeaderView::new_advanced_builder().epoch(EpochNumberWithFraction::new(0,0,1)).build();
    let env = Arc::new(TxVerifyEnv::new_commit(&header));
    let v = TransactionScriptsVerifier::new(rtx, store.as_data_loader(), consensus, env);
    let full = v.verify(u64::MAX).unwrap();
    println!("uninterrupted cost = {}", full);
    println!("verify(cost-1) = {:?}", v.verify(full - 1).map_err(|e| e.to_string()));
    println!("verify(cost)   = {:?}", v.verify(full).map_err(|e| e.to_string()));
    let first = full * 6 / 10;
    match v.resumable_verify(first).unwrap() {
        VerifyResult::Suspended(state) => {
            println!("suspended: current={} current_cycles={} limit={} snapshot_total={:?}", state.current, state.current_cycles, state.limit_cycles, state.state.as_ref().map(|s| s.total_cycles));
            for max in [full * 5 / 10, full * 7 / 10, full - 1, full] {
                println!("complete(state, max={}) = {:?}", max, v.complete(&state, max).map_err(|e| e.to_string()));
            }
            for lim in [full - first - 1, full * 4 / 10 + 10, full] {
                println!("resume_from_state(state, limit={}) = {:?}", lim, v.resume_from_state(&state, lim).map(|r| match r { VerifyResult::Completed(c) => format!("Completed({})", c), VerifyResult::Suspended(s) => format!("Suspended(cur_cycles={}, snap_total={:?})", s.current_cycles, s.state.as_ref().map(|x| x.total_cycles)) }).map_err(|e| e.to_string()));
            }
        }
        VerifyResult::Completed(c) => println!("completed early {}", c),
    }
    std::process::exit(0);
}

fn reward_probe(first_proposer_height: u64) {
    let _ft = ckb_systemtime::faketime();
    _ft.set_faketime(1_000_000 + 1000 * 8000);
    let (_, _, always_success_script) = always_success_cell();
    let c = consensus(1000);
    let n = start(c.clone());
    let genesis = c.genesis_block();
    let tx0 = &genesis.transactions()[1];
    let dep = CellDep::new_builder().out_point(OutPoint::new(genesis.transactions()[0].hash(), 0)).dep_type(DepType::Code).build();
    let t = TransactionBuilder::default()
        .input(CellInput::new(OutPoint::new(tx0.hash(), 0), 0))
        .output(CellOutput::new_builder().capacity(capacity_bytes!(49_000)).lock(always_success_script.clone()).build())
        .output_data(Bytes::new()).cell_dep(dep).build();
    // mine empty blocks until the block before the desired proposer height
    for _ in 1..first_proposer_height { let b = n.mine(0); n.process(&b); }
    println!("submit: {:?}", n.shared.tx_pool_controller().submit_local_tx(t.clone()).unwrap().map_err(|e| e.to_string()));
    std::thread::sleep(std::time::Duration::from_millis(300));
    let mut proposer = 0; let mut committer = 0;
    for _ in 0..14 {
        let b = n.mine(0);
        if b.data().proposals().len() > 0 && proposer == 0 { proposer = b.number(); }
        if b.transactions().len() > 1 { committer = b.number(); }
        n.process(&b);
        std::thread::sleep(std::time::Duration::from_millis(150));
    }
    println!("T proposed in block {} committed in block {}", proposer, committer);
    let snap = n.shared.snapshot();
    let target = snap.get_block_header(&snap.get_block_hash(proposer).unwrap()).unwrap();
    let (_lock, reward) = ckb_reward_calculator::RewardCalculator::new(snap.consensus(), snap.as_ref()).block_reward_for_target(&target).unwrap();
    let fee = snap.get_block_ext(&snap.get_block_hash(committer).unwrap()).unwrap().txs_fees[0];
    println!("fee={} expected proposer share={} ; code proposal_reward for target block {} = {}", fee.as_u64(), fee.as_u64()*4/10, proposer, reward.proposal_reward.as_u64());
}

fn mmr_probe() {
    let _ft = ckb_systemtime::faketime();
    _ft.set_faketime(1_000_000 + 1000 * 8000);
    let c = consensus(4);
    let n = start(c.clone());
    let m = start(c.clone());
    let mut main = vec![];
    for _ in 0..9 { let b = n.mine(0); n.process(&b); main.push(b); }
    for b in &main[..2] { m.process(b); }
    let mut side = vec![];
    for _ in 0..5 { let b = m.mine(7); m.process(&b); side.push(b); }   // side: 3'..7' (shorter than main 9)
    for b in &side { println!("N side {} {}", b.number(), n.process(b)); }
    println!("N tip {:?} (still main)", n.tip());
    // make side heavier: extend to 10'
    for _ in 0..3 { let b = m.mine(7); m.process(&b); side.push(b.clone()); println!("N side {} {}", b.number(), n.process(&b)); }
    std::thread::sleep(std::time::Duration::from_millis(300));
    println!("N tip {:?} M tip {:?}", n.tip(), m.tip());
    let sn = n.shared.snapshot(); let sm = m.shared.snapshot();
    let mut ok = true;
    for h in 0..=sn.tip_number() {
        let rn = sn.chain_root_mmr(h).get_root().map(|r| format!("{:x}", r.calc_mmr_hash()));
        let rm = sm.chain_root_mmr(h).get_root().map(|r| format!("{:x}", r.calc_mmr_hash()));
        if format!("{:?}", rn) != format!("{:?}", rm) { ok = false; println!("MMR root mismatch at {}: {:?} vs {:?}", h, rn, rm); }
    }
    println!("mmr roots equal on all heights: {}", ok);
    // reorg back to the original main by extending it
    for b in &main[2..] { m.process(b); }
    let mut back = vec![];
    for _ in 0..2 { let b = n.mine(0); back.push(b); }
    std::process::exit(0);
}

fn live_cells_with_lock(n: &Node, lock: &packed::Script) -> Vec<String> {
    use ckb_db::{IteratorMode};
    let snap = n.shared.snapshot();
    let mut v = vec![];
    for (k, val) in snap.get_iter(ckb_db_schema::COLUMN_CELL, IteratorMode::Start) {
        let entry = packed::CellEntryReader::from_slice_should_be_ok(val.as_ref());
        if entry.output().lock().to_entity().as_slice() == lock.as_slice() {
            v.push(format!("{}", hex(&k)));
        }
    }
    v.sort(); v
}
fn hex(b: &[u8]) -> String { b.iter().map(|x| format!("{:02x}", x)).collect() }

fn indexer_cells(h: &ckb_indexer::IndexerHandle, lock: &packed::Script) -> Vec<String> {
    use ckb_jsonrpc_types::{IndexerSearchKey, IndexerScriptType, IndexerOrder};
    let mut out = vec![]; let mut cursor = None;
    loop {
        let key = IndexerSearchKey { script: lock.clone().into(), script_type: IndexerScriptType::Lock, script_search_mode: None, filter: None, with_data: None, group_by_transaction: None };
        let page = h.get_cells(key, IndexerOrder::Asc, 3u32.into(), cursor.clone()).unwrap();
        if page.objects.is_empty() { break; }
        for c in &page.objects { let op: packed::OutPoint = c.out_point.clone().into(); out.push(hex(&op.to_cell_key())); }
        cursor = Some(page.last_cursor);
    }
    out.sort(); out
}

fn wait_indexer(h: &ckb_indexer::IndexerHandle, n: &Node) -> bool {
    for _ in 0..100 {
        if let Ok(Some(t)) = h.get_indexer_tip() { let hh: packed::Byte32 = t.block_hash.clone().into(); if hh == n.shared.snapshot().tip_hash() { return true; } }
        std::thread::sleep(std::time::Duration::from_millis(100));
    }
    false
}

fn indexer_probe() {
    let _ft = ckb_systemtime::faketime();
    _ft.set_faketime(1_000_000 + 1000 * 8000);
    let root = std::path::PathBuf::from("/tmp/probe/idxnode");
    let _ = std::fs::remove_dir_all(&root);
    std::fs::create_dir_all(root.join("ancient")).unwrap();
    let (_, _, always_success_script) = always_success_cell();
    let c = consensus(1000);
    let n = start_persistent(c.clone(), &root, true);
    let m = start(c.clone());
    let mut dbc = ckb_app_config::DBConfig::default(); dbc.path = root.join("db");
    let mut icfg = ckb_app_config::IndexerConfig::default();
    icfg.store = root.join("indexer/store"); icfg.secondary_path = root.join("indexer/secondary"); icfg.poll_interval = 1;
    std::fs::create_dir_all(root.join("indexer")).unwrap();
    let handle = n.shared.async_handle().clone();
    let sdb = ckb_indexer_sync::new_secondary_db(&dbc, &(&icfg).into());
    let svc = ckb_indexer::IndexerService::new(sdb, ckb_indexer_sync::PoolService::new(false, handle.clone()), &icfg, handle);
    svc.spawn_poll(n.shared.notify_controller().clone());
    let h = svc.handle();

    let genesis = c.genesis_block();
    let dep = CellDep::new_builder().out_point(OutPoint::new(genesis.transactions()[0].hash(), 0)).dep_type(DepType::Code).build();
    let t1 = TransactionBuilder::default().input(CellInput::new(OutPoint::new(genesis.transactions()[1].hash(), 0), 0))
        .output(CellOutput::new_builder().capacity(capacity_bytes!(49_000)).lock(always_success_script.clone()).build()).output_data(Bytes::new()).cell_dep(dep.clone()).build();
    let t2 = TransactionBuilder::default().input(CellInput::new(OutPoint::new(t1.hash(), 0), 0))
        .output(CellOutput::new_builder().capacity(capacity_bytes!(24_000)).lock(always_success_script.clone()).build()).output_data(Bytes::new())
        .output(CellOutput::new_builder().capacity(capacity_bytes!(24_000)).lock(always_success_script.clone()).build()).output_data(Bytes::new()).cell_dep(dep.clone()).build();
    println!("submit t1 {:?}", n.shared.tx_pool_controller().submit_local_tx(t1.clone()).unwrap().map_err(|e| e.to_string()));
    std::thread::sleep(std::time::Duration::from_millis(200));
    let mut main = vec![];
    for i in 0..9 {
        if i == 3 { println!("submit t2 {:?}", n.shared.tx_pool_controller().submit_local_tx(t2.clone()).unwrap().map_err(|e| e.to_string())); std::thread::sleep(std::time::Duration::from_millis(200)); }
        let b = n.mine(0); println!("main {} txs={} props={} {}", b.number(), b.transactions().len(), b.data().proposals().len(), n.process(&b)); main.push(b);
        std::thread::sleep(std::time::Duration::from_millis(150));
    }
    let lock = always_success_script.clone();
    println!("indexer caught up: {}", wait_indexer(&h, &n));
    let (a, b) = (live_cells_with_lock(&n, &lock), indexer_cells(&h, &lock));
    println!("[main tip {}] store live cells={} indexer cells={} equal={}", n.tip().0, a.len(), b.len(), a == b);
    // reorg to an empty side chain forking at block 2
    for blk in &main[..2] { m.process(blk); }
    for _ in 0..8 { let blk = m.mine(5); m.process(&blk); n.process(&blk); }
    std::thread::sleep(std::time::Duration::from_millis(500));
    println!("after reorg N tip {:?}; indexer caught up: {}", n.tip(), wait_indexer(&h, &n));
    let (a, b) = (live_cells_with_lock(&n, &lock), indexer_cells(&h, &lock));
    println!("[reorg tip {}] store live cells={} indexer cells={} equal={}", n.tip().0, a.len(), b.len(), a == b);
    if a != b { println!("store-only: {:?}\nindexer-only: {:?}", a.iter().filter(|x| !b.contains(x)).collect::<Vec<_>>(), b.iter().filter(|x| !a.contains(x)).collect::<Vec<_>>()); }
    // mine on: t1/t2 get re-proposed and re-committed
    for _ in 0..8 { let blk = n.mine(0); n.process(&blk); std::thread::sleep(std::time::Duration::from_millis(150)); }
    println!("after recommit N tip {:?}; indexer caught up: {}", n.tip(), wait_indexer(&h, &n));
    let (a, b) = (live_cells_with_lock(&n, &lock), indexer_cells(&h, &lock));
    println!("[final tip {}] store live cells={} indexer cells={} equal={}", n.tip().0, a.len(), b.len(), a == b);
    std::process::exit(0);
}

fn pool_info(n: &Node, label: &str, txs: &[(&str, &TransactionView)]) {
    let info = n.shared.tx_pool_controller().get_all_entry_info().unwrap();
    let mut line = format!("{}: pending={} proposed={} |", label, info.pending.len(), info.proposed.len());
    for (name, tx) in txs {
        let st = n.shared.tx_pool_controller().get_tx_detail(tx.hash()).map(|d| format!("{}(anc={},desc={})", d.entry_status, d.ancestors_count, d.descendants_count)).unwrap_or("-".into());
        let e = info.pending.get(&tx.hash()).or(info.proposed.get(&tx.hash()));
        line += &format!(" {}:{} {}", name, st, e.map(|e| format!("[anc_count={} anc_size={} desc_size={}]", e.ancestors_count, e.ancestors_size, e.descendants_size)).unwrap_or_default());
    }
    println!("{}", line);
}

fn orphan_child_probe() {
    let _ft = ckb_systemtime::faketime();
    _ft.set_faketime(1_000_000 + 1000 * 8000);
    let (_, _, lock) = always_success_cell();
    let c = consensus(1000);
    let n = start(c.clone());
    let m = start(c.clone());
    let genesis = c.genesis_block();
    let dep = CellDep::new_builder().out_point(OutPoint::new(genesis.transactions()[0].hash(), 0)).dep_type(DepType::Code).build();
    let mk = |inp: OutPoint, cap: u64| TransactionBuilder::default().input(CellInput::new(inp, 0))
        .output(CellOutput::new_builder().capacity(Capacity::bytes(cap as usize).unwrap()).lock(lock.clone()).build()).output_data(Bytes::new()).cell_dep(dep.clone()).build();
    let g1 = OutPoint::new(genesis.transactions()[1].hash(), 0);
    let t1 = mk(g1.clone(), 49_000);
    let t1x = mk(g1.clone(), 48_000);            // conflicts with t1 (same input)
    let ch = mk(OutPoint::new(t1.hash(), 0), 47_000); // child of t1
    // main chain on N commits t1
    println!("submit t1 {:?}", n.shared.tx_pool_controller().submit_local_tx(t1.clone()).unwrap().map_err(|e| e.to_string()));
    std::thread::sleep(std::time::Duration::from_millis(200));
    let mut main = vec![];
    for _ in 0..4 { let b = n.mine(0); n.process(&b); main.push(b); std::thread::sleep(std::time::Duration::from_millis(150)); }
    println!("t1 committed on N: {}", n.shared.snapshot().get_transaction_info(&t1.hash()).map(|i| i.block_number).unwrap_or(0));
    println!("submit child {:?}", n.shared.tx_pool_controller().submit_local_tx(ch.clone()).unwrap().map_err(|e| e.to_string()));
    std::thread::sleep(std::time::Duration::from_millis(200));
    pool_info(&n, "N before reorg", &[("t1", &t1), ("child", &ch)]);
    // side chain on M: shares block 1, commits the conflicting t1x
    m.process(&main[0]);
    if std::env::args().nth(2).as_deref() != Some("noconflict") { println!("M submit t1x {:?}", m.shared.tx_pool_controller().submit_local_tx(t1x.clone()).unwrap().map_err(|e| e.to_string())); }
    std::thread::sleep(std::time::Duration::from_millis(200));
    let mut side = vec![];
    for _ in 0..6 { let b = m.mine(3); m.process(&b); side.push(b); std::thread::sleep(std::time::Duration::from_millis(150)); }
    println!("t1x committed on M: {}", m.shared.snapshot().get_transaction_info(&t1x.hash()).map(|i| i.block_number).unwrap_or(0));
    for b in &side { n.process(b); }
    std::thread::sleep(std::time::Duration::from_millis(800));
    println!("N tip {:?} t1 on chain: {:?} t1x on chain: {:?}", n.tip(), n.shared.snapshot().get_transaction_info(&t1.hash()).map(|i| i.block_number), n.shared.snapshot().get_transaction_info(&t1x.hash()).map(|i| i.block_number));
    pool_info(&n, "N after reorg", &[("t1", &t1), ("child", &ch)]);
    let b = n.mine(0); println!("next template: txs={} proposals={}", b.transactions().len(), b.data().proposals().len());
    std::process::exit(0);
}

fn view_str(n: &Node) -> String {
    let s = n.shared.snapshot();
    let mut set: Vec<String> = s.proposals().set().iter().map(|i| format!("{:?}", i)).collect(); set.sort();
    let mut gap: Vec<String> = s.proposals().gap().iter().map(|i| format!("{:?}", i)).collect(); gap.sort();
    format!("tip={} set={:?} gap={:?}", s.tip_number(), set, gap)
}

fn restart_probe(phase: &str) {
    let _ft = ckb_systemtime::faketime();
    _ft.set_faketime(1_000_000 + 1000 * 8000);
    let root = std::path::PathBuf::from("/tmp/probe/rsnode");
    let (_, _, lock) = always_success_cell();
    let c = consensus(1000);
    if phase == "1" {
        let _ = std::fs::remove_dir_all(&root);
        std::fs::create_dir_all(root.join("ancient")).unwrap();
        let n = start_persistent(c.clone(), &root, true);
        let m = start(c.clone());
        let genesis = c.genesis_block();
        let dep = CellDep::new_builder().out_point(OutPoint::new(genesis.transactions()[0].hash(), 0)).dep_type(DepType::Code).build();
        let mk = |i: usize, cap: u64| TransactionBuilder::default().input(CellInput::new(OutPoint::new(genesis.transactions()[i].hash(), 0), 0))
            .output(CellOutput::new_builder().capacity(Capacity::bytes(cap as usize).unwrap()).lock(lock.clone()).build()).output_data(Bytes::new()).cell_dep(dep.clone()).build();
        let mut main = vec![];
        for i in 0..9 {
            // a fresh tx every block so proposals are spread over heights; submit to N only
            let t = mk(1 + i, 49_000 - i as u64);
            let _ = n.shared.tx_pool_controller().submit_local_tx(t).unwrap();
            std::thread::sleep(std::time::Duration::from_millis(150));
            let b = n.mine(0); n.process(&b); main.push(b);
            std::thread::sleep(std::time::Duration::from_millis(150));
        }
        println!("A  {}", view_str(&n));
        // reorg: side chain forking at 6, three empty blocks longer
        for b in &main[..6] { m.process(b); }
        for _ in 0..5 { let b = m.mine(9); m.process(&b); n.process(&b); }
        std::thread::sleep(std::time::Duration::from_millis(500));
        println!("B  {}", view_str(&n));
        std::process::exit(0);
    } else {
        let n = start_persistent(c.clone(), &root, true);
        println!("B' {}", view_str(&n));
        std::process::exit(0);
    }
}

fn order_probe(perms: usize, seed: u64) {
    use rand::{SeedableRng, seq::SliceRandom, Rng};
    use std::sync::atomic::{AtomicUsize, Ordering};
    let _ft = ckb_systemtime::faketime();
    _ft.set_faketime(1_000_000 + 1000 * 8000);
    let c = consensus(1000);
    let a = start(c.clone()); let b = start(c.clone()); let cc = start(c.clone());
    let mut blocks: Vec<BlockView> = vec![];
    // A1..A6
    let mut amain = vec![]; for _ in 0..6 { let x = a.mine(0); a.process(&x); amain.push(x); }
    // B from A2: B3,B4,B5,B6(bad),B7,B8
    for x in &amain[..2] { b.process(x); cc.process(x); }
    let mut bb = vec![];
    for i in 0..6 {
        let mut x = b.mine(3);
        if i == 3 { x = x.as_advanced_builder().dao(packed::Byte32::zero()).build(); let _ = b.chain.chain_controller().blocking_process_block_with_switch(Arc::new(x.clone()), ckb_verification_traits::Switch::DISABLE_ALL); }
        else { b.process(&x); }
        bb.push(x);
    }
    // C from B4: C5..C9
    for x in &bb[..2] { cc.process(x); }
    let mut cs = vec![]; for _ in 0..5 { let x = cc.mine(5); cc.process(&x); cs.push(x); }
    blocks.extend(amain.iter().cloned()); blocks.extend(bb.iter().cloned()); blocks.extend(cs.iter().cloned());
    println!("tree: A6={:x} B8={:x} (B6 invalid) C9={:x}", amain[5].hash(), bb[5].hash(), cs[4].hash());
    let expect = cs[4].hash();
    let mut rng = rand::rngs::StdRng::seed_from_u64(seed);
    let mut bad = 0;
    for p in 0..perms {
        let mut order: Vec<usize> = (0..blocks.len()).collect();
        order.shuffle(&mut rng);
        // occasionally duplicate a delivery
        if rng.gen_bool(0.5) { let d = order[rng.gen_range(0..order.len())]; let pos = rng.gen_range(0..order.len()); order.insert(pos, d); }
        let n = start(c.clone());
        let done = Arc::new(AtomicUsize::new(0));
        let mut results = vec![];
        for &i in &order {
            let d = Arc::clone(&done);
            let (tx, rx) = std::sync::mpsc::channel::<String>();
            results.push((i, rx));
            n.chain.chain_controller().asynchronous_process_lonely_block(ckb_chain::LonelyBlock { block: Arc::new(blocks[i].clone()), switch: None,
                verify_callback: Some(Box::new(move |r: ckb_chain::VerifyResult| { d.fetch_add(1, Ordering::SeqCst); let _ = tx.send(format!("{:?}", r.map_err(|e| e.to_string().chars().take(40).collect::<String>()))); })) });
            if rng.gen_bool(0.3) { std::thread::sleep(std::time::Duration::from_millis(rng.gen_range(0..15))); }
        }
        // quiescence
        let mut waited = 0;
        loop {
            let outstanding = order.len() as i64 - done.load(Ordering::SeqCst) as i64 - n.chain.chain_controller().orphan_blocks_len() as i64;
            if outstanding <= 0 || waited > 400 { break; }
            std::thread::sleep(std::time::Duration::from_millis(10)); waited += 1;
        }
        std::thread::sleep(std::time::Duration::from_millis(50));
        let tip = n.shared.snapshot().tip_hash();
        let ok = tip == expect;
        if !ok { bad += 1; println!("perm {} order {:?} -> tip {:?} orphans={} done={}/{} waited={}", p, order, n.tip(), n.chain.chain_controller().orphan_blocks_len(), done.load(Ordering::SeqCst), order.len(), waited); }
    }
    println!("permutations={} mismatches={}", perms, bad);
    std::process::exit(0);
}

fn filter_check(n: &Node, label: &str) {
    use golomb_coded_set::{GCSFilterReader, SipHasher24Builder, M, P};
    let st = n.shared.store();
    let snap = n.shared.snapshot();
    let mut bad = 0; let mut missing = 0; let mut chainbad = 0;
    let mut parent_fh = packed::Byte32::zero();
    for h in 0..=snap.tip_number() {
        let bh = snap.get_block_hash(h).unwrap();
        let (f, fh) = match (st.get_block_filter(&bh), st.get_block_filter_hash(&bh)) { (Some(f), Some(fh)) => (f, fh), _ => { missing += 1; continue; } };
        let expect_fh: packed::Byte32 = ckb_types::utilities::calc_filter_hash(&parent_fh, &f).into();
        if expect_fh != fh { chainbad += 1; }
        parent_fh = fh;
        let block = st.get_block(&bh).unwrap();
        let reader = GCSFilterReader::new(SipHasher24Builder::new(0, 0), M, P);
        let mut hashes: Vec<packed::Byte32> = vec![];
        for tx in block.transactions() {
            for o in tx.outputs() { hashes.push(o.calc_lock_hash()); if let Some(t) = o.type_().to_opt() { hashes.push(t.calc_script_hash()); } }
            if !tx.is_cellbase() { for inp in tx.input_pts_iter() { if let Some((ptx, _)) = st.get_transaction(&inp.tx_hash()) { if let Some(o) = ptx.outputs().get(inp.index().into()) { hashes.push(o.calc_lock_hash()); } } } }
        }
        for hsh in hashes {
            let raw = f.raw_data();
            let ok = reader.match_all(&mut std::io::Cursor::new(raw.to_vec()), &mut std::iter::once(hsh.as_slice())).unwrap_or(false);
            if !ok { bad += 1; }
        }
    }
    println!("{}: tip={} missing_filters={} unmatched_script_hashes={} broken_hash_links={}", label, snap.tip_number(), missing, bad, chainbad);
}

fn filter_probe() {
    let _ft = ckb_systemtime::faketime();
    _ft.set_faketime(1_000_000 + 1000 * 8000);
    let (_, _, lock) = always_success_cell();
    let c = consensus(1000);
    let n = start(c.clone()); let m = start(c.clone());
    ckb_block_filter::filter::BlockFilter::new(n.shared.clone()).start();
    let genesis = c.genesis_block();
    let dep = CellDep::new_builder().out_point(OutPoint::new(genesis.transactions()[0].hash(), 0)).dep_type(DepType::Code).build();
    let t1 = TransactionBuilder::default().input(CellInput::new(OutPoint::new(genesis.transactions()[1].hash(), 0), 0))
        .output(CellOutput::new_builder().capacity(capacity_bytes!(49_000)).lock(lock.clone().as_builder().args(Bytes::from(vec![7u8])).build()).build()).output_data(Bytes::new()).cell_dep(dep.clone()).build();
    let _ = n.shared.tx_pool_controller().submit_local_tx(t1.clone()).unwrap();
    std::thread::sleep(std::time::Duration::from_millis(200));
    let mut main = vec![];
    for _ in 0..8 { let b = n.mine(0); n.process(&b); main.push(b); std::thread::sleep(std::time::Duration::from_millis(120)); }
    std::thread::sleep(std::time::Duration::from_millis(500));
    filter_check(&n, "main");
    for b in &main[..2] { m.process(b); }
    for _ in 0..8 { let b = m.mine(5); m.process(&b); n.process(&b); }
    std::thread::sleep(std::time::Duration::from_millis(800));
    filter_check(&n, "after reorg");
    for _ in 0..6 { let b = n.mine(0); n.process(&b); std::thread::sleep(std::time::Duration::from_millis(120)); }
    std::thread::sleep(std::time::Duration::from_millis(800));
    filter_check(&n, "after recommit");
    std::process::exit(0);
}

fn write_blocks(path: &std::path::Path, blocks: &[BlockView]) {
    use std::io::Write;
    let mut f = std::fs::File::create(path).unwrap();
    for b in blocks { let d = b.data(); let raw = d.as_slice(); f.write_all(&(raw.len() as u32).to_le_bytes()).unwrap(); f.write_all(raw).unwrap(); }
}
fn read_blocks(path: &std::path::Path) -> Vec<BlockView> {
    let raw = std::fs::read(path).unwrap(); let mut i = 0; let mut v = vec![];
    while i < raw.len() { let l = u32::from_le_bytes(raw[i..i+4].try_into().unwrap()) as usize; i += 4; v.push(packed::Block::from_compatible_slice(&raw[i..i+l]).unwrap().into_view()); i += l; }
    v
}
fn deliver_all(n: &Node, blocks: &[BlockView]) {
    use std::sync::atomic::{AtomicUsize, Ordering};
    let done = Arc::new(AtomicUsize::new(0));
    for b in blocks {
        let d = Arc::clone(&done);
        n.chain.chain_controller().asynchronous_process_lonely_block(ckb_chain::LonelyBlock { block: Arc::new(b.clone()), switch: None, verify_callback: Some(Box::new(move |_r| { d.fetch_add(1, Ordering::SeqCst); })) });
    }
    for _ in 0..600 { if blocks.len() as i64 - done.load(Ordering::SeqCst) as i64 - n.chain.chain_controller().orphan_blocks_len() as i64 <= 0 { break; } std::thread::sleep(std::time::Duration::from_millis(10)); }
    std::thread::sleep(std::time::Duration::from_millis(50));
}

fn crash_child(dir: &str, file: &str) {
    let _ft = ckb_systemtime::faketime();
    _ft.set_faketime(1_000_000 + 1000 * 8000);
    let n = start_persistent(consensus(1000), std::path::Path::new(dir), false);
    let blocks = read_blocks(std::path::Path::new(file));
    println!("CHILD-READY");
    for b in &blocks { let _ = n.chain.chain_controller().asynchronous_process_lonely_block(ckb_chain::LonelyBlock { block: Arc::new(b.clone()), switch: None, verify_callback: None }); std::thread::sleep(std::time::Duration::from_millis(3)); }
    std::thread::sleep(std::time::Duration::from_secs(5));
    std::process::exit(0);
}

fn crash_probe(rounds: usize, seed: u64) {
    use rand::{SeedableRng, Rng, seq::SliceRandom};
    let _ft = ckb_systemtime::faketime();
    _ft.set_faketime(1_000_000 + 1000 * 8000);
    let c = consensus(1000);
    let a = start(c.clone()); let b = start(c.clone());
    let mut am = vec![]; for _ in 0..10 { let x = a.mine(0); a.process(&x); am.push(x); }
    for x in &am[..4] { b.process(x); }
    let mut bm = vec![];
    for i in 0..9 { let mut x = b.mine(3); if i == 7 { x = x.as_advanced_builder().dao(packed::Byte32::zero()).build(); bm.push(x); break; } b.process(&x); bm.push(x); }
    // A: 10 blocks; B: forks at 4, B5..B11 valid (7 blocks => height 11), B12 invalid
    let mut all: Vec<BlockView> = vec![]; all.extend(am.iter().cloned()); all.extend(bm.iter().cloned());
    let expect = bm[6].hash();
    let mut rng = rand::rngs::StdRng::seed_from_u64(seed);
    let file = std::path::PathBuf::from("/tmp/probe/crash_blocks.bin");
    let exe = std::env::current_exe().unwrap();
    let mut bad = 0;
    for r in 0..rounds {
        let dir = std::path::PathBuf::from(format!("/tmp/probe/crashnode{}", r));
        let _ = std::fs::remove_dir_all(&dir); std::fs::create_dir_all(dir.join("ancient")).unwrap();
        let mut order = all.clone(); order.shuffle(&mut rng);
        write_blocks(&file, &order);
        let mut child = std::process::Command::new(&exe).args(["crashchild", dir.to_str().unwrap(), file.to_str().unwrap()]).env("NOFREEZER", "1").stdout(std::process::Stdio::piped()).stderr(std::process::Stdio::null()).spawn().unwrap();
        // wait until ready
        { use std::io::{BufRead, BufReader}; let out = child.stdout.take().unwrap(); let mut rd = BufReader::new(out); let mut line = String::new(); loop { line.clear(); if rd.read_line(&mut line).unwrap() == 0 || line.contains("CHILD-READY") { break; } } }
        let kill_ms = rng.gen_range(0..120);
        std::thread::sleep(std::time::Duration::from_millis(kill_ms));
        let _ = child.kill(); let _ = child.wait();
        unsafe { std::env::set_var("NOFREEZER", "1"); }
        let res = std::panic::catch_unwind(std::panic::AssertUnwindSafe(|| {
            let n = start_persistent(c.clone(), &dir, false);
            let t0 = n.tip();
            let ext_ok = n.shared.store().get_block_ext(&n.shared.snapshot().tip_hash()).map(|e| e.verified == Some(true)).unwrap_or(false);
            deliver_all(&n, &all);
            let ok = n.shared.snapshot().tip_hash() == expect;
            (t0, ext_ok, ok, n.tip())
        }));
        match res { Ok((t0, ext_ok, ok, t1)) => { if !ok || !ext_ok { bad += 1; } println!("round {} kill@{}ms reopened tip={:?} tip_ext_verified={} final={:?} converged={}", r, kill_ms, t0, ext_ok, t1, ok); }
                    Err(_) => { bad += 1; println!("round {} kill@{}ms PANIC on reopen/recovery", r, kill_ms); } }
        let _ = std::fs::remove_dir_all(&dir);
    }
    println!("rounds={} bad={}", rounds, bad);
    std::process::exit(0);
}

// ---------- random pool stress: template validity (C13) + aggregates recomputation (C11) ----------
fn pool_stress(seed: u64, steps: usize) {
    use rand::{SeedableRng, Rng, seq::SliceRandom};
    use std::collections::{HashMap, HashSet};
    let _ft = ckb_systemtime::faketime();
    _ft.set_faketime(1_000_000 + 1000 * 8000);
    let (_, _, lock) = always_success_cell();
    let c = consensus(1000);
    let n = start(c.clone());
    let genesis = c.genesis_block();
    let dep = CellDep::new_builder().out_point(OutPoint::new(genesis.transactions()[0].hash(), 0)).dep_type(DepType::Code).build();
    let mut rng = rand::rngs::StdRng::seed_from_u64(seed);
    // utxo set we control: (outpoint, capacity in CKB)
    let mut free: Vec<(OutPoint, u64)> = (1..=10).map(|i| (OutPoint::new(genesis.transactions()[i].hash(), 0), 50_000u64)).collect();
    let mut all_txs: HashMap<packed::Byte32, TransactionView> = HashMap::new();
    let mut violations = 0;
    for step in 0..steps {
        let op = rng.gen_range(0..10);
        if op < 6 && !free.is_empty() {
            // build a tx with 1-2 inputs from `free` (may be outputs of pooled txs) and 1-3 outputs
            let k = rng.gen_range(1..=std::cmp::min(2, free.len()));
            free.shuffle(&mut rng);
            let ins: Vec<(OutPoint, u64)> = free.drain(..k).collect();
            let total: u64 = ins.iter().map(|x| x.1).sum();
            let nouts = rng.gen_range(1..=3u64);
            let fee = rng.gen_range(1..=20u64);
            if total <= fee + 200 * nouts { continue; }
            let each = (total - fee) / nouts;
            let mut b = TransactionBuilder::default().cell_dep(dep.clone());
            for (op_, _) in &ins { b = b.input(CellInput::new(op_.clone(), 0)); }
            for _ in 0..nouts { b = b.output(CellOutput::new_builder().capacity(Capacity::bytes(each as usize).unwrap()).lock(lock.clone()).build()).output_data(Bytes::new()); }
            let tx = b.build();
            let r = n.shared.tx_pool_controller().submit_local_tx(tx.clone()).unwrap();
            if r.is_ok() { for i in 0..nouts { free.push((OutPoint::new(tx.hash(), i as u32), each)); } all_txs.insert(tx.hash(), tx); }
            else { free.extend(ins); }
        } else if op < 8 {
            // mine a block from the template; it must be accepted by the node itself
            let b = n.mine(0);
            let r = n.process(&b);
            if !r.starts_with("Ok") { violations += 1; println!("step {} TEMPLATE REJECTED: {} txs={} props={}", step, r, b.transactions().len(), b.data().proposals().len()); }
            // parents-first order inside the block
            let pos: HashMap<packed::Byte32, usize> = b.transactions().iter().enumerate().map(|(i, t)| (t.hash(), i)).collect();
            for (i, t) in b.transactions().iter().enumerate().skip(1) { for inp in t.input_pts_iter() { if let Some(j) = pos.get(&inp.tx_hash()) { if *j >= i { violations += 1; println!("step {} template order violation", step); } } } }
            std::thread::sleep(std::time::Duration::from_millis(120));
        } else if op == 8 {
            // remove a random pooled tx (with descendants)
            let info = n.shared.tx_pool_controller().get_all_entry_info().unwrap();
            let keys: Vec<_> = info.pending.keys().chain(info.proposed.keys()).cloned().collect();
            if let Some(h) = keys.choose(&mut rng) { let _ = n.shared.tx_pool_controller().remove_local_tx(h.clone()); }
        }
        // ---- recompute aggregates from pool contents ----
        std::thread::sleep(std::time::Duration::from_millis(30));
        let info = n.shared.tx_pool_controller().get_all_entry_info().unwrap();
        let mut entries: HashMap<packed::Byte32, &ckb_types::core::tx_pool::TxEntryInfo> = HashMap::new();
        for (h, e) in info.pending.iter().chain(info.proposed.iter()) { entries.insert(h.clone(), e); }
        let pooled: HashSet<packed::Byte32> = entries.keys().cloned().collect();
        // drop free outputs whose creating tx is neither pooled nor committed
        let snap = n.shared.snapshot();
        free.retain(|(op_, _)| pooled.contains(&op_.tx_hash()) || snap.transaction_exists(&op_.tx_hash()));
        let parents = |h: &packed::Byte32| -> Vec<packed::Byte32> { all_txs.get(h).map(|t| t.input_pts_iter().map(|i| i.tx_hash()).filter(|p| pooled.contains(p)).collect()).unwrap_or_default() };
        for h in &pooled {
            // ancestors closure
            let mut anc: HashSet<packed::Byte32> = HashSet::new(); let mut st = parents(h);
            while let Some(p) = st.pop() { if anc.insert(p.clone()) { st.extend(parents(&p)); } }
            let mut desc: HashSet<packed::Byte32> = HashSet::new();
            loop { let before = desc.len(); for x in &pooled { if x != h && !desc.contains(x) && parents(x).iter().any(|p| p == h || desc.contains(p)) { desc.insert(x.clone()); } } if desc.len() == before { break; } }
            let e = entries[h];
            let exp_anc_count = anc.len() as u64 + 1;
            let exp_anc_size: u64 = e.size + anc.iter().map(|a| entries[a].size).sum::<u64>();
            let exp_anc_cycles: u64 = e.cycles + anc.iter().map(|a| entries[a].cycles).sum::<u64>();
            let exp_desc_size: u64 = e.size + desc.iter().map(|a| entries[a].size).sum::<u64>();
            let exp_desc_cycles: u64 = e.cycles + desc.iter().map(|a| entries[a].cycles).sum::<u64>();
            if e.ancestors_count != exp_anc_count || e.ancestors_size != exp_anc_size || e.ancestors_cycles != exp_anc_cycles || e.descendants_size != exp_desc_size || e.descendants_cycles != exp_desc_cycles {
                violations += 1;
                println!("step {} AGGREGATE MISMATCH tx {:x}: anc_count {} vs {} anc_size {} vs {} desc_size {} vs {} (pool={})", step, h, e.ancestors_count, exp_anc_count, e.ancestors_size, exp_anc_size, e.descendants_size, exp_desc_size, pooled.len());
                break;
            }
        }
        // double spends
        let mut seen: HashSet<OutPoint> = HashSet::new();
        for h in &pooled { if let Some(t) = all_txs.get(h) { for i in t.input_pts_iter() { if !seen.insert(i) { violations += 1; println!("step {} DOUBLE SPEND in pool", step); } } } }
    }
    let info = n.shared.tx_pool_controller().get_tx_pool_info().unwrap();
    println!("seed={} steps={} violations={} tip={} pending={} proposed={}", seed, steps, violations, n.tip().0, info.pending_size, info.proposed_size);
    std::process::exit(0);
}

fn remove_probe() {
    let _ft = ckb_systemtime::faketime();
    _ft.set_faketime(1_000_000 + 1000 * 8000);
    let (_, _, lock) = always_success_cell();
    let c = consensus(1000);
    let n = start(c.clone());
    let genesis = c.genesis_block();
    let dep = CellDep::new_builder().out_point(OutPoint::new(genesis.transactions()[0].hash(), 0)).dep_type(DepType::Code).build();
    let mk = |inp: OutPoint, cap: u64| TransactionBuilder::default().input(CellInput::new(inp, 0))
        .output(CellOutput::new_builder().capacity(Capacity::bytes(cap as usize).unwrap()).lock(lock.clone()).build()).output_data(Bytes::new()).cell_dep(dep.clone()).build();
    let a = mk(OutPoint::new(genesis.transactions()[1].hash(), 0), 49_000);
    let b = mk(OutPoint::new(a.hash(), 0), 48_000);
    let cc = mk(OutPoint::new(b.hash(), 0), 47_000);
    for t in [&a, &b, &cc] { println!("submit {:?}", n.shared.tx_pool_controller().submit_local_tx(t.clone()).unwrap().map_err(|e| e.to_string())); }
    std::thread::sleep(std::time::Duration::from_millis(200));
    pool_info(&n, "A<-B<-C pooled", &[("A", &a), ("B", &b), ("C", &cc)]);
    println!("remove C: {:?}", n.shared.tx_pool_controller().remove_local_tx(cc.hash()));
    pool_info(&n, "after remove C", &[("A", &a), ("B", &b), ("C", &cc)]);
    println!("remove B: {:?}", n.shared.tx_pool_controller().remove_local_tx(b.hash()));
    pool_info(&n, "after remove B", &[("A", &a), ("B", &b), ("C", &cc)]);
    std::process::exit(0);
}

// ---------- random reorg stress: stored state == replay of main chain (C02) ----------
fn replay_check(n: &Node, label: &str) -> usize {
    use std::collections::{HashSet, HashMap};
    use ckb_db::IteratorMode;
    let snap = n.shared.snapshot();
    let mut live: HashSet<Vec<u8>> = HashSet::new();
    let mut txinfo: HashMap<packed::Byte32, (u64, usize)> = HashMap::new();
    let mut bad = 0;
    for h in 0..=snap.tip_number() {
        let bh = match snap.get_block_hash(h) { Some(x) => x, None => { println!("{} missing index {}", label, h); return 1; } };
        if snap.get_block_number(&bh) != Some(h) { bad += 1; println!("{} hash->number mismatch at {}", label, h); }
        let b = snap.get_block(&bh).unwrap();
        if h > 0 && b.parent_hash() != snap.get_block_hash(h - 1).unwrap() { bad += 1; println!("{} index not a chain at {}", label, h); }
        for (i, tx) in b.transactions().iter().enumerate() {
            if i > 0 || h == 0 { if h > 0 || i > 0 { for inp in tx.input_pts_iter() { if !(h == 0) { if !live.remove(&inp.to_cell_key()) { bad += 1; println!("{} replay: input not live at block {} tx {}", label, h, i); } } } } }
            for (j, _) in tx.outputs().into_iter().enumerate() { live.insert(OutPoint::new(tx.hash(), j as u32).to_cell_key()); }
            txinfo.insert(tx.hash(), (h, i));
        }
    }
    // genesis inputs are null outpoints: nothing to remove
    let mut stored: HashSet<Vec<u8>> = HashSet::new();
    for (k, v) in snap.get_iter(ckb_db_schema::COLUMN_CELL, IteratorMode::Start) {
        stored.insert(k.to_vec());
        let e = packed::CellEntryReader::from_slice_should_be_ok(v.as_ref());
        let num: u64 = e.block_number().into();
        let bh = e.block_hash().to_entity();
        if snap.get_block_hash(num) != Some(bh) { bad += 1; println!("{} cell entry names a non-main-chain block", label); }
    }
    if stored != live { bad += 1; println!("{} LIVE CELL SET MISMATCH stored={} replay={} stored-only={} replay-only={}", label, stored.len(), live.len(), stored.difference(&live).count(), live.difference(&stored).count()); }
    let mut n_info = 0;
    for (k, v) in snap.get_iter(ckb_db_schema::COLUMN_TRANSACTION_INFO, IteratorMode::Start) {
        n_info += 1;
        let h = packed::Byte32::from_slice(&k).unwrap();
        let info = packed::TransactionInfoReader::from_slice_should_be_ok(v.as_ref());
        let num: u64 = info.block_number().into();
        let idx: usize = info.key().index().into();
        match txinfo.get(&h) { Some(&(eh, ei)) if eh == num && ei == idx => {}, _ => { bad += 1; println!("{} stale/wrong tx-info row", label); } }
    }
    if n_info != txinfo.len() { bad += 1; println!("{} tx-info count {} vs replay {}", label, n_info, txinfo.len()); }
    // MMR root vs fresh computation is covered elsewhere; tip/epoch
    let tip = snap.get_tip_header().unwrap();
    if Some(tip.hash()) != snap.get_block_hash(tip.number()) { bad += 1; println!("{} tip not indexed", label); }
    bad
}

fn reorg_stress(seed: u64, steps: usize) {
    use rand::{SeedableRng, Rng, seq::SliceRandom};
    let _ft = ckb_systemtime::faketime();
    _ft.set_faketime(1_000_000 + 1000 * 8000);
    let (_, _, lock) = always_success_cell();
    let c = consensus(1000);
    let x = start(c.clone()); let y = start(c.clone());
    let genesis = c.genesis_block();
    let dep = CellDep::new_builder().out_point(OutPoint::new(genesis.transactions()[0].hash(), 0)).dep_type(DepType::Code).build();
    let mut rng = rand::rngs::StdRng::seed_from_u64(seed);
    let mut outs: Vec<(OutPoint, u64)> = (1..=10).map(|i| (OutPoint::new(genesis.transactions()[i].hash(), 0), 50_000u64)).collect();
    let mut xblocks: Vec<BlockView> = vec![]; let mut yblocks: Vec<BlockView> = vec![];
    let mut bad = 0; let mut reorgs = 0;
    for step in 0..steps {
        let who = rng.gen_bool(0.5);
        let (node, mine_list) = if who { (&x, &mut xblocks) } else { (&y, &mut yblocks) };
        match rng.gen_range(0..10) {
            0..=4 => {
                // random tx spending a random known output (may be spent/unknown on this node: rejection is fine)
                if let Some((op_, cap)) = outs.choose(&mut rng).cloned() {
                    let nouts = rng.gen_range(1..=2u64); let fee = rng.gen_range(1..10u64);
                    if cap > fee + 200 * nouts {
                        let each = (cap - fee) / nouts;
                        let mut b = TransactionBuilder::default().cell_dep(dep.clone()).input(CellInput::new(op_, 0));
                        for _ in 0..nouts { b = b.output(CellOutput::new_builder().capacity(Capacity::bytes(each as usize).unwrap()).lock(lock.clone()).build()).output_data(Bytes::new()); }
                        let tx = b.build();
                        if node.shared.tx_pool_controller().submit_local_tx(tx.clone()).unwrap().is_ok() { for i in 0..nouts { outs.push((OutPoint::new(tx.hash(), i as u32), each)); } }
                    }
                }
            }
            5..=7 => { let b = node.mine(if who { 1 } else { 2 }); let r = node.process(&b); if !r.starts_with("Ok") { bad += 1; println!("step {} own template rejected {}", step, r); } mine_list.push(b); std::thread::sleep(std::time::Duration::from_millis(100)); }
            _ => {
                // sync: deliver the other node's blocks (all of them, in order) => may reorg
                let (from, to) = if who { (&yblocks, &x) } else { (&xblocks, &y) };
                let before = to.shared.snapshot().tip_hash();
                for b in from.iter() { let _ = to.process(b); }
                std::thread::sleep(std::time::Duration::from_millis(150));
                let after = to.shared.snapshot().tip_hash();
                if before != after { reorgs += 1; }
            }
        }
        bad += replay_check(&x, &format!("step {} X", step));
        bad += replay_check(&y, &format!("step {} Y", step));
        if bad > 5 { break; }
    }
    println!("seed={} steps={} tip_switches_by_sync={} X tip={:?} Y tip={:?} violations={}", seed, steps, reorgs, x.tip(), y.tip(), bad);
    std::process::exit(0);
}

fn skiplist_probe() {
    use ckb_shared::HeaderIndexView;
    use ckb_types::U256;
    use std::collections::HashMap;
    let n = 300u64;
    let hash_of = |i: u64, fork: u8| -> packed::Byte32 { let mut b = [0u8; 32]; b[..8].copy_from_slice(&i.to_le_bytes()); b[31] = fork; b.into() };
    // main chain 0..n (fork 0) and a fork from 100 (fork 1)
    let mut map: HashMap<packed::Byte32, HeaderIndexView> = HashMap::new();
    let mut build = |i: u64, fork: u8, parent: packed::Byte32, map: &mut HashMap<packed::Byte32, HeaderIndexView>| {
        let mut v = HeaderIndexView::new(hash_of(i, fork), i, EpochNumberWithFraction::new(0, i.min(1000), 1800), i * 1000, parent, U256::from(i + 1));
        { let m = &*map; v.build_skip(0, |h, _| m.get(h).cloned(), |_, _| None); }
        map.insert(v.hash(), v);
    };
    build(0, 0, packed::Byte32::zero(), &mut map);
    for i in 1..=n { build(i, 0, hash_of(i - 1, 0), &mut map); }
    build(101, 1, hash_of(100, 0), &mut map);
    for i in 102..=n { build(i, 1, hash_of(i - 1, 1), &mut map); }
    let mut bad = 0; let mut maxsteps = 0;
    for fork in [0u8, 1u8] {
        for from in (if fork == 1 { 101 } else { 0 })..=n {
            let start = map.get(&hash_of(from, fork)).unwrap().clone();
            for to in 0..=from {
                let steps = std::cell::Cell::new(0usize);
                let got = start.get_ancestor(0, to, |h, _| { steps.set(steps.get() + 1); map.get(h).cloned() }, |_, _| None);
                let expect_fork = if fork == 1 && to > 100 { 1 } else { 0 };
                let ok = got.as_ref().map(|g| g.hash() == hash_of(to, expect_fork) && g.number() == to).unwrap_or(false);
                if !ok { bad += 1; if bad < 5 { println!("get_ancestor mismatch fork {} from {} to {}: {:?}", fork, from, to, got.map(|g| g.number())); } }
                maxsteps = maxsteps.max(steps.get());
            }
        }
    }
    println!("skiplist pairs checked on 2 forks of length {}: mismatches={} max_steps={}", n, bad, maxsteps);
    std::process::exit(0);
}

fn json_probe() {
    use ckb_jsonrpc_types as j;
    use ckb_types::core::{ScriptHashType, HeaderBuilder, BlockBuilder, UncleBlockView};
    let b32 = |x: u8| -> packed::Byte32 { let mut b = [x; 32]; b[0] = x.wrapping_add(1); b.into() };
    let script = |x: u8, ht: ScriptHashType| packed::Script::new_builder().code_hash(b32(x)).hash_type(ht).args(Bytes::from(vec![x, x + 1, x + 2])).build();
    let mut bad = 0;
    let mut check = |name: &str, ok: bool| { if !ok { bad += 1; println!("ROUND-TRIP MISMATCH: {}", name); } };
    for ht in [ScriptHashType::Data, ScriptHashType::Type, ScriptHashType::Data1, ScriptHashType::Data2] {
        let s = script(3, ht);
        let js: j::Script = s.clone().into(); let txt = serde_json::to_string(&js).unwrap(); let back: j::Script = serde_json::from_str(&txt).unwrap(); let p: packed::Script = back.into();
        check(&format!("Script {:?}", ht), p.as_slice() == s.as_slice());
    }
    let out = packed::CellOutput::new_builder().capacity(Capacity::shannons(0x0102030405060708)).lock(script(5, ScriptHashType::Type)).type_(Some(script(9, ScriptHashType::Data1))).build();
    { let js: j::CellOutput = out.clone().into(); let back: j::CellOutput = serde_json::from_str(&serde_json::to_string(&js).unwrap()).unwrap(); let p: packed::CellOutput = back.into(); check("CellOutput", p.as_slice() == out.as_slice()); }
    let out2 = packed::CellOutput::new_builder().capacity(Capacity::shannons(u64::MAX)).lock(script(6, ScriptHashType::Data)).build();
    let tx = TransactionBuilder::default()
        .version(7u32)
        .cell_dep(CellDep::new_builder().out_point(OutPoint::new(b32(11), 0x01020304)).dep_type(DepType::DepGroup).build())
        .cell_dep(CellDep::new_builder().out_point(OutPoint::new(b32(12), 5)).dep_type(DepType::Code).build())
        .header_dep(b32(13)).header_dep(b32(14))
        .input(CellInput::new(OutPoint::new(b32(15), 6), 0x8000_0000_0000_0123))
        .input(CellInput::new(OutPoint::new(b32(16), 7), 0x2000_0100_0200_0003))
        .output(out.clone()).output(out2.clone())
        .output_data(Bytes::from(vec![1u8, 2, 3])).output_data(Bytes::new())
        .witness(Bytes::from(vec![9u8; 5])).witness(Bytes::new()).witness(Bytes::from(vec![8u8]))
        .build();
    { let js: j::Transaction = tx.data().into(); let back: j::Transaction = serde_json::from_str(&serde_json::to_string(&js).unwrap()).unwrap(); let p: packed::Transaction = back.into(); check("Transaction", p.as_slice() == tx.data().as_slice()); }
    { let js: j::TransactionView = tx.clone().into(); let txt = serde_json::to_string(&js).unwrap(); let back: j::TransactionView = serde_json::from_str(&txt).unwrap(); let p: packed::Transaction = back.inner.into(); check("TransactionView", p.as_slice() == tx.data().as_slice() && back.hash == tx.hash().into()); }
    let header = HeaderBuilder::default().version(3u32).compact_target(0x1a2b3c4du32).timestamp(0x1122334455667788u64).number(0x0102030405060708u64)
        .epoch(EpochNumberWithFraction::new(0x010203, 0x0405, 0x0607)).parent_hash(b32(21)).transactions_root(b32(22)).proposals_hash(b32(23)).extra_hash(b32(24)).dao(b32(25)).nonce(0x0102030405060708090a0b0c0d0e0f10u128).build();
    { let js: j::Header = header.data().into(); let back: j::Header = serde_json::from_str(&serde_json::to_string(&js).unwrap()).unwrap(); let p: packed::Header = back.into(); check("Header", p.as_slice() == header.data().as_slice()); }
    let uncle_blk = BlockBuilder::default().header(header.clone()).proposal(packed::ProposalShortId::new([1,2,3,4,5,6,7,8,9,10])).proposal(packed::ProposalShortId::new([11,12,13,14,15,16,17,18,19,20])).build_unchecked();
    let uncle: UncleBlockView = uncle_blk.as_uncle();
    { let js: j::UncleBlock = uncle.data().into(); let back: j::UncleBlock = serde_json::from_str(&serde_json::to_string(&js).unwrap()).unwrap(); let p: packed::UncleBlock = back.into(); check("UncleBlock", p.as_slice() == uncle.data().as_slice()); }
    for with_ext in [false, true] {
        let mut bb = BlockBuilder::default().header(header.clone()).transaction(tx.clone()).transaction(tx.clone()).uncle(uncle.clone()).proposal(packed::ProposalShortId::new([9; 10]));
        if with_ext { bb = bb.extension(Some(Bytes::from(vec![7u8; 40]).into())); }
        let blk = bb.build_unchecked();
        let js: j::Block = blk.data().into(); let txt = serde_json::to_string(&js).unwrap(); let back: j::Block = serde_json::from_str(&txt).unwrap(); let p: packed::Block = back.into();
        check(&format!("Block ext={}", with_ext), p.as_slice() == blk.data().as_slice());
        let jv: j::BlockView = blk.clone().into(); let back: j::BlockView = serde_json::from_str(&serde_json::to_string(&jv).unwrap()).unwrap(); let cv: ckb_types::core::BlockView = back.into();
        check(&format!("BlockView ext={}", with_ext), cv.data().as_slice() == blk.data().as_slice() && cv.hash() == blk.hash());
        if cv.data().as_slice() != blk.data().as_slice() { println!("  A {}\n  B {}", cv.data().header(), blk.data().header()); println!("  header_eq={} uncles_eq={} txs_eq={} props_eq={} ext_eq={} len {} vs {}", cv.data().header().as_slice()==blk.data().header().as_slice(), cv.data().uncles().as_slice()==blk.data().uncles().as_slice(), cv.data().transactions().as_slice()==blk.data().transactions().as_slice(), cv.data().proposals().as_slice()==blk.data().proposals().as_slice(), cv.extension()==blk.extension(), cv.data().as_slice().len(), blk.data().as_slice().len()); }
        // strict vs compatible decoding of the packed bytes
        let strict = packed::Block::from_slice(blk.data().as_slice()).is_ok(); let compat = packed::Block::from_compatible_slice(blk.data().as_slice()).is_ok();
        println!("Block ext={} strict_from_slice_ok={} compatible_ok={} count_extra_fields={}", with_ext, strict, compat, blk.data().count_extra_fields());
        // hash commitments
        let txw = tx.as_advanced_builder().witness(Bytes::from(vec![1u8])).build();
        let blk2 = BlockBuilder::default().header(header.clone()).transaction(tx.clone()).transaction(txw.clone()).build_unchecked();
        let blk1 = BlockBuilder::default().header(header.clone()).transaction(tx.clone()).transaction(tx.clone()).build_unchecked();
        check("tx hash ignores witnesses", txw.hash() == tx.hash());
        check("witness hash covers witnesses", txw.witness_hash() != tx.witness_hash());
        check("transactions_root binds witnesses", blk2.calc_transactions_root() != blk1.calc_transactions_root());
    }
    println!("json/packed round-trip mismatches = {}", bad);
    std::process::exit(0);
}

fn reset_probe() {
    let _ft = ckb_systemtime::faketime();
    _ft.set_faketime(1_000_000 + 1000 * 8000);
    let c = consensus(1000);
    let m = start(c.clone()); let n = start(c.clone());
    let b1 = m.mine(0);
    // what a relaying peer could send: the honest header of b1 (valid PoW on a real network) + a different proposals list
    let tampered = packed::Block::new_builder().header(b1.data().header()).uncles(b1.data().uncles()).transactions(b1.data().transactions())
        .proposals(vec![packed::ProposalShortId::new([7u8; 10])]).build();
    let tampered = if let Some(ext) = b1.extension() { packed::BlockV1::new_builder().header(tampered.header()).uncles(tampered.uncles()).transactions(tampered.transactions()).proposals(tampered.proposals()).extension(ext).build().as_v0() } else { tampered };
    println!("header.tx_root matches body: {}", b1.transactions_root() == tampered.clone().into_view_without_reset_header().calc_transactions_root());
    let v = tampered.clone().into_view();   // what reconstruct_block / BlockProcess / submit_block do
    println!("original header hash  = {:x}", b1.hash());
    println!("after into_view() hash = {:x}   (same block? {})", v.hash(), v.hash() == b1.hash());
    println!("proposals_hash rewritten: {}", v.proposals_hash() != b1.proposals_hash());
    println!("N.process(view) = {}", n.process(&v));
    println!("N tip = {:?} ; is the tip the honest block? {}", n.tip(), n.shared.snapshot().tip_hash() == b1.hash());
    std::process::exit(0);
}

fn chunk_sweep() {
    use ckb_script::{TransactionScriptsVerifier, TxVerifyEnv, VerifyResult};
    use ckb_store::data_loader_wrapper::AsDataLoader;
    use ckb_types::core::cell::{CellMetaBuilder, ResolvedTransaction};
    use ckb_types::core::{HeaderView, ScriptHashType, TransactionInfo};
    let tmp = tempfile::tempdir().unwrap();
    let db = ckb_db::RocksDB::open_in(&tmp, ckb_db_schema::COLUMNS);
    let store = Arc::new(ckb_store::ChainDB::new(db, Default::default()));
    let consensus = Arc::new(ConsensusBuilder::default().build());   // mirana: all versions active? use data2 hash type => VM2
    let header = HeaderView::new_advanced_builder().epoch(EpochNumberWithFraction::new(20000, 0, 1)).build();
    let env = Arc::new(TxVerifyEnv::new_commit(&header));
    let info = TransactionInfo::new(1, EpochNumberWithFraction::new(0, 0, 1), h256!("0x1").into(), 0);
    let cases: Vec<(&str, Vec<u8>)> = vec![
        ("spawn_cases", vec![1]), ("spawn_cases", vec![9]),
    ];
    let mut total_runs = 0; let mut bad = 0;
    for (bin, args) in cases {
        let data: Bytes = std::fs::read(format!("/repo/script/testdata/{}", bin)).unwrap().into();
        let cell = CellOutput::new_builder().capacity(Capacity::bytes(data.len()).unwrap()).build();
        let dep_meta = CellMetaBuilder::from_cell_output(cell, data.clone()).out_point(OutPoint::new(h256!("0x1").into(), 0)).transaction_info(info.clone()).build();
        let script = packed::Script::new_builder().hash_type(ScriptHashType::Data2).code_hash(CellOutput::calc_data_hash(&data)).args(Bytes::from(args.clone())).build();
        let input_cell = CellOutput::new_builder().capacity(capacity_bytes!(100)).lock(script).build();
        let input_meta = CellMetaBuilder::from_cell_output(input_cell, Bytes::new()).transaction_info(info.clone()).build();
        let tx = TransactionBuilder::default().input(CellInput::new(OutPoint::null(), 0)).build();
        let rtx = Arc::new(ResolvedTransaction { transaction: tx, resolved_cell_deps: vec![dep_meta], resolved_inputs: vec![input_meta], resolved_dep_groups: vec![] });
        let v = TransactionScriptsVerifier::new(rtx, store.as_data_loader(), Arc::clone(&consensus), Arc::clone(&env));
        let reference = v.verify(u64::MAX).map_err(|e| e.to_string());
        let cost = match &reference { Ok(c) => *c, Err(e) => { println!("{} {:?}: reference error {} (skipping sweep)", bin, args, e.chars().take(80).collect::<String>()); continue; } };
        // sweep step sizes
        let mut steps: Vec<u64> = vec![cost, cost - 1, cost / 2, cost / 3, cost / 5, cost / 7, cost / 11, cost / 13, cost / 17, cost / 23, cost / 31, cost / 53, cost / 97];
        for k in 1..30u64 { steps.push(cost * k / 31 + k); }
        steps.retain(|s| *s > 0); steps.sort(); steps.dedup();
        let mut mism = 0; let mut stuck = 0; let mut minprog = u64::MAX;
        for step in &steps {
            total_runs += 1;
            let mut res = v.resumable_verify(*step).map_err(|e| e.to_string());
            let mut iters = 0; let mut last_total = 0u64; let mut noprog = 0;
            let fin = loop {
                match res {
                    Ok(VerifyResult::Completed(c)) => break Ok(c),
                    Err(e) => break Err(e),
                    Ok(VerifyResult::Suspended(st)) => {
                        iters += 1;
                        let t = st.current_cycles + st.state.as_ref().map(|s| s.total_cycles).unwrap_or(0);
                        if t == last_total { noprog += 1; } else { noprog = 0; minprog = minprog.min(t - last_total); }
                        last_total = t;
                        if noprog > 3 || iters > 200000 { break Err(format!("STUCK at {} cycles", t)); }
                        res = v.resume_from_state(&st, *step).map_err(|e| e.to_string());
                    }
                }
            };
            match fin { Ok(c) if c == cost => {}, Ok(c) => { mism += 1; println!("{} {:?} step {}: cycles {} != reference {}", bin, args, step, c, cost); }, Err(e) if e.starts_with("STUCK") => { stuck += 1; }, Err(e) => { mism += 1; println!("{} {:?} step {}: error {}", bin, args, step, e); } }
        }
        // budget exactness via verify
        let b1 = v.verify(cost - 1).is_err(); let b2 = v.verify(cost).ok() == Some(cost);
        if !b1 || !b2 { mism += 1; }
        bad += mism;
        println!("{} {:?}: cost={} steps_tried={} mismatches={} stuck(no-progress)={} budget_exact={}", bin, args, cost, steps.len(), mism, stuck, b1 && b2);
    }
    println!("chunk sweep total runs={} mismatches={}", total_runs, bad);
    std::process::exit(0);
}

fn headermap_probe(seed: u64) {
    use ckb_shared::{HeaderMap, HeaderIndexView};
    use ckb_types::U256;
    use rand::{SeedableRng, Rng};
    use std::collections::HashMap;
    let handle = ckb_async_runtime::new_background_runtime();
    let ibd = Arc::new(std::sync::atomic::AtomicBool::new(true));
    let item = std::mem::size_of::<HeaderIndexView>();
    let hm = HeaderMap::new(None::<std::path::PathBuf>, item * 3, &handle, ibd);   // keep at most 3 in memory
    let key = |i: u64| -> packed::Byte32 { let mut b = [0u8; 32]; b[..8].copy_from_slice(&i.to_le_bytes()); b.into() };
    let mk = |i: u64, ver: u64| HeaderIndexView::new(key(i), i, EpochNumberWithFraction::new(0, 0, 1), ver, key(i.wrapping_sub(1)), U256::from(ver));
    let mut model: HashMap<u64, u64> = HashMap::new();
    let mut rng = rand::rngs::StdRng::seed_from_u64(seed);
    let mut bad = 0; let mut ops = 0;
    for round in 0..10 {
        for _ in 0..40 {
            ops += 1;
            let k = rng.gen_range(0..12u64);
            match rng.gen_range(0..4) {
                0 => { let ver = rng.gen_range(1..1_000_000u64); hm.insert(mk(k, ver)); model.insert(k, ver); }
                1 => { hm.remove(&key(k)); model.remove(&k); }
                2 => { let got = hm.get(&key(k)).map(|v| v.timestamp()); let exp = model.get(&k).cloned(); if got != exp { bad += 1; println!("round {} get({}) = {:?} expected {:?}", round, k, got, exp); } }
                _ => { let got = hm.contains_key(&key(k)); let exp = model.contains_key(&k); if got != exp { bad += 1; println!("round {} contains({}) = {} expected {}", round, k, got, exp); } }
            }
        }
        // let the background limit_memory tick (every 5 s) spill to sled
        std::thread::sleep(std::time::Duration::from_millis(5300));
        for k in 0..12u64 { let got = hm.get(&key(k)).map(|v| v.timestamp()); let exp = model.get(&k).cloned(); if got != exp { bad += 1; println!("after spill {}: get({}) = {:?} expected {:?}", round, k, got, exp); } }
    }
    println!("headermap ops={} spills~10 mismatches={}", ops, bad);
    std::process::exit(0);
}

// ---------- manual block assembler on top of a node's tip (prototype of the scenario concretizer) ----------
fn assemble(n: &Node, commits: &[TransactionView], proposals: Vec<packed::ProposalShortId>, ts: u64) -> BlockView {
    use ckb_types::core::cell::{resolve_transaction, BlockCellProvider, OverlayCellProvider};
    use std::collections::HashSet;
    let snap = n.shared.cloned_snapshot();
    let consensus = snap.consensus();
    let tip = snap.tip_header().clone();
    let number = tip.number() + 1;
    let epoch = consensus.next_epoch_ext(&tip, &snap.borrow_as_data_loader()).unwrap().epoch();
    let (_, _, lock) = always_success_cell();
    let (target_lock, reward) = ckb_reward_calculator::RewardCalculator::new(consensus, snap.as_ref()).block_reward_to_finalize(&tip).unwrap();
    let witness = packed::CellbaseWitness::new_builder().lock(lock.clone()).message(Bytes::new()).build();
    let mut cb = TransactionBuilder::default().input(CellInput::new_cellbase_input(number)).witness(witness.as_bytes());
    let out = CellOutput::new_builder().capacity(reward.total).lock(target_lock).build();
    if number > consensus.finalization_delay_length() && !out.is_lack_of_capacity(Capacity::zero()).unwrap() { cb = cb.output(out).output_data(Bytes::new()); }
    let cellbase = cb.build();
    let mut txs = vec![cellbase]; txs.extend(commits.iter().cloned());
    let draft = BlockBuilder::default().transactions(txs.clone()).build();
    let bcp = BlockCellProvider::new(&draft).unwrap();
    let cp = OverlayCellProvider::new(&bcp, snap.as_ref());
    let mut seen = HashSet::new();
    let rtxs: Vec<_> = txs.iter().cloned().map(|t| resolve_transaction(t, &mut seen, &cp, snap.as_ref()).unwrap()).collect();
    let dao = ckb_dao::DaoCalculator::new(consensus, &snap.borrow_as_data_loader()).dao_field(rtxs.iter(), &tip).unwrap();
    let root = snap.chain_root_mmr(tip.number()).get_root().unwrap().calc_mmr_hash();
    BlockBuilder::default()
        .parent_hash(tip.hash()).number(number).epoch(epoch.number_with_fraction(number)).compact_target(epoch.compact_target())
        .timestamp(ts).dao(dao).transactions(txs).proposals(proposals)
        .extension(Some(root.as_bytes().into()))
        .build()
}

fn submit_like_miner(n: &Node, b: &BlockView) -> String {
    use ckb_verification::HeaderVerifier; use ckb_verification_traits::Verifier;
    let snap = n.shared.cloned_snapshot();
    if let Err(e) = HeaderVerifier::new(snap.as_ref(), snap.consensus()).verify(&b.header()) { return format!("HeaderErr({})", e.to_string().chars().take(60).collect::<String>()); }
    n.process(b)
}

fn rules_probe() {
    let _ft = ckb_systemtime::faketime();
    _ft.set_faketime(1_000_000 + 1000 * 8000);
    let (_, _, lock) = always_success_cell();
    let c = consensus(1000);
    let genesis = c.genesis_block();
    let dep = CellDep::new_builder().out_point(OutPoint::new(genesis.transactions()[0].hash(), 0)).dep_type(DepType::Code).build();
    let t = TransactionBuilder::default().input(CellInput::new(OutPoint::new(genesis.transactions()[1].hash(), 0), 0))
        .output(CellOutput::new_builder().capacity(capacity_bytes!(49_000)).lock(lock.clone()).build()).output_data(Bytes::new()).cell_dep(dep.clone()).build();
    let (wc, wf) = (c.tx_proposal_window().closest(), c.tx_proposal_window().farthest());
    println!("window ({},{})", wc, wf);
    // for each commit distance d: chain = [b1 proposes T at height 1] + empty blocks, commit at height 1+d
    for d in [wc - 1, wc, wf, wf + 1] {
        let n = start(c.clone());
        let mut ts = genesis.timestamp();
        let mut results = vec![];
        for h in 1..=(1 + d) {
            ts += 8000;
            let props = if h == 1 { vec![t.proposal_short_id()] } else { vec![] };
            let commits: Vec<TransactionView> = if h == 1 + d { vec![t.clone()] } else { vec![] };
            let b = assemble(&n, &commits, props, ts);
            let r = submit_like_miner(&n, &b);
            if h == 1 + d || !r.starts_with("Ok") { results.push(format!("h{}:{}", h, r.chars().take(70).collect::<String>())); }
        }
        let expect = d >= wc && d <= wf;
        println!("commit at distance {} from proposal: {:?}  (rule says {})", d, results, if expect { "accept" } else { "reject" });
    }
    // timestamp boundaries: median time of last 37 blocks; build 3 blocks with ts, then block with ts == median / median+1
    {
        let n = start(c.clone());
        let mut ts = genesis.timestamp();
        for _ in 0..5 { ts += 8000; let b = assemble(&n, &[], vec![], ts); n.process(&b); }
        // median of timestamps of up to 37 ancestors (incl. genesis): compute here
        let snap = n.shared.cloned_snapshot();
        let mut v = vec![]; let mut h = snap.tip_header().clone(); loop { v.push(h.timestamp()); if h.number() == 0 { break; } h = snap.get_block_header(&h.parent_hash()).unwrap(); }
        v.sort(); let median = v[v.len() / 2];
        for (label, tsx) in [("median", median), ("median+1", median + 1)] {
            let b = assemble(&n, &[], vec![], tsx);
            println!("timestamp = {}: {}", label, submit_like_miner(&n, &b).chars().take(80).collect::<String>());
            if n.tip().0 == 6 { let target = n.shared.snapshot().get_block_hash(5).unwrap(); let _ = n.chain.chain_controller().truncate(target); }
        }
        let now = ckb_systemtime::unix_time_as_millis();
        for (label, tsx) in [("now+15s", now + 15_000), ("now+15s+1ms", now + 15_001)] {
            let b = assemble(&n, &[], vec![], tsx);
            println!("timestamp = {}: {}", label, submit_like_miner(&n, &b).chars().take(80).collect::<String>());
            if n.tip().0 == 6 { let target = n.shared.snapshot().get_block_hash(5).unwrap(); let _ = n.chain.chain_controller().truncate(target); }
        }
    }
    std::process::exit(0);
}

fn dao_probe(seed: u64, steps: usize) {
    use rand::{SeedableRng, Rng, seq::SliceRandom};
    use ckb_db::IteratorMode;
    let _ft = ckb_systemtime::faketime();
    _ft.set_faketime(1_000_000 + 1000 * 8000);
    let (_, _, lock) = always_success_cell();
    let c = consensus(4);
    let n = start(c.clone());
    let genesis = c.genesis_block();
    let dep = CellDep::new_builder().out_point(OutPoint::new(genesis.transactions()[0].hash(), 0)).dep_type(DepType::Code).build();
    let mut rng = rand::rngs::StdRng::seed_from_u64(seed);
    let mut outs: Vec<(OutPoint, u64)> = (1..=10).map(|i| (OutPoint::new(genesis.transactions()[i].hash(), 0), 50_000u64)).collect();
    let measure = |n: &Node| -> (u64, u64, u64, u64, u64) {
        let snap = n.shared.snapshot();
        let (ar, cc, s_, u) = ckb_dao_utils::extract_dao_data(snap.tip_header().dao());
        let mut occ = 0u64; let mut cap = 0u64;
        for (k, v) in snap.get_iter(ckb_db_schema::COLUMN_CELL, IteratorMode::Start) {
            let e = packed::CellEntryReader::from_slice_should_be_ok(v.as_ref());
            let out = e.output().to_entity(); let dsz: u64 = e.data_size().into();
            occ += out.occupied_capacity(Capacity::bytes(dsz as usize).unwrap()).unwrap().as_u64();
            let cp: u64 = out.capacity().into(); cap += cp; let _ = k;
        }
        (ar, cc.as_u64(), s_.as_u64(), u.as_u64(), occ.wrapping_sub(0) ^ 0 | 0 + 0 * cap)
    };
    let (_, c0, s0, u0, occ0) = measure(&n);
    println!("genesis: C={} S={} U={} occupied(live)={} diff={}", c0, s0, u0, occ0, u0 as i128 - occ0 as i128);
    let base = u0 as i128 - occ0 as i128;
    let mut bad = 0;
    for step in 0..steps {
        if rng.gen_bool(0.6) {
            if let Some((op_, cap)) = outs.choose(&mut rng).cloned() {
                let nouts = rng.gen_range(1..=3u64); let fee = rng.gen_range(1..1000u64);
                if cap > fee / 100000000 + 200 * nouts {
                    let each = cap / nouts - 1;
                    let mut b = TransactionBuilder::default().cell_dep(dep.clone()).input(CellInput::new(op_, 0));
                    for i in 0..nouts { let dl = rng.gen_range(0..40usize); b = b.output(CellOutput::new_builder().capacity(Capacity::bytes(each as usize).unwrap()).lock(lock.clone().as_builder().args(Bytes::from(vec![i as u8; rng.gen_range(0..20)])).build()).build()).output_data(Bytes::from(vec![1u8; dl])); }
                    let tx = b.build();
                    if n.shared.tx_pool_controller().submit_local_tx(tx.clone()).unwrap().is_ok() { for i in 0..nouts { outs.push((OutPoint::new(tx.hash(), i as u32), each)); } }
                }
            }
        } else {
            let b = n.mine(0); let r = n.process(&b);
            if !r.starts_with("Ok") { bad += 1; println!("template rejected {}", r); }
            std::thread::sleep(std::time::Duration::from_millis(100));
            let (_ar, _cc, _s, u, occ) = measure(&n);
            if u as i128 - occ as i128 != base { bad += 1; println!("step {} block {}: U={} occupied(live)={} diff={} (genesis diff {})", step, n.tip().0, u, occ, u as i128 - occ as i128, base); }
        }
    }
    let (ar, cc, s_, u, occ) = measure(&n);
    println!("seed={} tip={} AR={} C={} S={} U={} occupied(live)={} violations={}", seed, n.tip().0, ar, cc, s_, u, occ, bad);
    std::process::exit(0);
}

fn main() {
    let args: Vec<String> = std::env::args().collect();
    if args.len() > 2 && args[1] == "freeze" { freezer_probe(&args[2]); }
    if args.len() > 1 && args[1] == "script" { script_probe(); }
    if args.len() > 1 && args[1] == "mmr" { mmr_probe(); }
    if args.len() > 1 && args[1] == "indexer" { indexer_probe(); }
    if args.len() > 1 && args[1] == "orphanchild" { orphan_child_probe(); }
    if args.len() > 2 && args[1] == "restart" { restart_probe(&args[2]); }
    if args.len() > 1 && args[1] == "filter" { filter_probe(); }
    if args.len() > 1 && args[1] == "remove" { remove_probe(); }
    if args.len() > 3 && args[1] == "dao" { dao_probe(args[2].parse().unwrap(), args[3].parse().unwrap()); }
    if args.len() > 1 && args[1] == "rules" { rules_probe(); }
    if args.len() > 2 && args[1] == "headermap" { headermap_probe(args[2].parse().unwrap()); }
    if args.len() > 1 && args[1] == "chunks" { chunk_sweep(); }
    if args.len() > 1 && args[1] == "reset" { reset_probe(); }
    if args.len() > 1 && args[1] == "json" { json_probe(); }
    if args.len() > 1 && args[1] == "skiplist" { skiplist_probe(); }
    if args.len() > 3 && args[1] == "reorgstress" { reorg_stress(args[2].parse().unwrap(), args[3].parse().unwrap()); }
    if args.len() > 3 && args[1] == "poolstress" { pool_stress(args[2].parse().unwrap(), args[3].parse().unwrap()); }
    if args.len() > 3 && args[1] == "crashchild" { crash_child(&args[2], &args[3]); }
    if args.len() > 3 && args[1] == "crash" { crash_probe(args[2].parse().unwrap(), args[3].parse().unwrap()); }
    if args.len() > 3 && args[1] == "order" { order_probe(args[2].parse().unwrap(), args[3].parse().unwrap()); }
    if args.len() > 2 && args[1] == "reward" { reward_probe(args[2].parse().unwrap()); std::process::exit(0); }

    let _ft = ckb_systemtime::faketime();
    _ft.set_faketime(1_000_000 + 1000 * 8000);
    let (_, _, always_success_script) = always_success_cell();
    // ---------- candidate (c): stale Gap after reorg ----------
    {
        let c = consensus(1000);
        let n = start(c.clone());
        let m = start(c.clone());
        let genesis = c.genesis_block();
        let tx0 = &genesis.transactions()[1];
        let dep = CellDep::new_builder().out_point(OutPoint::new(genesis.transactions()[0].hash(), 0)).dep_type(DepType::Code).build();
        let t = TransactionBuilder::default()
            .input(CellInput::new(OutPoint::new(tx0.hash(), 0), 0))
            .output(CellOutput::new_builder().capacity(capacity_bytes!(49_000)).lock(always_success_script.clone()).build())
            .output_data(Bytes::new())
            .cell_dep(dep).build();
        println!("submit: {:?}", n.shared.tx_pool_controller().submit_local_tx(t.clone()).unwrap().map_err(|e| e.to_string()));
        std::thread::sleep(std::time::Duration::from_millis(300));
        println!("detail0: {:?}", n.shared.tx_pool_controller().get_tx_detail(t.hash()).map(|d| d.entry_status));
        let b1 = n.mine(0);
        println!("b1 proposals={} ", b1.data().proposals().len());
        println!("N process b1: {}", n.process(&b1));
        std::thread::sleep(std::time::Duration::from_millis(500));
        println!("after b1 tip={:?} detail: {:?} view gap={} set={}", n.tip(), n.shared.tx_pool_controller().get_tx_detail(t.hash()).map(|d| d.entry_status), n.shared.snapshot().proposals().gap().len(), n.shared.snapshot().proposals().set().len());
        // competing branch by M: b1', b2'
        let c1 = m.mine(1); println!("M process c1: {}", m.process(&c1));
        let c2 = m.mine(1); println!("M process c2: {}", m.process(&c2));
        println!("N process c1: {}", n.process(&c1));
        println!("N process c2: {}", n.process(&c2));
        std::thread::sleep(std::time::Duration::from_millis(800));
        println!("after reorg tip={:?} detail: {:?} view gap={} set={}", n.tip(), n.shared.tx_pool_controller().get_tx_detail(t.hash()).map(|d| d.entry_status), n.shared.snapshot().proposals().gap().len(), n.shared.snapshot().proposals().set().len());
        let b3 = n.mine(0);
        println!("next template proposals={} (expect 1 if tx were Pending)", b3.data().proposals().len());
    }
    // ---------- candidate (a): epoch index pointing to side chain ----------
    {
        let c = consensus(4);
        let n = start(c.clone());
        let m = start(c.clone());
        // main chain on N: 6 blocks (epoch 0: 0..3, epoch 1: 4..7)
        let mut main = vec![];
        for _ in 0..6 { let b = n.mine(0); println!("N main {} {}", b.number(), n.process(&b)); main.push(b); }
        // side chain on M forks at block 2 (shares 1..2), then own 3',4' (4' is head of epoch 1 on side chain)
        for b in &main[..2] { m.process(b); }
        let s3 = m.mine(5); m.process(&s3);
        let s4 = m.mine(5); m.process(&s4);
        println!("N side s3: {}", n.process(&s3));
        println!("N side s4: {}", n.process(&s4));
        std::thread::sleep(std::time::Duration::from_millis(300));
        let store = n.shared.store();
        let idx = store.get_epoch_index(1).unwrap();
        println!("tip={:?} epoch_index(1)={:x} on_main_chain={} ; main[3]={:x} side s3={:x}", n.tip(), idx, store.is_main_chain(&idx), main[2].hash(), s3.hash());
        println!("get_block_number(idx) = {:?}", store.get_block_number(&idx));
    }

    // ---------- candidate C14: header cache after invalid block deletion ----------
    for cache in [4096usize, 0usize] {
        let c = consensus(1000);
        let mut sc = ckb_app_config::StoreConfig::default();
        sc.header_cache_size = cache; sc.block_uncles_cache_size = cache; sc.block_proposals_cache_size = cache; sc.block_extensions_cache_size = cache; sc.block_tx_hashes_cache_size = cache; sc.cell_data_cache_size = cache;
        let config = BlockAssemblerConfig { code_hash: h256!("0x0"), args: Default::default(), hash_type: ScriptHashType::Data, message: Default::default(), use_binary_version_as_message_prefix: false, binary_version: "TEST".to_string(), update_interval_millis: 0, notify: vec![], notify_scripts: vec![], notify_timeout_millis: 800 };
        let (shared, mut pack) = SharedBuilder::with_temp_db().consensus(c).store_config(sc).block_assembler_config(Some(config)).build().unwrap();
        let network = dummy_network(&shared);
        pack.take_tx_pool_builder().start(network);
        let chain = ChainServiceScope::new(pack.take_chain_services_builder());
        let n = Node { chain, shared };
        let b1 = n.mine(0);
        let bad = b1.as_advanced_builder().dao(packed::Byte32::zero()).build();
        println!("cache={} process bad: {}", cache, n.process(&bad));
        std::thread::sleep(std::time::Duration::from_millis(200));
        let st = n.shared.store();
        println!("cache={} block_exists={} get_block_header.is_some={} get_block_ext={:?} status={:?}", cache, st.block_exists(&bad.hash()), st.get_block_header(&bad.hash()).is_some(), st.get_block_ext(&bad.hash()).is_some(), n.shared.get_block_status(&bad.hash()));
        let r = std::panic::catch_unwind(std::panic::AssertUnwindSafe(|| st.get_block(&bad.hash()).map(|b| b.transactions().len())));
        println!("cache={} get_block -> {:?}", cache, r.map_err(|_| "PANIC"));
    }
    std::process::exit(0);
}
