//! C12 — after any reorg the pool agrees with the new chain.  Binding of TxPool.tla (C12 post-conditions) to the real
//! pool: reorg-heavy random histories on a node with a block assembler ("mine mode") and on one without.
//!
//! `c12 random --seed S --steps N --profile P --out <file>`: submissions (chains, conflicting pairs, cell deps, header
//!   deps), own templates / hand-assembled blocks, and many reorgs through side branches built on throw-away builder
//!   nodes: empty branches, branches that propose and commit transactions (also ones conflicting with the pool or with
//!   the abandoned branch), branches forking below a header-dep target, proposals entering / leaving the window exactly
//!   at its edges; a second thread submits transactions while the side branch is being delivered (the pool processes the
//!   reorg notification asynchronously).  No expiry (faketime never advances past the expiry).
//!   After every operation - for blocks: after `quiesce` + `wait_pool_synced` - the pool is dumped; the history is
//!   validated by Trace_TxPool.tla with the C12 invariants.
use ckbv::fixture::*;
use ckbv::poolfix::*;
use ckbv::poolhist::reorg_history;
use ckbv::util::opt;
use serde_json::json;
use std::io::Write;

fn main() {
    let args: Vec<String> = std::env::args().collect();
    let rest = &args[2.min(args.len())..];
    let ft = ckb_systemtime::faketime();
    ft.set_faketime(GENESIS_TS + 1000 * BLOCK_INTERVAL_MS);
    watchdog(180);
    let out_path = opt(rest, "--out").unwrap_or("/dev/null").to_string();
    let mut out = std::io::BufWriter::new(std::fs::File::create(&out_path).unwrap());
    match args.get(1).map(|s| s.as_str()) {
        Some("random") => {
            let doc = reorg_history(rest, false);
            writeln!(out, "{}", doc).unwrap();
            println!("{}", json!({"summary": doc["summary"]}));
        }
        _ => {
            eprintln!("usage: c12 random ...");
            std::process::exit(2);
        }
    }
    out.flush().unwrap();
    drop(out);
    std::process::exit(0);
}
