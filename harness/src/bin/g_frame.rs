//! C16 (decompression clause) — frame cases enumerated by spec/MC_Frame.tla on the REAL frame layer
//! (network/src/compress.rs): `compress::decompress`, `compress::compress`, and the Decoder / Encoder of
//! `LengthDelimitedCodecWithCompress`.  Prints one ndjson record per case with what the real code did; nothing is judged here.
//!
//!   g_frame cases --in <frames.json>
use ckb_network::bytes::{Bytes, BytesMut};
use ckb_network::compress::{compress, decompress, LengthDelimitedCodecWithCompress};
use serde_json::{json, Value};
use std::io::Write;
use std::panic::{catch_unwind, AssertUnwindSafe};
use tokio_util::codec::{length_delimited::LengthDelimitedCodec, Decoder, Encoder};

fn message(n: usize) -> Vec<u8> {
    // compressible but not constant
    (0..n).map(|i| ((i / 7) % 251) as u8).collect()
}

fn varint_len(bs: &[u8]) -> usize {
    let mut k = 0;
    while k < bs.len() && bs[k] >= 128 {
        k += 1;
    }
    k + 1
}

fn enc_var(mut v: u64) -> Vec<u8> {
    let mut out = vec![];
    loop {
        if v < 128 {
            out.push(v as u8);
            return out;
        }
        out.push(128 + (v % 128) as u8);
        v /= 128;
    }
}

fn codec() -> LengthDelimitedCodecWithCompress {
    LengthDelimitedCodecWithCompress::new(true, LengthDelimitedCodec::builder().max_frame_length(64 << 20).new_codec(), 1.into())
}

fn guarded<T>(f: impl FnOnce() -> T) -> Result<T, String> {
    catch_unwind(AssertUnwindSafe(f)).map_err(|p| {
        p.downcast_ref::<String>().cloned().or_else(|| p.downcast_ref::<&str>().map(|s| s.to_string())).unwrap_or_default()
    })
}

/// classify an output: "err", "raw" (= the body), "ok" (= the message), or "other"
fn classify(out: &Result<Result<Vec<u8>, String>, String>, body: &[u8], msg: &[u8], flag: u8) -> Value {
    match out {
        Err(p) => json!({"class": "panic", "detail": p}),
        Ok(Err(e)) => json!({"class": "err", "detail": e}),
        Ok(Ok(o)) => {
            let class = if flag & 0x80 == 0 {
                if o.as_slice() == body { "raw" } else { "other" }
            } else if o.as_slice() == msg { "ok" } else { "other" };
            json!({"class": class, "len": o.len()})
        }
    }
}

fn main() {
    let args: Vec<String> = std::env::args().collect();
    if args.get(1).map(|s| s.as_str()) != Some("cases") {
        eprintln!("usage: g_frame cases --in <frames.json>");
        std::process::exit(2);
    }
    let path = ckbv::util::opt(&args, "--in").expect("--in");
    let doc: Value = serde_json::from_str(&std::fs::read_to_string(path).unwrap()).unwrap();
    let stdout = std::io::stdout();
    let mut n_cases = 0;
    let mut all: Vec<(Value, &str)> = vec![];
    for c in doc["snappy"].as_array().unwrap() {
        all.push((c.clone(), "snappy"));
    }
    for c in doc["raw"].as_array().unwrap() {
        all.push((c.clone(), "raw"));
    }
    for (c, kind) in all {
        let flag = c["flag"].as_u64().unwrap() as u8;
        let n = c["n"].as_u64().unwrap() as usize;
        let tamper = c["tamper"].as_str().unwrap();
        let msg = message(n);
        let body: Vec<u8> = if kind == "raw" {
            msg.clone()
        } else {
            let stream = snap::raw::Encoder::new().compress_vec(&msg).expect("snappy encoder");
            let k = varint_len(&stream);
            let rest = &stream[k..];
            let max_len: u64 = 1 << 23;
            match tamper {
                "none" => stream.clone(),
                "plus1" => [enc_var(n as u64 + 1), rest.to_vec()].concat(),
                "minus1" => [enc_var(n as u64 - 1), rest.to_vec()].concat(),
                "over" => [enc_var(max_len + 1), rest.to_vec()].concat(),
                "wayover" => [vec![128, 128, 128, 128, 15], rest.to_vec()].concat(),
                "unterminated" => vec![128, 128],
                "toolong" => [vec![128u8; 11], rest.to_vec()].concat(),
                "cutafterpreamble" => stream[..k].to_vec(),
                other => panic!("unknown tamper {other}"),
            }
        };
        let frame: Vec<u8> = std::iter::once(flag).chain(body.iter().cloned()).collect();
        // 1. compress::decompress
        let f1 = frame.clone();
        let r1 = guarded(move || decompress(BytesMut::from(&f1[..])).map(|b| b.to_vec()).map_err(|e| e.to_string()));
        // 2. the codec's decoder: 4-byte big-endian length + frame
        let f2 = frame.clone();
        let r2 = guarded(move || {
            let mut wire = BytesMut::new();
            wire.extend_from_slice(&(f2.len() as u32).to_be_bytes());
            wire.extend_from_slice(&f2);
            match codec().decode(&mut wire) {
                Ok(Some(d)) => Ok(d.to_vec()),
                Ok(None) => Err("incomplete".to_string()),
                Err(e) => Err(e.to_string()),
            }
        });
        let rec = json!({"case": c, "kind": kind, "frame_len": frame.len(),
                         "decompress": classify(&r1, &body, &msg, flag), "codec": classify(&r2, &body, &msg, flag)});
        let mut o = stdout.lock();
        writeln!(o, "{}", rec).unwrap();
        n_cases += 1;
    }
    // sender side: compress() and the codec's encoder; round trips
    let mut n_sender = 0;
    for s in doc["sender"].as_array().unwrap() {
        let n = s["len"].as_u64().unwrap() as usize;
        let msg = message(n);
        let m1 = msg.clone();
        let r = guarded(move || {
            let framed = compress(Bytes::from(m1.clone()));
            let flag = framed.first().copied().unwrap_or(0xEE);
            let back = decompress(BytesMut::from(&framed[..])).map(|b| b.to_vec()).map_err(|e| e.to_string());
            (flag, back == Ok(m1))
        });
        let m2 = msg.clone();
        let r2 = guarded(move || {
            let mut wire = BytesMut::new();
            codec().encode(Bytes::from(m2.clone()), &mut wire).map_err(|e| e.to_string())?;
            let flag = wire[4];
            let back = codec().decode(&mut wire).map_err(|e| e.to_string())?.map(|d| d.to_vec());
            Ok::<(u8, bool), String>((flag, back == Some(m2)))
        });
        let rec = json!({"sender": s, "compress": match r { Ok((f, rt)) => json!({"flag": f, "round_trip": rt}), Err(p) => json!({"panic": p}) },
                         "codec": match r2 { Ok(Ok((f, rt))) => json!({"flag": f, "round_trip": rt}), Ok(Err(e)) => json!({"err": e}), Err(p) => json!({"panic": p}) }});
        let mut o = stdout.lock();
        writeln!(o, "{}", rec).unwrap();
        n_sender += 1;
    }
    println!("{}", json!({"summary": {"cases": n_cases, "sender": n_sender}}));
    std::io::stdout().flush().unwrap();
}
