//! C10 — binding of spec/Freeze.tla to Shared::freeze / wipe_out_frozen_data / ChainStore getters.
//!
//! `c10 scenario --seed S --dir <scratch> [--max-points N]` runs one seeded history end to end and prints ndjson:
//!   * a chain (3..5-block epochs, txs proposed/committed, uncles, blocks with/without extension, side-chain blocks
//!     at heights that become frozen, some arriving late) is generated once (`child gen`);
//!   * node F (freezer enabled, persistent dir) and reference node K (freezer disabled = never freezes: the
//!     configuration axis and the BASELINE) are fed the same blocks by `child run`; one freeze pass is run through
//!     the hook `Shared::verif_freeze_once()`; the full query vector of F is compared with K's
//!       (a) right after the pass with warm caches, (b) through a fresh store handle with all cache sizes 0,
//!       (c) after a restart, (d) after an abort at every announced step of the pass (VERIF_FREEZE_CRASH_AT),
//!       optionally followed by a power-loss cut of the unsynced freezer tail, then after the next pass,
//!       (e) with the freezer disabled on a copy of the directory (only what the kv store must still answer);
//!   * the steps the real code announced (hook events) plus raw row observations are written as a trace for
//!     Trace_Freeze.tla.
//! The python side (checks/c10.py) turns `diff` lines into violations / known findings and validates the trace.
use ckb_app_config::StoreConfig;
use ckb_db_schema::{
    COLUMN_BLOCK_BODY, COLUMN_BLOCK_EXTENSION, COLUMN_BLOCK_HEADER, COLUMN_BLOCK_PROPOSAL_IDS, COLUMN_BLOCK_UNCLE,
    COLUMN_NUMBER_HASH,
};
use ckb_store::{ChainDB, ChainStore};
use ckb_types::core::{BlockView, TransactionView};
use ckb_types::packed::{self, Byte32, OutPoint};
use ckb_types::prelude::*;
use ckbv::fixture::*;
use ckbv::util::{flag, opt, opt_u64, Rng};
use serde_json::{json, Map, Value};
use std::collections::BTreeMap;
use std::hash::Hasher;
use std::panic::{catch_unwind, AssertUnwindSafe};
use std::path::{Path, PathBuf};

// ------------------------------------------------------------------------------------------------
// plan
// ------------------------------------------------------------------------------------------------
#[derive(Clone, Debug, serde::Serialize, serde::Deserialize)]
struct SidePlan {
    h: u64,
    /// inserted together with the blocks of phase `phase` (0 = initial chain, j = before pass j+1 … )
    phase: usize,
    /// included as an uncle by main-chain block h+1
    uncle: bool,
    /// child of the side block of height h-1 (a two-block side branch)
    on_side: bool,
}
#[derive(Clone, Debug, serde::Serialize, serde::Deserialize)]
struct Plan {
    seed: u64,
    epoch_len: u64,
    testnet: bool,
    /// tip height when pass j runs (tips[0] = initial chain)
    tips: Vec<u64>,
    limit: u64,
    sides: Vec<SidePlan>,
    noext: Vec<u64>,
    /// (propose height, commit height, input: genesis cell index or -(k+1) = output 0 of tx k)
    txs: Vec<(u64, u64, i64)>,
}

fn make_plan(seed: u64, force_limit: Option<u64>) -> Plan {
    let mut r = Rng::new(seed ^ 0xC10);
    // seeds ending in 777: a LONG chain (epochs of about 90 blocks, tip near 300): the frozen range and the blocks above it
    // straddle number 256, where the byte order of the store's little-endian number-prefixed keys stops being numeric order
    let long = seed % 1000 == 777;
    let l = if long { r.range(86, 96) } else { r.range(3, 5) };
    let passes = r.range(2, 3) as usize;
    // now and then the first pass finds the chain too short (epoch 2): it must idle
    let mut tips = vec![if long { 3 * l + 12 + r.below(30) } else if r.chance(1, 6) { 2 * l + r.below(l) } else { 3 * l + r.below(l) }];
    for _ in 1..passes {
        let t = *tips.last().unwrap();
        tips.push(t + r.below(l + 2));
    }
    let max_tip = *tips.last().unwrap();
    let limit = force_limit.unwrap_or_else(|| if long || r.chance(1, 3) { 30_000 } else { r.range(2, 3) });
    let testnet = r.chance(1, 2);
    let noext: Vec<u64> = if testnet { (1..=max_tip).filter(|_| r.chance(1, 2)).collect() } else { vec![] };
    // side blocks: mostly at heights that become frozen
    let bound = (max_tip / l - 1) * l - 1; // ancient bound at the last pass
    let mut sides: Vec<SidePlan> = vec![];
    let n_sides = r.range(2, 4);
    for _ in 0..n_sides {
        let h = if r.chance(4, 5) { r.range(1, bound.max(2) - 1) } else { r.range(1, tips[0]) };
        if sides.iter().any(|s| s.h == h) {
            continue;
        }
        let phase = if r.chance(1, 3) { r.range(1, passes as u64 - 1) as usize } else { 0 };
        // an uncle must be in the same epoch as the including block and is only possible when the side block exists first
        let uncle = phase == 0 && (h + 1) % l != 0 && h + 1 <= max_tip && r.chance(1, 2);
        sides.push(SidePlan { h, phase, uncle, on_side: false });
    }
    // maybe extend one side block into a two-block branch (never across an epoch boundary: that would trip F3 of C02)
    if let Some(s) = sides.iter().find(|s| !s.uncle && (s.h + 1) % l != 0 && s.h + 1 <= tips[0]).cloned() {
        if r.chance(1, 2) && !sides.iter().any(|x| x.h == s.h + 1) {
            sides.push(SidePlan { h: s.h + 1, phase: s.phase, uncle: false, on_side: true });
        }
    }
    sides.sort_by_key(|s| s.h);
    let mut txs = vec![];
    let n_gen = r.range(3, 6);
    for i in 0..n_gen {
        let p = r.range(1, max_tip.saturating_sub(3).max(1));
        txs.push((p, p + 2 + r.below(2), i as i64));
    }
    for k in 0..2usize {
        let (_, c, _) = txs[k];
        if c + 3 <= max_tip {
            let p = c + r.below(max_tip - c - 2);
            let p = p.max(c); // proposed no earlier than the parent's commit block, committed later
            txs.push((p, p + 2, -(k as i64 + 1)));
        }
    }
    Plan { seed, epoch_len: l, testnet, tips, limit, sides, noext, txs }
}

fn plan_consensus(p: &Plan) -> ckb_chain_spec::consensus::Consensus {
    let params = Params { epoch_len: p.epoch_len, window: (2, 4), genesis_cells: 8, ..Default::default() };
    let mut c = consensus(&params);
    if p.testnet {
        // rfc0044 (mandatory chain-root extension) is then inactive: blocks with and without an extension are valid
        c.id = "ckb_testnet".to_string();
    }
    c
}

// ------------------------------------------------------------------------------------------------
// block file
// ------------------------------------------------------------------------------------------------
fn write_blocks(path: &Path, blocks: &[(String, BlockView)]) {
    use std::io::Write;
    let mut f = std::fs::File::create(path).unwrap();
    for (label, b) in blocks {
        let d = b.data();
        let raw = d.as_slice();
        f.write_all(&(label.len() as u32).to_le_bytes()).unwrap();
        f.write_all(label.as_bytes()).unwrap();
        f.write_all(&(raw.len() as u32).to_le_bytes()).unwrap();
        f.write_all(raw).unwrap();
    }
}
fn read_blocks(path: &Path) -> Vec<(String, BlockView)> {
    let raw = std::fs::read(path).unwrap();
    let (mut i, mut v) = (0usize, vec![]);
    let rd = |i: &mut usize| -> Vec<u8> {
        let l = u32::from_le_bytes(raw[*i..*i + 4].try_into().unwrap()) as usize;
        *i += 4;
        let s = raw[*i..*i + l].to_vec();
        *i += l;
        s
    };
    while i < raw.len() {
        let label = String::from_utf8(rd(&mut i)).unwrap();
        let b = rd(&mut i);
        v.push((label, packed::Block::from_compatible_slice(&b).unwrap().into_view_without_reset_header()));
    }
    v
}

// ------------------------------------------------------------------------------------------------
// child: gen
// ------------------------------------------------------------------------------------------------
fn strip_ext(b: BlockView) -> BlockView {
    b.as_advanced_builder().extension(None).build()
}

fn gen_chain(dir: &Path) {
    let plan: Plan = serde_json::from_str(&std::fs::read_to_string(dir.join("plan.json")).unwrap()).unwrap();
    let c = plan_consensus(&plan);
    let g = Node::start(&NodeCfg { assembler: false, ..NodeCfg::temp(&c) });
    let max_tip = *plan.tips.last().unwrap();
    let mut txv: Vec<TransactionView> = vec![];
    for (k, (_, _, src)) in plan.txs.iter().enumerate() {
        let cap = 50_000 * 100_000_000u64;
        let t = if *src >= 0 {
            spend(&c, &[genesis_cell(&c, *src as usize)], cap, 2, 1000 + k as u64, 0)
        } else {
            let parent = &txv[(-*src - 1) as usize];
            let pc: u64 = parent.outputs().get(0).unwrap().capacity().unpack();
            spend(&c, &[OutPoint::new(parent.hash(), 0)], pc, 1, 700, 0)
        };
        txv.push(t);
    }
    let mut out: Vec<(String, BlockView)> = vec![];
    let mut main: Vec<BlockView> = vec![];
    let mut side_blocks: BTreeMap<u64, BlockView> = BTreeMap::new();
    for h in 1..=max_tip {
        let mut spec = BlockSpec { nonce: h, ..Default::default() };
        for (k, (p, cm, _)) in plan.txs.iter().enumerate() {
            if *p == h {
                spec.proposals.push(txv[k].proposal_short_id());
            }
            if *cm == h {
                spec.commits.push(txv[k].clone());
            }
        }
        if let Some(s) = plan.sides.iter().find(|s| s.uncle && s.h + 1 == h) {
            spec.uncles.push(side_blocks[&s.h].as_uncle());
        }
        let mut b = assemble(&g, &spec).unwrap_or_else(|e| panic!("assemble main {h}: {e}"));
        if plan.noext.contains(&h) {
            b = strip_ext(b);
        }
        g.process(&b).unwrap_or_else(|e| panic!("generator rejects main {h}: {e}"));
        main.push(b.clone());
        out.push((format!("m{h}"), b));
        // side block of this height: sibling of main h (or child of the side block below)
        if let Some(s) = plan.sides.iter().find(|s| s.h == h) {
            let mut anc: Vec<BlockView> = main[..(h as usize - 1)].to_vec();
            if s.on_side {
                anc.pop();
                anc.push(side_blocks[&(h - 1)].clone());
            }
            let m = builder_node(&c, &anc);
            let mut sb = assemble(&m, &BlockSpec { nonce: 1000 + h, ..Default::default() }).unwrap();
            if plan.noext.contains(&h) {
                sb = strip_ext(sb);
            }
            m.process(&sb).unwrap_or_else(|e| panic!("builder rejects side {h}: {e}"));
            side_blocks.insert(h, sb.clone());
            out.push((format!("s{h}"), sb));
        }
    }
    write_blocks(&dir.join("blocks.bin"), &out);
    println!("{}", json!({"gen": {"blocks": out.len(), "tip": g.tip().0}}));
}

// ------------------------------------------------------------------------------------------------
// observations
// ------------------------------------------------------------------------------------------------
fn dig(bytes: &[u8]) -> String {
    let mut h = std::collections::hash_map::DefaultHasher::new();
    h.write(bytes);
    format!("{}:{:012x}", bytes.len(), h.finish() & 0xffff_ffff_ffff)
}
fn q(f: impl FnOnce() -> String) -> String {
    match catch_unwind(AssertUnwindSafe(f)) {
        Ok(s) => s,
        Err(_) => "PANIC".to_string(),
    }
}
fn opt_s<T>(o: Option<T>, f: impl FnOnce(T) -> String) -> String {
    match o {
        Some(x) => format!("Some({})", f(x)),
        None => "None".to_string(),
    }
}

/// every observation point of the property on one block hash
fn block_answers<S: ChainStore>(st: &S, label: &str, h: &Byte32, out: &mut BTreeMap<String, String>) {
    let mut put = |g: &str, v: String| {
        out.insert(format!("{g}|{label}"), v);
    };
    put("get_block", q(|| opt_s(st.get_block(h), |b| format!("{:x}/{}", b.hash(), dig(b.data().as_slice())))));
    put("get_packed_block", q(|| opt_s(st.get_packed_block(h), |b| dig(b.as_slice()))));
    put("get_block_header", q(|| opt_s(st.get_block_header(h), |x| format!("{:x}/{}", x.hash(), dig(x.data().as_slice())))));
    put("get_packed_block_header", q(|| opt_s(st.get_packed_block_header(h), |x| dig(x.as_slice()))));
    put(
        "get_block_body",
        q(|| {
            let v = st.get_block_body(h);
            format!("{}[{}]", v.len(), v.iter().map(|t| dig(t.data().as_slice())).collect::<Vec<_>>().join(","))
        }),
    );
    put(
        "get_block_txs_hashes",
        q(|| {
            let v = st.get_block_txs_hashes(h);
            format!("{}[{}]", v.len(), v.iter().map(|t| dig(t.as_slice())).collect::<Vec<_>>().join(","))
        }),
    );
    put("get_cellbase", q(|| opt_s(st.get_cellbase(h), |t| dig(t.data().as_slice()))));
    put("get_block_uncles", q(|| opt_s(st.get_block_uncles(h), |u| dig(u.data().as_slice()))));
    put("get_block_proposal_txs_ids", q(|| opt_s(st.get_block_proposal_txs_ids(h), |p| dig(p.as_slice()))));
    put("get_block_extension", q(|| opt_s(st.get_block_extension(h), |e| dig(e.as_slice()))));
    put(
        "load_block_extension",
        q(|| {
            use ckb_traits::ExtensionProvider;
            opt_s(st.borrow_as_data_loader().get_block_extension(h), |e| dig(e.as_slice()))
        }),
    );
    put("block_exists", q(|| format!("{}", st.block_exists(h))));
    put("get_block_number", q(|| format!("{:?}", st.get_block_number(h))));
    put("is_main_chain", q(|| format!("{}", st.is_main_chain(h))));
    put("get_block_ext", q(|| opt_s(st.get_block_ext(h), |e| format!("{:?}/{:?}/{}", e.verified, e.cycles, e.txs_fees.len()))));
    put("get_block_epoch", q(|| opt_s(st.get_block_epoch(h), |e| format!("{}", e.number()))));
}

struct World {
    plan: Plan,
    blocks: Vec<(String, BlockView)>,
}
impl World {
    fn load(dir: &Path) -> World {
        let plan: Plan = serde_json::from_str(&std::fs::read_to_string(dir.join("plan.json")).unwrap()).unwrap();
        World { plan, blocks: read_blocks(&dir.join("blocks.bin")) }
    }
    fn get(&self, label: &str) -> &BlockView {
        &self.blocks.iter().find(|(l, _)| l == label).unwrap_or_else(|| panic!("no block {label}")).1
    }
}

/// The full query vector: every block known to the history (main chain up to `tip`, side blocks in `sides`), an
/// unknown hash ("absent"), every transaction of the main chain, every output of those transactions.
fn answers<S: ChainStore>(st: &S, w: &World, tip: u64, sides: &[u64]) -> BTreeMap<String, String> {
    let mut out = BTreeMap::new();
    let c = plan_consensus(&w.plan);
    let genesis = c.genesis_block().clone();
    let tip_hash = if tip == 0 { genesis.hash() } else { w.get(&format!("m{tip}")).hash() };
    let mut mains: Vec<(String, BlockView)> = vec![("m0".to_string(), genesis)];
    for h in 1..=tip {
        mains.push((format!("m{h}"), w.get(&format!("m{h}")).clone()));
    }
    for (label, b) in &mains {
        let hash = b.hash();
        block_answers(st, label, &hash, &mut out);
        let n = b.number();
        out.insert(format!("get_block_hash|{label}"), q(|| opt_s(st.get_block_hash(n), |x| format!("{:x}", x))));
        out.insert(
            format!("get_ancestor|{label}"),
            q(|| opt_s(st.get_ancestor(&tip_hash, n), |x| format!("{:x}", x.hash()))),
        );
        for (i, tx) in b.transactions().iter().enumerate() {
            let th = tx.hash();
            let tl = format!("tx{}.{}", n, i);
            out.insert(
                format!("get_transaction|{tl}"),
                q(|| opt_s(st.get_transaction(&th), |(t, bh)| format!("{:x}/{}", bh, dig(t.data().as_slice())))),
            );
            out.insert(
                format!("get_transaction_info|{tl}"),
                q(|| opt_s(st.get_transaction_info(&th), |i| format!("{:x}/{}/{}/{}", i.block_hash, i.block_number, i.block_epoch.full_value(), i.index))),
            );
            out.insert(
                format!("get_transaction_with_info|{tl}"),
                q(|| opt_s(st.get_transaction_with_info(&th), |(t, i)| format!("{}/{}/{}", dig(t.data().as_slice()), i.block_number, i.index))),
            );
            out.insert(format!("transaction_exists|{tl}"), q(|| format!("{}", st.transaction_exists(&th))));
            for o in 0..tx.outputs().len() {
                let op = OutPoint::new(th.clone(), o as u32);
                let cl = format!("cell{}.{}.{}", n, i, o);
                out.insert(
                    format!("get_cell|{cl}"),
                    q(|| {
                        opt_s(st.get_cell(&op), |m| {
                            let ti = m.transaction_info.unwrap();
                            format!("{}/{}/{:x}/{}/{}", dig(m.cell_output.as_slice()), m.data_bytes, ti.block_hash, ti.block_number, ti.index)
                        })
                    }),
                );
                out.insert(format!("get_cell_data|{cl}"), q(|| opt_s(st.get_cell_data(&op), |(d, h)| format!("{}/{:x}", dig(&d), h))));
                out.insert(format!("have_cell|{cl}"), q(|| format!("{}", st.have_cell(&op))));
            }
        }
    }
    for h in sides {
        let b = w.get(&format!("s{h}"));
        block_answers(st, &format!("s{h}"), &b.hash(), &mut out);
    }
    let unknown: Byte32 = [0xABu8; 32].pack();
    block_answers(st, "absent", &unknown, &mut out);
    out.insert("tip|chain".into(), q(|| opt_s(st.get_tip_header(), |x| format!("{}/{:x}", x.number(), x.hash()))));
    out.insert("current_epoch|chain".into(), q(|| opt_s(st.get_current_epoch_ext(), |e| format!("{}", e.number()))));
    out
}

/// raw rows of a block, read past every cache: list of the parts that are MISSING
fn missing_rows(db: &ChainDB, b: &BlockView, has_ext: bool) -> Vec<&'static str> {
    let h = b.hash();
    let mut gone = vec![];
    let mut chk = |name: &'static str, present: bool| {
        if !present {
            gone.push(name);
        }
    };
    chk("header", db.get(COLUMN_BLOCK_HEADER, h.as_slice()).is_some());
    chk("uncles", db.get(COLUMN_BLOCK_UNCLE, h.as_slice()).is_some());
    chk("proposals", db.get(COLUMN_BLOCK_PROPOSAL_IDS, h.as_slice()).is_some());
    if has_ext {
        chk("extension", db.get(COLUMN_BLOCK_EXTENSION, h.as_slice()).is_some());
    }
    let nh = packed::NumberHash::new_builder().number(b.number()).block_hash(h.clone()).build();
    chk("numhash", db.get(COLUMN_NUMBER_HASH, nh.as_slice()).is_some());
    let n = b.transactions().len();
    let present = (0..n)
        .filter(|i| {
            let key = packed::TransactionKey::new_builder().block_hash(h.clone()).index(*i as u32).build();
            db.get(COLUMN_BLOCK_BODY, key.as_slice()).is_some()
        })
        .count();
    if present == 0 {
        gone.push("body");
    } else if present < n {
        gone.push("body-partial");
    }
    gone
}

fn gone_rows(db: &ChainDB, w: &World, tip: u64, sides: &[u64]) -> Vec<Value> {
    let mut v = vec![];
    for h in 1..=tip {
        let b = w.get(&format!("m{h}"));
        for p in missing_rows(db, b, b.extension().is_some()) {
            v.push(json!(["m", h, p]));
        }
    }
    for h in sides {
        let b = w.get(&format!("s{h}"));
        for p in missing_rows(db, b, b.extension().is_some()) {
            v.push(json!(["s", h, p]));
        }
    }
    v
}

fn to_json(m: &BTreeMap<String, String>) -> Value {
    Value::Object(m.iter().map(|(k, v)| (k.clone(), Value::String(v.clone()))).collect::<Map<_, _>>())
}

// ------------------------------------------------------------------------------------------------
// child: run  (open F [and K], feed, optionally run one pass, observe)
// ------------------------------------------------------------------------------------------------
fn parse_list(s: Option<&str>) -> Vec<u64> {
    s.map(|x| x.split(',').filter(|y| !y.is_empty()).map(|y| y.parse().unwrap()).collect()).unwrap_or_default()
}

fn feed(n: &Node, w: &World, to: u64, new_sides: &[u64]) -> Result<Vec<String>, String> {
    let mut log = vec![];
    let from = n.tip().0 + 1;
    let mut pending: Vec<u64> = new_sides.to_vec();
    pending.sort();
    for h in from..=to {
        let r = n.process(w.get(&format!("m{h}"))).map_err(|e| format!("main {h}: {e}"))?;
        log.push(format!("m{h}:{r}"));
    }
    for h in pending {
        let r = n.process(w.get(&format!("s{h}"))).map_err(|e| format!("side {h}: {e}"))?;
        log.push(format!("s{h}:{r}"));
    }
    Ok(log)
}

fn child_run(args: &[String]) {
    let ft = ckb_systemtime::faketime();
    ft.set_faketime(GENESIS_TS + 1000 * BLOCK_INTERVAL_MS);
    let dir = PathBuf::from(opt(args, "--dir").expect("--dir"));
    let w = World::load(&dir);
    let c = plan_consensus(&w.plan);
    let node_dir = PathBuf::from(opt(args, "--node").expect("--node"));
    let to = opt_u64(args, "--to", 0);
    let new_sides = parse_list(opt(args, "--new-sides"));
    let all_sides = parse_list(opt(args, "--sides"));
    let nofreezer = flag(args, "--nofreezer");
    let run_pass = flag(args, "--pass");
    let mut res = Map::new();
    let f = match catch_unwind(AssertUnwindSafe(|| Node::start(&NodeCfg { freezer: !nofreezer, assembler: false, ..NodeCfg::at(&c, &node_dir) }))) {
        Ok(n) => n,
        Err(_) => {
            println!("{}", json!({"child": {"open": "PANIC"}}));
            std::process::exit(0);
        }
    };
    res.insert("open".into(), json!("ok"));
    res.insert("fn_open".into(), json!(f.shared.store().freezer().map(|z| z.number())));
    res.insert("tip_open".into(), json!(f.tip().0));
    let to = if to == 0 { f.tip().0 } else { to };
    match feed(&f, &w, to, &new_sides) {
        Ok(log) => res.insert("feed_log".into(), json!(log)),
        Err(e) => res.insert("feed_error".into(), json!(e)),
    };
    if let Some(k) = opt(args, "--ref") {
        let kn = Node::start(&NodeCfg { freezer: false, assembler: false, ..NodeCfg::at(&c, Path::new(k)) });
        if let Err(e) = feed(&kn, &w, to, &new_sides) {
            res.insert("ref_feed_error".into(), json!(e));
        }
        res.insert("ref".into(), to_json(&answers(kn.shared.store(), &w, to, &all_sides)));
    }
    let st = f.shared.store();
    res.insert("tip".into(), json!(f.tip().0));
    res.insert("epoch".into(), json!(f.shared.snapshot().epoch_ext().number()));
    res.insert("pre".into(), to_json(&answers(st, &w, to, &all_sides)));
    res.insert("pre_gone".into(), json!(gone_rows(st, &w, to, &all_sides)));
    if run_pass {
        let r = catch_unwind(AssertUnwindSafe(|| f.shared.verif_freeze_once()));
        res.insert(
            "pass".into(),
            json!(match r {
                Ok(Ok(())) => "ok".to_string(),
                Ok(Err(e)) => format!("err: {e}"),
                Err(_) => "PANIC".to_string(),
            }),
        );
        res.insert("fn".into(), json!(st.freezer().map(|z| z.number())));
        res.insert("warm".into(), to_json(&answers(st, &w, to, &all_sides)));
        let snap = f.shared.cloned_snapshot();
        res.insert("warm_snapshot".into(), to_json(&answers(snap.as_ref(), &w, to, &all_sides)));
        if let Some(z) = st.freezer() {
            let zero = StoreConfig {
                header_cache_size: 0,
                cell_data_cache_size: 0,
                block_proposals_cache_size: 0,
                block_tx_hashes_cache_size: 0,
                block_uncles_cache_size: 0,
                block_extensions_cache_size: 0,
                freezer_enable: true,
            };
            let fresh = ChainDB::new_with_freezer(st.db().clone(), z.clone(), zero);
            res.insert("fresh".into(), to_json(&answers(&fresh, &w, to, &all_sides)));
        }
        res.insert("gone".into(), json!(gone_rows(st, &w, to, &all_sides)));
    } else {
        res.insert("fn".into(), json!(st.freezer().map(|z| z.number())));
        // the same vector once more: the first round filled the read caches (also with `None`s), the second is served
        // from them
        res.insert("again".into(), to_json(&answers(st, &w, to, &all_sides)));
    }
    println!("{}", json!({"child": Value::Object(res)}));
    use std::io::Write;
    std::io::stdout().flush().unwrap();
    std::process::exit(0);
}

// ------------------------------------------------------------------------------------------------
// orchestrator
// ------------------------------------------------------------------------------------------------
fn copy_dir(from: &Path, to: &Path) {
    let _ = std::fs::remove_dir_all(to);
    std::fs::create_dir_all(to).unwrap();
    for e in std::fs::read_dir(from).unwrap() {
        let e = e.unwrap();
        let p = e.path();
        let t = to.join(e.file_name());
        if p.is_dir() {
            copy_dir(&p, &t);
        } else {
            std::fs::copy(&p, &t).unwrap();
        }
    }
}

struct ChildOut {
    status: String,
    v: Option<Value>,
    tail: String,
}
fn spawn(args: &[String], env: &[(&str, String)]) -> ChildOut {
    let exe = std::env::current_exe().unwrap();
    let mut cmd = std::process::Command::new(exe);
    cmd.args(args).stderr(std::process::Stdio::piped()).stdout(std::process::Stdio::piped());
    cmd.env_remove("VERIF_FREEZE_CRASH_AT").env_remove("VERIF_FREEZE_EVENTS").env_remove("VERIF_FREEZE_LIMIT");
    for (k, v) in env {
        cmd.env(k, v);
    }
    let o = cmd.output().expect("spawn child");
    let out = String::from_utf8_lossy(&o.stdout).to_string();
    let err = String::from_utf8_lossy(&o.stderr).to_string();
    let mut v = None;
    for line in out.lines() {
        if line.starts_with('{') {
            if let Ok(x) = serde_json::from_str::<Value>(line) {
                v = Some(x);
            }
        }
    }
    use std::os::unix::process::ExitStatusExt;
    let status = match (o.status.code(), o.status.signal()) {
        (Some(c), _) => format!("exit{c}"),
        (None, Some(s)) => format!("signal{s}"),
        _ => "?".into(),
    };
    let tail: String = err.lines().rev().take(6).collect::<Vec<_>>().into_iter().rev().collect::<Vec<_>>().join(" | ");
    ChildOut { status, v, tail }
}

fn sargs(v: &[&str]) -> Vec<String> {
    v.iter().map(|s| s.to_string()).collect()
}
fn join(v: &[u64]) -> String {
    v.iter().map(|x| x.to_string()).collect::<Vec<_>>().join(",")
}

fn class_of(target: &str, fnum: u64) -> String {
    let num = |s: &str| s.split('.').next().unwrap().parse::<u64>().unwrap_or(0);
    if target == "absent" {
        "unknown-hash".into()
    } else if target == "chain" {
        "chain".into()
    } else if let Some(r) = target.strip_prefix("tx") {
        if num(r) >= 1 && num(r) < fnum { "tx-in-frozen-block".into() } else { "tx-in-unfrozen-block".into() }
    } else if let Some(r) = target.strip_prefix("cell") {
        if num(r) >= 1 && num(r) < fnum { "cell-created-in-frozen-block".into() } else { "cell-created-in-unfrozen-block".into() }
    } else if let Some(r) = target.strip_prefix('m') {
        if num(r) >= 1 && num(r) < fnum { "frozen-main-chain-block".into() } else { "unfrozen-main-chain-block".into() }
    } else if let Some(r) = target.strip_prefix('s') {
        if num(r) < fnum { "side-hash-at-frozen-height".into() } else { "side-hash-at-unfrozen-height".into() }
    } else {
        "other".into()
    }
}

/// Compare an answer vector of F with the reference (never-frozen node K).
///  * main-chain blocks, transactions, cells, chain: must equal the reference;
///  * side-chain block `s<h>`: all rows present -> the reference answers; all rows gone -> the answers an unknown hash
///    gets; anything else is reported (`side-partial`);
///  * `kv_only`: the node runs with the freezer disabled on a directory that has frozen blocks: only answers that do not
///    need the freezer are demanded (the property is silent about the rest).
#[allow(clippy::too_many_arguments)]
fn compare(scn: u64, phase: &str, got: &Value, refv: &Value, gone: &[Value], fnum: u64, kv_only: bool, stats: &mut Stats) {
    let (Some(got), Some(refv)) = (got.as_object(), refv.as_object()) else {
        println!("{}", json!({"diff": {"scenario": scn, "phase": phase, "getter": "answers", "class": "missing-answer-vector", "target": "-", "expected": "-", "got": "-"}}));
        return;
    };
    let side_gone = |h: &str| -> usize { gone.iter().filter(|g| g[0] == "s" && g[1].as_u64().map(|x| x.to_string()) == Some(h.to_string())).count() };
    let kv_getters = ["get_block_header", "get_packed_block_header", "block_exists", "get_block_number", "is_main_chain", "get_block_ext", "get_block_epoch", "get_block_hash", "get_ancestor", "get_transaction_info", "transaction_exists", "get_cell", "get_cell_data", "have_cell", "tip", "current_epoch"];
    for (key, val) in got {
        let (getter, target) = key.split_once('|').unwrap();
        let class = class_of(target, fnum);
        // a snapshot taken before the pass still sees the rows of side-chain blocks removed since (the property is
        // silent about views of removed blocks): through the snapshot only main-chain data is compared
        if phase.ends_with("warm-snapshot") && class.starts_with("side-hash") {
            continue;
        }
        let expected = refv.get(key).cloned().unwrap_or(Value::Null);
        // a removed side-chain block may answer like an unknown hash (or still like itself where rows that are not part
        // of the block survive / a cache remembers it: C14's business) - but never with anything else
        let mut alt: Option<Value> = None;
        if let Some(h) = target.strip_prefix('s') {
            if side_gone(h) > 0 {
                alt = got.get(&format!("{getter}|absent")).cloned();
                stats.side_removed_compared += 1;
            }
        }
        if kv_only && class.contains("frozen") && !class.contains("unfrozen") && !kv_getters.contains(&getter) {
            stats.skipped_kv_only += 1;
            continue;
        }
        stats.compared += 1;
        if class.contains("frozen") && !class.contains("unfrozen") {
            stats.compared_frozen += 1;
        }
        if *val != expected && Some(val) != alt.as_ref() {
            stats.diffs += 1;
            println!(
                "{}",
                json!({"diff": {"scenario": scn, "phase": phase, "getter": getter, "target": target, "class": class, "expected": expected, "got": val, "fn": fnum}})
            );
        }
    }
}

#[derive(Default)]
struct Stats {
    compared: u64,
    compared_frozen: u64,
    diffs: u64,
    side_removed_compared: u64,
    skipped_kv_only: u64,
    children: u64,
    crash_points: u64,
    power_cuts: u64,
    power_cuts_lost_items: u64,
    blocks_frozen: u64,
    side_wiped: u64,
    passes: u64,
    late_sides_at_frozen_height: u64,
}

fn read_events(path: &Path) -> Vec<Value> {
    std::fs::read_to_string(path).unwrap_or_default().lines().filter_map(|l| serde_json::from_str(l).ok()).collect()
}

/// hook announcements of one pass -> completed specification actions
fn actions_of(points: &[Value], completed: bool) -> Vec<Value> {
    let mut ev = vec![];
    let n = points.len();
    for (i, p) in points.iter().enumerate() {
        let tag = p["tag"].as_str().unwrap_or("");
        let crashed_here = p["crash"].as_bool().unwrap_or(false);
        // an announcement means: everything before this step is done
        match tag {
            "threshold" => ev.push(json!({"ev": "Threshold", "thr": p["n"]})),
            "append" | "sync" => {
                if i > 0 && points[i - 1]["tag"] == "append-index" {
                    ev.push(json!({"ev": "FreezeAppend", "n": points[i - 1]["n"]}));
                }
                if tag == "sync" {
                    ev.push(json!({"ev": "AppendDone"}));
                }
            }
            "wipe-bodies" => ev.push(json!({"ev": "FreezerSync"})),
            "wipe-side" => ev.push(json!({"ev": "WipeBodies"})),
            "done" => {
                ev.push(json!({"ev": "WipeSide"}));
            }
            _ => {}
        }
        if crashed_here {
            break;
        }
        let _ = (n, completed);
    }
    ev
}

fn file_len(p: &Path) -> u64 {
    std::fs::metadata(p).map(|m| m.len()).unwrap_or(0)
}

fn scenario(args: &[String]) {
    let seed = opt_u64(args, "--seed", 1);
    // every directory of the scenario lives under $TMPDIR (the driver gives each invocation its own and removes it)
    let base = opt(args, "--dir").map(PathBuf::from).unwrap_or_else(|| std::env::temp_dir().join(format!("c10-scn-{}-{}", std::process::id(), seed)));
    let max_points = opt_u64(args, "--max-points", 1000) as usize;
    let force_limit = opt(args, "--limit").and_then(|s| s.parse().ok());
    let _ = std::fs::remove_dir_all(&base);
    std::fs::create_dir_all(&base).unwrap();
    let plan = make_plan(seed, force_limit);
    std::fs::write(base.join("plan.json"), serde_json::to_string(&plan).unwrap()).unwrap();
    let mut rng = Rng::new(seed ^ 0x5EED);
    let mut st = Stats::default();
    let bs = base.to_str().unwrap().to_string();
    let g = spawn(&sargs(&["child-gen", "--dir", &bs]), &[]);
    st.children += 1;
    if g.v.is_none() || g.status != "exit0" {
        println!("{}", json!({"tool_error": format!("gen failed: {} {}", g.status, g.tail), "scenario": seed, "plan": plan}));
        return;
    }
    let d = base.join("F");
    let dk = base.join("K");
    std::fs::create_dir_all(&d).unwrap();
    std::fs::create_dir_all(&dk).unwrap();
    let (ds, dks) = (d.to_str().unwrap().to_string(), dk.to_str().unwrap().to_string());
    let limit_env = ("VERIF_FREEZE_LIMIT", plan.limit.to_string());
    let mut trace: Vec<Value> = vec![];
    let mut sides_present: Vec<u64> = vec![];
    let mut tip_prev = 0u64;
    let mut fn_prev = 1u64;
    let world_sides = |phase: usize| -> Vec<u64> { plan.sides.iter().filter(|s| s.phase == phase).map(|s| s.h).collect() };
    let mut ok = true;
    for (j, &tip) in plan.tips.iter().enumerate() {
        // ---- phase j: feed blocks up to tips[j] and the side blocks of this phase, then pass j+1 ----
        let new_sides = world_sides(j);
        for h in &new_sides {
            if *h < fn_prev {
                st.late_sides_at_frozen_height += 1;
            }
        }
        let mut all_sides = sides_present.clone();
        all_sides.extend(new_sides.iter().cloned());
        all_sides.sort();
        // directory as it is before this phase (for the crash enumeration)
        let pre = base.join(format!("pre{j}"));
        copy_dir(&d, &pre);
        let events = base.join(format!("events{j}.ndjson"));
        let _ = std::fs::remove_file(&events);
        let run_args = |node: &str, refd: Option<&str>, pass: bool| -> Vec<String> {
            let mut a = sargs(&["child-run", "--dir", &bs, "--node", node, "--to", &tip.to_string(), "--new-sides", &join(&new_sides), "--sides", &join(&all_sides)]);
            if let Some(r) = refd {
                a.push("--ref".into());
                a.push(r.into());
            }
            if pass {
                a.push("--pass".into());
            }
            a
        };
        let r = spawn(&run_args(&ds, Some(&dks), true), &[limit_env.clone(), ("VERIF_FREEZE_EVENTS", events.to_str().unwrap().to_string())]);
        st.children += 1;
        let Some(v) = r.v.as_ref().map(|v| v["child"].clone()) else {
            println!("{}", json!({"tool_error": format!("main-line child failed: {} {}", r.status, r.tail), "scenario": seed, "plan": plan}));
            return;
        };
        if v.get("feed_error").is_some() || v.get("ref_feed_error").is_some() {
            println!("{}", json!({"tool_error": format!("feed failed: {:?} {:?}", v.get("feed_error"), v.get("ref_feed_error")), "scenario": seed, "plan": plan}));
            return;
        }
        for _ in tip_prev..tip {
            trace.push(json!({"ev": "Grow"}));
        }
        if j == 0 {
            // the initial chain is the specification's Init (InitTip = tips[0], phase-0 sides present)
            trace.clear();
        } else {
            // every child is a new process on the same directory: the previous one ended without a shutdown
            let at = trace.len() - (tip - tip_prev) as usize;
            trace.insert(at, json!({"ev": "Crash", "keep": fn_prev - 1, "power": false}));
            trace.insert(at + 1, json!({"ev": "Restart", "fn": fn_prev}));
            for h in &new_sides {
                trace.push(json!({"ev": "InsertSide", "h": h}));
            }
        }
        let refv = v["ref"].clone();
        let fn_pre = fn_prev;
        // before the pass the node (with whatever it froze earlier) answers like the reference
        compare(seed, &format!("pass{}/before", j + 1), &v["pre"], &refv, v["pre_gone"].as_array().unwrap(), fn_pre, false, &mut st);
        trace.push(json!({"ev": "Obs", "fn": fn_pre, "gone": v["pre_gone"]}));
        let prefix_len = trace.len();
        let points = read_events(&events);
        let pass_result = v["pass"].as_str().unwrap_or("?").to_string();
        if pass_result != "ok" {
            println!("{}", json!({"diff": {"scenario": seed, "phase": format!("pass{}", j + 1), "getter": "verif_freeze_once", "class": "pass-failed", "target": "-", "expected": "ok", "got": pass_result}}));
            ok = false;
        }
        let fnum = v["fn"].as_u64().unwrap_or(0);
        trace.extend(actions_of(&points, true));
        let gone: Vec<Value> = v["gone"].as_array().cloned().unwrap_or_default();
        trace.push(json!({"ev": "Obs", "fn": fnum, "gone": gone}));
        st.passes += 1;
        st.blocks_frozen += fnum.saturating_sub(fn_pre);
        let wiped_now: Vec<u64> = all_sides.iter().cloned().filter(|h| gone.iter().any(|g| g[0] == "s" && g[1].as_u64() == Some(*h))).collect();
        st.side_wiped = st.side_wiped.max(wiped_now.len() as u64);
        compare(seed, &format!("pass{}/warm", j + 1), &v["warm"], &refv, &gone, fnum, false, &mut st);
        compare(seed, &format!("pass{}/warm-snapshot", j + 1), &v["warm_snapshot"], &refv, &gone, fnum, false, &mut st);
        compare(seed, &format!("pass{}/fresh-handle", j + 1), &v["fresh"], &refv, &gone, fnum, false, &mut st);
        println!("{}", json!({"pass": {"scenario": seed, "pass": j + 1, "tip": tip, "epoch": v["epoch"], "fn_before": fn_pre, "fn_after": fnum, "points": points.len(), "sides": all_sides, "side_wiped": wiped_now, "result": pass_result, "feed_log": v["feed_log"]}}));
        // ---- (c) restart, (e) freezer disabled on a copy ----
        let r2 = spawn(&sargs(&["child-run", "--dir", &bs, "--node", &ds, "--sides", &join(&all_sides)]), &[]);
        st.children += 1;
        match r2.v.as_ref().map(|v| v["child"].clone()) {
            Some(v2) if v2["open"] == "ok" => {
                trace.push(json!({"ev": "Crash", "keep": fnum - 1, "power": false}));
                trace.push(json!({"ev": "Restart", "fn": v2["fn"]}));
                trace.push(json!({"ev": "Obs", "fn": v2["fn"], "gone": v2["pre_gone"]}));
                compare(seed, &format!("pass{}/restart", j + 1), &v2["pre"], &refv, v2["pre_gone"].as_array().unwrap(), fnum, false, &mut st);
                compare(seed, &format!("pass{}/restart-second-query", j + 1), &v2["again"], &refv, v2["pre_gone"].as_array().unwrap(), fnum, false, &mut st);
            }
            _ => println!("{}", json!({"diff": {"scenario": seed, "phase": format!("pass{}/restart", j + 1), "getter": "open", "class": "reopen-failed", "target": "-", "expected": "ok", "got": format!("{} {}", r2.status, r2.tail)}})),
        }
        let e_dir = base.join("E");
        copy_dir(&d, &e_dir);
        let r3 = spawn(&sargs(&["child-run", "--dir", &bs, "--node", e_dir.to_str().unwrap(), "--sides", &join(&all_sides), "--nofreezer"]), &[]);
        st.children += 1;
        match r3.v.as_ref().map(|v| v["child"].clone()) {
            Some(v3) if v3["open"] == "ok" => compare(seed, &format!("pass{}/freezer-disabled", j + 1), &v3["pre"], &refv, v3["pre_gone"].as_array().unwrap(), fnum, true, &mut st),
            _ => println!("{}", json!({"diff": {"scenario": seed, "phase": format!("pass{}/freezer-disabled", j + 1), "getter": "open", "class": "reopen-failed", "target": "-", "expected": "ok", "got": format!("{} {}", r3.status, r3.tail)}})),
        }
        let _ = std::fs::remove_dir_all(&e_dir);
        // ---- (d) crash at every announced step of this pass ----
        let mut ks: Vec<usize> = (1..=points.len()).collect();
        while ks.len() > max_points {
            let i = rng.below(ks.len() as u64) as usize;
            ks.remove(i);
        }
        // a freshly created freezer has synced its 12-byte sentinel entry
        let idx_pre = file_len(&pre.join("ancient").join("INDEX")).max(12);
        let head_pre = file_len(&pre.join("ancient").join("blk000000"));
        for k in ks {
            st.crash_points += 1;
            let tag = points[k - 1]["tag"].as_str().unwrap_or("?").to_string();
            let cd = base.join("C");
            copy_dir(&pre, &cd);
            let cds = cd.to_str().unwrap().to_string();
            let cev = base.join("cevents.ndjson");
            let _ = std::fs::remove_file(&cev);
            let rc = spawn(&run_args(&cds, None, true), &[limit_env.clone(), ("VERIF_FREEZE_EVENTS", cev.to_str().unwrap().to_string()), ("VERIF_FREEZE_CRASH_AT", k.to_string())]);
            st.children += 1;
            if rc.status != "signal6" {
                println!("{}", json!({"tool_error": format!("crash child at point {k} ({tag}) did not abort: {} {}", rc.status, rc.tail), "scenario": seed, "plan": plan}));
                return;
            }
            let cpoints = read_events(&cev);
            let mut ctrace: Vec<Value> = actions_of(&cpoints, false);
            // power loss: the unsynced tail of the freezer files is cut anywhere between synced and written
            let synced = cpoints.iter().any(|p| p["tag"] == "wipe-bodies");
            let mut power = false;
            let (idx_now, head_now) = (file_len(&cd.join("ancient").join("INDEX")), file_len(&cd.join("ancient").join("blk000000")));
            if !synced && (idx_now > idx_pre || head_now > head_pre) && rng.chance(2, 3) {
                power = true;
                st.power_cuts += 1;
                let icut = match rng.below(3) { 0 => idx_pre, 1 => idx_now, _ => rng.range(idx_pre, idx_now) };
                let hcut = match rng.below(3) { 0 => head_pre, 1 => head_now, _ => rng.range(head_pre, head_now) };
                std::fs::OpenOptions::new().write(true).open(cd.join("ancient").join("INDEX")).unwrap().set_len(icut).unwrap();
                if let Ok(f) = std::fs::OpenOptions::new().write(true).open(cd.join("ancient").join("blk000000")) {
                    f.set_len(hcut).unwrap();
                }
            }
            let appended = ctrace.iter().filter(|e| e["ev"] == "FreezeAppend").count() as u64;
            // reopen, observe (cold), then run the next pass to completion and observe again
            let cev2 = base.join("cevents2.ndjson");
            let _ = std::fs::remove_file(&cev2);
            let rr = spawn(&sargs(&["child-run", "--dir", &bs, "--node", &cds, "--sides", &join(&all_sides), "--pass"]), &[limit_env.clone(), ("VERIF_FREEZE_EVENTS", cev2.to_str().unwrap().to_string())]);
            st.children += 1;
            let phase = format!("pass{}/crash@{}:{}{}", j + 1, k, tag, if power { "+powercut" } else { "" });
            match rr.v.as_ref().map(|v| v["child"].clone()) {
                Some(v4) if v4["open"] == "ok" && v4["pass"].is_string() => {
                    let fn_re = v4["fn_open"].as_u64().unwrap_or(0);
                    if fn_re < fn_pre + appended {
                        st.power_cuts_lost_items += 1;
                    }
                    let g4: Vec<Value> = v4["pre_gone"].as_array().cloned().unwrap_or_default();
                    compare(seed, &format!("{phase}/reopened"), &v4["pre"], &refv, &g4, fn_re, false, &mut st);
                    let fn_after = v4["fn"].as_u64().unwrap_or(0);
                    let g5: Vec<Value> = v4["gone"].as_array().cloned().unwrap_or_default();
                    compare(seed, &format!("{phase}/next-pass-warm"), &v4["warm"], &refv, &g5, fn_after, false, &mut st);
                    compare(seed, &format!("{phase}/next-pass-fresh"), &v4["fresh"], &refv, &g5, fn_after, false, &mut st);
                    if v4["pass"] != "ok" {
                        println!("{}", json!({"diff": {"scenario": seed, "phase": phase, "getter": "verif_freeze_once", "class": "next-pass-failed-after-crash", "target": tag, "expected": "ok", "got": v4["pass"]}}));
                    }
                    // "leaves a state from which the next run continues": the next run reaches what the uninterrupted one reached
                    if fn_after < fnum {
                        println!("{}", json!({"diff": {"scenario": seed, "phase": phase, "getter": "freezer.number", "class": "next-run-does-not-continue", "target": tag, "expected": fnum, "got": fn_after}}));
                    }
                    // the crash branch as a trace of its own: prefix of the main trace up to this pass + crash + recovery
                    ctrace.push(json!({"ev": "Crash", "keep": fn_re.saturating_sub(1), "power": false}));
                    ctrace.push(json!({"ev": "Restart", "fn": fn_re}));
                    ctrace.push(json!({"ev": "Obs", "fn": fn_re, "gone": g4}));
                    ctrace.extend(actions_of(&read_events(&cev2), true));
                    ctrace.push(json!({"ev": "Obs", "fn": fn_after, "gone": g5}));
                    println!("{}", json!({"branch": {"scenario": seed, "pass": j + 1, "point": k, "tag": tag, "power": power, "fn_reopened": fn_re, "fn_after_next": fn_after, "prefix": prefix_len, "events": ctrace}}));
                }
                _ => println!("{}", json!({"diff": {"scenario": seed, "phase": phase, "getter": "open", "class": "reopen-failed-after-crash", "target": tag, "expected": "ok", "got": format!("{} {} {:?}", rr.status, rr.tail, rr.v)}})),
            }
            let _ = std::fs::remove_dir_all(&cd);
        }
        sides_present = all_sides;
        tip_prev = tip;
        fn_prev = fnum;
        let _ = std::fs::remove_dir_all(&pre);
    }
    let max_tip = *plan.tips.last().unwrap();
    println!(
        "{}",
        json!({"summary": {"scenario": seed, "ok": ok, "plan": plan, "trace": trace,
            "consts": {"EpochLen": plan.epoch_len, "InitTip": plan.tips[0], "MaxTip": max_tip, "Limit": plan.limit,
                       "SideHeights": plan.sides.iter().map(|s| s.h).collect::<Vec<_>>(),
                       "LateSides": plan.sides.iter().filter(|s| s.phase > 0).map(|s| s.h).collect::<Vec<_>>(),
                       "NoExt": plan.noext},
            "stats": {"compared": st.compared, "compared_frozen": st.compared_frozen, "diffs": st.diffs, "children": st.children,
                      "crash_points": st.crash_points, "power_cuts": st.power_cuts, "power_cuts_lost_items": st.power_cuts_lost_items,
                      "blocks_frozen": st.blocks_frozen, "side_wiped": st.side_wiped, "passes": st.passes,
                      "side_removed_compared": st.side_removed_compared,
                      "skipped_kv_only": st.skipped_kv_only, "late_sides_at_frozen_height": st.late_sides_at_frozen_height}}})
    );
    let _ = std::fs::remove_dir_all(&base);
}

/// `c10 cursor-probe`: the freezer as the node opens it (FreezerFiles::open), appends interleaved with reads of
/// older items - what a `get_block` of a frozen block between two freeze passes (or two appends) does.
fn cursor_probe() {
    let scratch = ckbv::util::Scratch::new("c10cur");
    let item = |i: u64| -> Vec<u8> { (0..(40 + 7 * i)).map(|j| ((i * 31 + j * 7) % 251) as u8).collect() };
    let mut bad: Vec<String> = vec![];
    let r = catch_unwind(AssertUnwindSafe(|| {
        let mut ff = ckb_freezer::FreezerFiles::open(scratch.path().to_path_buf()).unwrap();
        for i in 1..=3u64 {
            ff.append(i, &item(i)).unwrap();
        }
        let first = ff.retrieve(1).unwrap(); // a reader looks at an old item ...
        ff.append(4, &item(4)).unwrap(); // ... and the freeze pass goes on
        ff.sync_all().unwrap();
        let mut bad = vec![];
        if first != Some(item(1)) {
            bad.push("item 1 before the append".to_string());
        }
        for i in 1..=4u64 {
            match ff.retrieve(i) {
                Ok(Some(v)) if v == item(i) => {}
                Ok(other) => bad.push(format!("item {i}: {:?} bytes", other.map(|v| v.len()))),
                Err(e) => bad.push(format!("item {i}: {e}")),
            }
        }
        bad
    }));
    match r {
        Ok(b) => bad.extend(b),
        Err(_) => bad.push("PANIC".into()),
    }
    println!("{}", json!({"cursor_probe": {"ok": bad.is_empty(), "bad": bad}}));
}

fn main() {
    let args: Vec<String> = std::env::args().collect();
    let rest = &args[2.min(args.len())..];
    match args.get(1).map(|s| s.as_str()) {
        Some("scenario") => scenario(rest),
        Some("plan") => println!("{}", serde_json::to_string_pretty(&make_plan(opt_u64(rest, "--seed", 1), None)).unwrap()),
        Some("child-gen") => {
            let ft = ckb_systemtime::faketime();
            ft.set_faketime(GENESIS_TS + 1000 * BLOCK_INTERVAL_MS);
            gen_chain(Path::new(opt(rest, "--dir").expect("--dir")));
            use std::io::Write;
            std::io::stdout().flush().unwrap();
            std::process::exit(0);
        }
        Some("child-run") => child_run(rest),
        Some("cursor-probe") => cursor_probe(),
        _ => {
            eprintln!("usage: c10 scenario|plan|child-gen|child-run ...");
            std::process::exit(2);
        }
    }
}
