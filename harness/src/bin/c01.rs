//! C01 — R binding of spec/ChainCore.tla.
//!
//! `c01 replay --in F`   F: ndjson scenarios {id, n, parent[], work[], ok[], order[]} exported by TLC (every
//!     quiescent state of the exhaustive model carries its tree and delivery order). The tree is concretised as
//!     real blocks (built on a mirror node M by depth-first walk with truncate), delivered to the node under
//!     test N with `asynchronous_process_lonely_block` in the model's order as one burst, and after quiescence
//!     the projection <tip, td, stored, main chain, ext, INVALID, orphans, verdict counts, dropped callbacks> is
//!     printed; the python side checks that it is one of the quiescent states the model allows for exactly
//!     this (tree, order). N and M are reused: both are truncated back to genesis after every scenario.
//!       work w      -> per-block difficulty w * (epoch difficulty); w > 1 is submitted with Switch::DISABLE_EPOCH
//!       bad_ctx     -> DAO field off by one (odd ids) / commitment outside the proposal window (even ids)
//!       bad_nc      -> duplicate proposal id (DuplicateVerifier)
//! `c01 random --seed S --count K`  larger random trees (8-30 blocks, forks to depth 6, invalid blocks anywhere,
//!     real difficulty adjustment over tiny epochs, random order with duplicates, one burst); prints every block's
//!     own difficulty and the final state, judged by the declarative heaviest-valid-chain definition in python.
//! `c01 trace --in F --out T`  T binding: the scenarios of F run with the H2 hooks recording (chain/src/verif.rs);
//!     the events (hashes replaced by block ids, `Reset` with the scenario, `Deliver` per submission) go to T and are
//!     validated by spec/Trace_ChainCore.tla.
//! `c01 ghost`  regression scenario of the defect fixed by /repo commit 9663883.
use ckb_types::packed::Byte32;
use ckb_types::prelude::*;
use ckbv::fixture::*;
use ckbv::util::*;
use ckb_chain::LonelyBlock;
use ckb_shared::block_status::BlockStatus;
use ckb_store::ChainStore;
use ckb_types::core::BlockView;
use ckb_types::utilities::{compact_to_difficulty, difficulty_to_compact};
use ckb_types::U256;
use ckb_verification_traits::Switch;
use serde_json::{json, Value};
use std::sync::atomic::{AtomicUsize, Ordering};
use std::sync::{Arc, Mutex};

/// counts a callback that is dropped without having been called (the orphan pool replaces a duplicate entry)
struct Guard {
    called: bool,
    dropped: Arc<AtomicUsize>,
}
impl Guard {
    fn mark(&mut self) {
        self.called = true;
    }
}
impl Drop for Guard {
    fn drop(&mut self) {
        if !self.called {
            self.dropped.fetch_add(1, Ordering::SeqCst);
        }
    }
}

#[derive(Default)]
struct Tally {
    submitted: usize,
    answered: Arc<AtomicUsize>,
    dropped: Arc<AtomicUsize>,
    verdicts: Arc<Mutex<Vec<(Byte32, Result<bool, String>)>>>,
}

/// deliveries made like the sync layer makes them (see `mark_received`): switched per scenario
static VIA_PEER: std::sync::atomic::AtomicBool = std::sync::atomic::AtomicBool::new(false);

/// what the sync layer does before it hands a block of a peer to the chain service (`SyncShared::accept_remote_block`,
/// not reachable from outside the crate): the block is marked BLOCK_RECEIVED unless it has a status already
fn mark_received(n: &Node, b: &BlockView) {
    if let dashmap::mapref::entry::Entry::Vacant(e) = n.shared.block_status_map().entry(b.hash()) {
        e.insert(BlockStatus::BLOCK_RECEIVED);
    }
}

fn submit(n: &Node, t: &mut Tally, b: &BlockView, switch: Option<Switch>) {
    if VIA_PEER.load(Ordering::SeqCst) {
        mark_received(n, b);
    }
    let answered = Arc::clone(&t.answered);
    let verdicts = Arc::clone(&t.verdicts);
    let mut guard = Guard { called: false, dropped: Arc::clone(&t.dropped) };
    let hash = b.hash();
    t.submitted += 1;
    n.chain.chain_controller().asynchronous_process_lonely_block(LonelyBlock {
        block: Arc::new(b.clone()),
        switch,
        verify_callback: Some(Box::new(move |r| {
            guard.mark();
            verdicts.lock().unwrap().push((hash, r.map_err(|e| e.to_string())));
            answered.fetch_add(1, Ordering::SeqCst);
        })),
    });
}

/// every delivery answered, dropped, or waiting in the orphan pool (counted over `blocks`); false on time-out
fn quiesce(n: &Node, t: &Tally, blocks: &[BlockView]) -> bool {
    let mut stable = 0;
    for _ in 0..15000 {
        let orphans = blocks.iter().filter(|b| n.chain.chain_controller().get_orphan_block(n.shared.store(), &b.hash()).is_some()).count();
        let pending = t.submitted as i64 - t.answered.load(Ordering::SeqCst) as i64 - t.dropped.load(Ordering::SeqCst) as i64 - orphans as i64;
        if pending <= 0 {
            stable += 1;
            if stable >= 3 {
                return true;
            }
        } else {
            stable = 0;
        }
        std::thread::sleep(std::time::Duration::from_millis(2));
    }
    false
}

fn tool_error(msg: &str) -> ! {
    println!("{}", json!({"tool_error": msg}));
    use std::io::Write;
    let _ = std::io::stdout().flush();
    std::process::exit(3);
}

/// contextual flaw: the DAO field's U component is off by one (DaoHeaderVerifier -> InvalidDAO)
fn bad_dao(b: &BlockView) -> BlockView {
    let mut d = b.header().dao().as_slice().to_vec();
    d[24] = d[24].wrapping_add(1);
    b.as_advanced_builder().dao(Byte32::from_slice(&d).unwrap()).build()
}

fn with_work(b: &BlockView, base: &U256, w: u64) -> BlockView {
    if w == 1 {
        return b.clone();
    }
    let want = base.clone() * U256::from(w);
    let ct = difficulty_to_compact(want.clone());
    if compact_to_difficulty(ct) != want {
        tool_error("work is not exactly representable as a compact target");
    }
    b.as_advanced_builder().compact_target(ct).build()
}

/// Build one block of the scenario on the mirror node's tip. `flaw`: "ok" | "bad_ctx" | "bad_nc".
fn build_block(m: &Node, c: &ckb_chain_spec::consensus::Consensus, flaw: &str, variant: u64, work: u64, nonce: u64, ts: u64,
               spare_tx: &ckb_types::core::TransactionView) -> BlockView {
    let base = m.shared.snapshot().tip_header().difficulty();
    let _ = c;
    let mut spec = BlockSpec { nonce, ts, ..Default::default() };
    if flaw == "bad_ctx" && variant % 2 == 0 {
        spec.commits = vec![spare_tx.clone()];          // committed without having been proposed
    }
    if flaw == "bad_nc" {
        let id = spare_tx.proposal_short_id();
        spec.proposals = vec![id.clone(), id];          // duplicate proposal id
    }
    let b = assemble(m, &spec).unwrap_or_else(|e| tool_error(&format!("assemble: {e}")));
    let b = if flaw == "bad_ctx" && variant % 2 == 1 { bad_dao(&b) } else { b };
    let epoch_diff = compact_to_difficulty(b.compact_target());
    let _ = base;
    with_work(&b, &epoch_diff, work)
}

fn switch_for(b: &BlockView, epoch_ct: u32) -> Option<Switch> {
    if b.compact_target() == epoch_ct { None } else { Some(Switch::DISABLE_EPOCH) }
}

fn ext_str(n: &Node, h: &Byte32) -> &'static str {
    match n.shared.store().get_block_ext(h).map(|e| e.verified) {
        None => "none",
        Some(None) => "unv",
        Some(Some(true)) => "ok",
        Some(Some(false)) => "bad",
    }
}

fn replay(args: &[String]) {
    let input = std::fs::read_to_string(opt(args, "--in").expect("--in")).unwrap();
    let ft = ckb_systemtime::faketime();
    ft.set_faketime(GENESIS_TS + 100_000 * BLOCK_INTERVAL_MS);
    let c = consensus(&Params { genesis_cells: 8, ..Default::default() });
    let n = Node::start(&NodeCfg { assembler: false, ..NodeCfg::temp(&c) });
    let m = Node::start(&NodeCfg { assembler: false, ..NodeCfg::temp(&c) });
    let genesis = c.genesis_block().clone();
    let epoch_ct = genesis.compact_target();
    let unit = compact_to_difficulty(epoch_ct);
    let spares: Vec<_> = (0..8).map(|i| spend(&c, &[genesis_cell(&c, i)], 50_000 * 100_000_000, 1, 1000, 0)).collect();
    let mut salt = 0u64;
    let mut done = 0u64;
    for line in input.lines().filter(|l| l.starts_with('{')) {
        let sc: Value = serde_json::from_str(line).unwrap();
        let nb = sc["n"].as_u64().unwrap() as usize;
        let par: Vec<usize> = sc["parent"].as_array().unwrap().iter().map(|x| x.as_u64().unwrap() as usize).collect();
        let work: Vec<u64> = sc["work"].as_array().unwrap().iter().map(|x| x.as_u64().unwrap()).collect();
        let ok: Vec<String> = sc["ok"].as_array().unwrap().iter().map(|x| x.as_str().unwrap().to_string()).collect();
        let order: Vec<usize> = sc["order"].as_array().unwrap().iter().map(|x| x.as_u64().unwrap() as usize).collect();
        // concretise: build in depth-first pre-order so that the parent is always on the mirror's main chain
        let mut dfs: Vec<usize> = vec![];
        let mut stack: Vec<usize> = vec![0];
        while let Some(x) = stack.pop() {
            if x != 0 {
                dfs.push(x);
            }
            for c in (1..=nb).rev() {
                if par[c - 1] == x {
                    stack.push(c);
                }
            }
        }
        let mut blocks: Vec<BlockView> = vec![genesis.clone(); nb + 1];
        for &b in &dfs {
            let p = blocks[par[b - 1]].clone();
            if m.tip().1 != p.hash() {
                if !m.shared.snapshot().is_main_chain(&p.hash()) {
                    tool_error("mirror cannot reach the parent");
                }
                m.truncate_to(&p.hash()).unwrap_or_else(|e| tool_error(&format!("mirror truncate: {e}")));
            }
            salt += 1;
            let blk = build_block(&m, &c, &ok[b - 1], b as u64, work[b - 1], salt, 0, &spares[b]);
            m.process_unchecked(&blk).unwrap_or_else(|e| tool_error(&format!("mirror rejects: {e}")));
            if blk.header().difficulty() != unit.clone() * U256::from(work[b - 1]) {
                tool_error("difficulty of a scenario block is not work * unit");
            }
            blocks[b] = blk;
        }
        let mut t = Tally::default();
        // a reorg verifies every attached block under the switch of the delivery that triggers it, so a scenario
        // with any block of non-epoch difficulty is delivered with DISABLE_EPOCH throughout (all other rules stay on)
        let uneven = blocks.iter().any(|b| switch_for(b, epoch_ct).is_some());
        for &b in &order {
            submit(&n, &mut t, &blocks[b], if uneven { Some(Switch::DISABLE_EPOCH) } else { None });
        }
        let quiet = quiesce(&n, &t, &blocks);
        let snap = n.shared.snapshot();
        let id_of = |h: &Byte32| blocks.iter().position(|b| &b.hash() == h);
        let tip = id_of(&snap.tip_hash());
        let td = snap.total_difficulty().clone();
        let rel = (td.clone() - unit.clone()) / unit.clone();
        let store = n.shared.store();
        let mut stored = vec![];
        let mut main = vec![];
        let mut ext = vec![];
        let mut invalid = vec![];
        let mut orphans = vec![];
        let mut replies = vec![];
        let v = t.verdicts.lock().unwrap();
        for b in 1..=nb {
            let h = blocks[b].hash();
            if !store.get_block_body(&h).is_empty() {
                stored.push(b);
            }
            if snap.is_main_chain(&h) {
                main.push(b);
            }
            ext.push(ext_str(&n, &h));
            if n.shared.get_block_status(&h) == BlockStatus::BLOCK_INVALID {
                invalid.push(b);
            }
            if n.chain.chain_controller().get_orphan_block(store, &h).is_some() {
                orphans.push(b);
            }
            let cnt = |f: &dyn Fn(&Result<bool, String>) -> bool| v.iter().filter(|(x, r)| x == &h && f(r)).count();
            replies.push(vec![cnt(&|r| r == &Ok(true)), cnt(&|r| r == &Ok(false)), cnt(&|r| r.is_err())]);
        }
        let g = genesis.hash();
        let greplies = v.iter().filter(|(x, r)| x == &g && r == &Ok(false)).count();
        let gother = v.iter().filter(|(x, r)| x == &g && r != &Ok(false)).count();
        println!("{}", json!({"scenario": sc["id"], "quiet": quiet, "tip": tip, "td": rel.to_string().parse::<u64>().ok(),
            "td_exact": (td.clone() - unit.clone()) == rel.clone() * unit.clone(),
            "stored": stored, "main": main, "ext": ext, "invalid": invalid, "orphans": orphans, "replies": replies,
            "dropped": t.dropped.load(Ordering::SeqCst), "greplies": greplies, "gother": gother,
            "errors": v.iter().filter_map(|(x, r)| r.as_ref().err().map(|e| (id_of(x), e[..e.len().min(60)].to_string()))).collect::<Vec<_>>()}));
        drop(v);
        // back to genesis for the next scenario (its blocks are new: the leftovers are inert)
        n.truncate_to(&g).unwrap_or_else(|e| tool_error(&format!("truncate: {e}")));
        m.truncate_to(&g).unwrap_or_else(|e| tool_error(&format!("mirror truncate: {e}")));
        done += 1;
    }
    println!("{}", json!({"summary": {"scenarios": done}}));
    use std::io::Write;
    let _ = std::io::stdout().flush();
    std::process::exit(0);
}

/// T binding: run scenarios with the hooks recording and write the trace for Trace_ChainCore.tla.
fn trace(args: &[String]) {
    use ckb_chain::verif;
    use std::io::Write;
    let input = std::fs::read_to_string(opt(args, "--in").expect("--in")).unwrap();
    let mut outf = std::fs::File::create(opt(args, "--out").expect("--out")).unwrap();
    let ft = ckb_systemtime::faketime();
    ft.set_faketime(GENESIS_TS + 100_000 * BLOCK_INTERVAL_MS);
    let c = consensus(&Params { genesis_cells: 40, ..Default::default() });
    let n = Node::start(&NodeCfg { assembler: false, ..NodeCfg::temp(&c) });
    let m = Node::start(&NodeCfg { assembler: false, ..NodeCfg::temp(&c) });
    let genesis = c.genesis_block().clone();
    let epoch_ct = genesis.compact_target();
    let spares: Vec<_> = (0..40).map(|i| spend(&c, &[genesis_cell(&c, i)], 50_000 * 100_000_000, 1, 1000, 0)).collect();
    let nmax = opt_u64(args, "--nmax", 8) as usize;
    let mut salt = 5_000_000u64;
    let mut events = 0u64;
    let mut done = 0u64;
    for line in input.lines().filter(|l| l.starts_with('{')) {
        let sc: Value = serde_json::from_str(line).unwrap();
        let nb = sc["n"].as_u64().unwrap() as usize;
        let par: Vec<usize> = sc["parent"].as_array().unwrap().iter().map(|x| x.as_u64().unwrap() as usize).collect();
        let work: Vec<u64> = sc["work"].as_array().unwrap().iter().map(|x| x.as_u64().unwrap()).collect();
        let ok: Vec<String> = sc["ok"].as_array().unwrap().iter().map(|x| x.as_str().unwrap().to_string()).collect();
        let order: Vec<usize> = sc["order"].as_array().unwrap().iter().map(|x| x.as_u64().unwrap() as usize).collect();
        let mut dfs: Vec<usize> = vec![];
        let mut stack: Vec<usize> = vec![0];
        while let Some(x) = stack.pop() {
            if x != 0 {
                dfs.push(x);
            }
            for ch in (1..=nb).rev() {
                if par[ch - 1] == x {
                    stack.push(ch);
                }
            }
        }
        let mut blocks: Vec<BlockView> = vec![genesis.clone(); nb + 1];
        for &b in &dfs {
            let pb = blocks[par[b - 1]].clone();
            if m.tip().1 != pb.hash() {
                m.truncate_to(&pb.hash()).unwrap_or_else(|e| tool_error(&format!("mirror truncate: {e}")));
            }
            salt += 1;
            let blk = build_block(&m, &c, &ok[b - 1], b as u64, work[b - 1], salt, 0, &spares[b]);
            m.process_unchecked(&blk).unwrap_or_else(|e| tool_error(&format!("mirror rejects: {e}")));
            blocks[b] = blk;
        }
        let pad = |v: Vec<Value>, d: Value| -> Vec<Value> { let mut v = v; while v.len() < nmax { v.push(d.clone()); } v };
        writeln!(outf, "{}", json!({"ev": "Reset", "n": nb,
            "parent": pad(par.iter().map(|x| json!(x)).collect(), json!(0)),
            "work": pad(work.iter().map(|x| json!(x)).collect(), json!(1)),
            "ok": pad(ok.iter().map(|x| json!(x)).collect(), json!("ok"))})).unwrap();
        events += 1;
        // The mirror's ChainService thread emits its Broker/Release events *after* handing the block on, so it may
        // still be busy with the last block built: a request through the same (single) thread waits for it.
        let _ = m.process(&genesis);
        verif::capture(true);
        let uneven = blocks.iter().any(|b| switch_for(b, epoch_ct).is_some());
        let mut t = Tally::default();
        for &b in &order {
            verif::emit("Deliver", &format!("\"b\":{}", verif::h(&blocks[b].hash())));
            submit(&n, &mut t, &blocks[b], if uneven { Some(Switch::DISABLE_EPOCH) } else { None });
            // bursts and pauses: sometimes let the pipeline catch up
            if salt % 3 == 0 {
                std::thread::sleep(std::time::Duration::from_micros(300 * (salt % 7)));
            }
            salt += 1;
        }
        if !quiesce(&n, &t, &blocks) {
            tool_error("trace scenario did not come to rest");
        }
        let evs = verif::drain();
        verif::capture(false);
        let name = |h: &str| -> Value {
            match blocks.iter().position(|b| verif::hex(b.hash().as_slice()) == h) {
                Some(i) => json!(i),
                None => json!(-1),
            }
        };
        for l in evs {
            let mut e: Value = serde_json::from_str(&l).unwrap();
            for f in ["b", "l", "tip"] {
                if let Some(h) = e.get(f).and_then(|x| x.as_str()).map(|x| x.to_string()) {
                    e[f] = name(&h);
                }
            }
            if let Some(a) = e.get("rel").and_then(|x| x.as_array()).cloned() {
                e["rel"] = Value::Array(a.iter().map(|h| name(h.as_str().unwrap())).collect());
            }
            if e["ev"] == "VerifyBest" {
                continue;           // C20's event
            }
            if e["ev"] == "Release" && e["l"] == json!(-1) {
                continue;           // leader of an orphan left over from an earlier scenario on this node (inert)
            }
            if std::env::var("C01_RAW").is_err() {
                e.as_object_mut().unwrap().remove("th");
            }
            e.as_object_mut().unwrap().remove("td");
            writeln!(outf, "{}", e).unwrap();
            events += 1;
        }
        let g = genesis.hash();
        n.truncate_to(&g).unwrap_or_else(|e| tool_error(&format!("truncate: {e}")));
        m.truncate_to(&g).unwrap_or_else(|e| tool_error(&format!("mirror truncate: {e}")));
        done += 1;
    }
    outf.flush().unwrap();
    println!("{}", json!({"summary": {"scenarios": done, "events": events}}));
    let _ = std::io::stdout().flush();
    std::process::exit(0);
}

/// Larger random trees under real difficulty adjustment (tiny epochs, timestamps chosen per block).
fn random(args: &[String]) {
    let seed = opt_u64(args, "--seed", 1);
    let count = opt_u64(args, "--count", 5);
    let ft = ckb_systemtime::faketime();
    ft.set_faketime(GENESIS_TS + 100_000_000 * BLOCK_INTERVAL_MS);
    let mut rng = Rng::new(seed);
    let mut done = 0;
    // one node under test and one mirror for all scenarios (each open RocksDB preallocates ~75 MB): both are
    // truncated back to genesis after a scenario, every scenario uses fresh blocks
    // --directed: one heavy block (+ up to 2 blocks on it) at random depth against a long chain of light blocks with an
    // invalid block at a random position; constant epoch difficulty, work realised by compact-target multiples
    let directed = flag(args, "--directed");
    let p = Params { epoch_len: if directed { 1000 } else { 4 }, permanent_difficulty: directed, genesis_cells: 32, ..Default::default() };
    let c = if directed { consensus(&p) } else { consensus_with(&p, difficulty_to_compact(U256::from(1_000_000u64))) };
    let n = Node::start(&NodeCfg { assembler: false, ..NodeCfg::temp(&c) });
    let m = Node::start(&NodeCfg { assembler: false, ..NodeCfg::temp(&c) });
    let genesis = c.genesis_block().clone();
    let spares: Vec<_> = (0..32).map(|i| spend(&c, &[genesis_cell(&c, i)], 50_000 * 100_000_000, 1, 1000, 0)).collect();
    for sc in 0..count {
        // every other scenario is delivered the way peers' blocks arrive (status BLOCK_RECEIVED set first)
        VIA_PEER.store(sc % 2 == 1, Ordering::SeqCst);
        let mut par: Vec<usize> = vec![];
        let mut works: Vec<u64> = vec![];
        let mut ok: Vec<&str> = vec![];
        let mut shape = Value::Null;
        if directed {
            let d = rng.range(0, 4) as usize;           // common prefix
            let w = rng.range(3, 6);                    // work of the heavy block
            let e = rng.range(0, 2) as usize;           // unit blocks on top of the heavy block
            let l = rng.range(w + e as u64, w + e as u64 + 2) as usize;   // light chain: ties, overtakes by 1 or 2
            let bad_at = if rng.chance(2, 3) { Some(rng.range(1, l as u64) as usize) } else { None };
            for b in 1..=d {
                par.push(b - 1); works.push(1); ok.push("ok");
            }
            par.push(d); works.push(w); ok.push("ok");                       // heavy block, id d+1
            for i in 0..e {
                par.push(d + 1 + i); works.push(1); ok.push("ok");
            }
            for i in 0..l {
                par.push(if i == 0 { d } else { d + 1 + e + i }); works.push(1);
                ok.push(if bad_at == Some(i + 1) { "bad_ctx" } else { "ok" });
            }
            shape = json!({"d": d, "w": w, "e": e, "l": l, "bad_at": bad_at, "heavy": d + 1, "first_light": d + 2 + e});
        } else {
            let nb = rng.range(8, 30) as usize;
            // tree: parent among the last 6 blocks of the growing set (forks to depth 6), parent-first ids
            for b in 1..=nb {
                let lo = if b > 6 { b - 6 } else { 0 };
                let pp = if rng.chance(2, 3) { b - 1 } else { rng.range(lo as u64, (b - 1) as u64) as usize };
                par.push(pp);
                works.push(1);
                ok.push(if rng.chance(1, 8) { if rng.chance(1, 3) { "bad_nc" } else { "bad_ctx" } } else { "ok" });
            }
        }
        let nb = par.len();
        // depth-first build on the mirror
        let mut dfs: Vec<usize> = vec![];
        let mut stack: Vec<usize> = vec![0];
        while let Some(x) = stack.pop() {
            if x != 0 {
                dfs.push(x);
            }
            for ch in (1..=nb).rev() {
                if par[ch - 1] == x {
                    stack.push(ch);
                }
            }
        }
        let mut blocks: Vec<BlockView> = vec![genesis.clone(); nb + 1];
        for &b in &dfs {
            let pb = blocks[par[b - 1]].clone();
            if m.tip().1 != pb.hash() {
                m.truncate_to(&pb.hash()).unwrap_or_else(|e| tool_error(&format!("mirror truncate: {e}")));
            }
            // block interval 1 s .. 60 s: the next epoch's difficulty depends on it
            let ts = if directed { 0 } else { pb.timestamp() + 1000 * rng.range(1, 60) };
            let blk = build_block(&m, &c, ok[b - 1], b as u64 + rng.below(2), works[b - 1], seed * 1_000_000 + sc * 1000 + b as u64, ts, &spares[b]);
            m.process_unchecked(&blk).unwrap_or_else(|e| tool_error(&format!("mirror rejects: {e}")));
            blocks[b] = blk;
        }
        // delivery: a random subset (most blocks), random order, some duplicates, one burst
        let mut order: Vec<usize> = (1..=nb).filter(|_| directed || rng.chance(9, 10)).collect();
        for i in (1..order.len()).rev() {
            let j = rng.below(i as u64 + 1) as usize;
            order.swap(i, j);
        }
        let dups = rng.below(4) as usize;
        for _ in 0..dups {
            if !order.is_empty() {
                let x = order[rng.below(order.len() as u64) as usize];
                let at = rng.below(order.len() as u64 + 1) as usize;
                order.insert(at, x);
            }
        }
        let mut t = Tally::default();
        for &b in &order {
            submit(&n, &mut t, &blocks[b], if directed { Some(Switch::DISABLE_EPOCH) } else { None });
        }
        let quiet = quiesce(&n, &t, &blocks);
        let snap = n.shared.snapshot();
        let store = n.shared.store();
        let v = t.verdicts.lock().unwrap();
        let id_of = |h: &Byte32| blocks.iter().position(|b| &b.hash() == h);
        let mut rows = vec![];
        for b in 1..=nb {
            let h = blocks[b].hash();
            let cnt = |f: &dyn Fn(&Result<bool, String>) -> bool| v.iter().filter(|(x, r)| x == &h && f(r)).count();
            rows.push(json!({"id": b, "parent": par[b - 1], "ok": ok[b - 1], "difficulty": format!("{:x}", blocks[b].header().difficulty()),
                "epoch": blocks[b].epoch().number(),
                "stored": !store.get_block_body(&h).is_empty(), "main": snap.is_main_chain(&h), "ext": ext_str(&n, &h),
                "invalid": n.shared.get_block_status(&h) == BlockStatus::BLOCK_INVALID,
                "orphan": n.chain.chain_controller().get_orphan_block(store, &h).is_some(),
                "replies": [cnt(&|r| r == &Ok(true)), cnt(&|r| r == &Ok(false)), cnt(&|r| r.is_err())]}));
        }
        println!("{}", json!({"random": sc, "seed": seed, "quiet": quiet, "order": order, "blocks": rows, "shape": shape,
            "genesis_difficulty": format!("{:x}", genesis.header().difficulty()),
            "tip": id_of(&snap.tip_hash()), "td": format!("{:x}", snap.total_difficulty()), "dropped": t.dropped.load(Ordering::SeqCst)}));
        drop(v);
        done += 1;
        n.truncate_to(&genesis.hash()).unwrap_or_else(|e| tool_error(&format!("truncate: {e}")));
        m.truncate_to(&genesis.hash()).unwrap_or_else(|e| tool_error(&format!("mirror truncate: {e}")));
    }
    println!("{}", json!({"summary": {"scenarios": done}}));
    use std::io::Write;
    let _ = std::io::stdout().flush();
    std::process::exit(0);
}

/// stress: child delivered before its (valid) parent; the child must be connected once the parent is verified
fn leader(args: &[String]) {
    let trials = opt_u64(args, "--trials", 2000);
    let ft = ckb_systemtime::faketime();
    ft.set_faketime(GENESIS_TS + 100_000 * BLOCK_INTERVAL_MS);
    let c = consensus(&Params::default());
    let n = Node::start(&NodeCfg { assembler: false, ..NodeCfg::temp(&c) });
    let m = Node::start(&NodeCfg { assembler: false, ..NodeCfg::temp(&c) });
    let g = c.genesis_block().hash();
    let mut stuck = 0u64;
    for t in 0..trials {
        let p = assemble(&m, &BlockSpec { nonce: 10 + 2 * t, ..Default::default() }).unwrap();
        m.process(&p).unwrap();
        let ch = assemble(&m, &BlockSpec { nonce: 11 + 2 * t, ..Default::default() }).unwrap();
        m.process(&ch).unwrap();
        let blocks = vec![p.clone(), ch.clone()];
        let mut tl = Tally::default();
        submit(&n, &mut tl, &ch, None);
        submit(&n, &mut tl, &p, None);
        let q = quiesce(&n, &tl, &blocks);
        let orphan = n.chain.chain_controller().get_orphan_block(n.shared.store(), &ch.hash()).is_some();
        if !q || orphan || n.tip().1 != ch.hash() {
            stuck += 1;
            println!("{}", json!({"leader_stuck": {"trial": t, "quiet": q, "child_still_orphan": orphan, "tip_is_child": n.tip().1 == ch.hash(),
                "parent_ext": ext_str(&n, &p.hash())}}));
            if stuck >= 3 { break; }
        }
        n.truncate_to(&g).unwrap();
        m.truncate_to(&g).unwrap();
    }
    println!("{}", json!({"summary": {"trials": trials, "stuck": stuck}}));
    use std::io::Write;
    let _ = std::io::stdout().flush();
    std::process::exit(0);
}

/// duplicate of a contextually invalid block racing with an equal-work sibling (see design.d/C01.md, finding)
fn ghost(args: &[String]) {
    use ckb_store::ChainStore;
    let dir = std::path::PathBuf::from(opt(args, "--dir").expect("--dir"));
    let phase = opt_u64(args, "--phase", 1);
    let ft = ckb_systemtime::faketime();
    ft.set_faketime(GENESIS_TS + 100_000 * BLOCK_INTERVAL_MS);
    let c = consensus(&Params::default());
    let n = Node::start(&NodeCfg { assembler: false, ..NodeCfg::at(&c, &dir) });
    if phase == 1 {
        for _ in 0..3 {
            let b = assemble(&n, &BlockSpec::default()).unwrap();
            n.process(&b).unwrap();
        }
        let good = assemble(&n, &BlockSpec { nonce: 1, ..Default::default() }).unwrap();
        let sib = assemble(&n, &BlockSpec { nonce: 2, ..Default::default() }).unwrap();
        let bad = bad_dao(&sib);
        // a child of the bad block, built on a builder node that accepts it unchecked
        let m = builder_node(&c, &[]);
        for bn in 1..=3 {
            let h = n.shared.snapshot().get_block_hash(bn).unwrap();
            m.process(&n.shared.snapshot().get_block(&h).unwrap()).unwrap();
        }
        m.process_unchecked(&bad).unwrap();
        let child = assemble(&m, &BlockSpec { nonce: 3, ..Default::default() }).unwrap();
        std::fs::write(dir.join("child.bin"), child.data().as_slice()).unwrap();
        std::fs::write(dir.join("bad.hash"), bad.hash().as_slice()).unwrap();
        n.submit_async(&bad);
        n.submit_async(&good);
        n.submit_async(&bad);
        let q = n.quiesce();
        let s = n.shared.store();
        println!("quiesce {} tip_is_good {} verdicts {:?}", q, n.tip().1 == good.hash(),
                 n.verdicts.lock().unwrap().iter().map(|(h, r)| (hex8(h), r.clone().map_err(|e| e[..e.len().min(40)].to_string()))).collect::<Vec<_>>());
        println!("bad: ext={:?} header={} body_txs={}", s.get_block_ext(&bad.hash()).map(|e| e.verified), s.get_block_header(&bad.hash()).is_some(), s.get_block_body(&bad.hash()).len());
        let v = n.verdicts.lock().unwrap();
        let second_ok = v.iter().filter(|(h, r)| h == &bad.hash() && r.is_ok()).count() > 0;
        println!("{}", json!({"ghost": {"phase": 1, "quiet": q, "second_copy_verdict_ok": second_ok, "copies_answered": v.iter().filter(|(h, _)| h == &bad.hash()).count(),
            "ext_of_deleted_block": s.get_block_ext(&bad.hash()).is_some() && s.get_block_body(&bad.hash()).is_empty()}}));
    } else {
        use ckb_types::packed;
        let raw = std::fs::read(dir.join("child.bin")).unwrap();
        let child = packed::Block::from_compatible_slice(&raw).unwrap().into_view_without_reset_header();
        let bh = Byte32::from_slice(&std::fs::read(dir.join("bad.hash")).unwrap()).unwrap();
        let s = n.shared.store();
        println!("after restart: bad ext={:?} header={} status={:?}", s.get_block_ext(&bh).map(|e| e.verified), s.get_block_header(&bh).is_some(), n.shared.get_block_status(&bh));
        n.submit_async(&child);
        let q = n.quiesce();
        println!("child of the deleted block: quiesce {} verdicts {:?}", q, n.verdicts.lock().unwrap().iter().map(|(h, r)| (hex8(h), r.clone())).collect::<Vec<_>>());
        let next = assemble(&n, &BlockSpec { nonce: 9, ..Default::default() }).unwrap();
        n.submit_async(&next);
        let q2 = n.quiesce();
        println!("a valid block afterwards: quiesce {} became tip {}", q2, n.tip().1 == next.hash());
        println!("{}", json!({"ghost": {"phase": 2, "child_answered": q, "import_alive": q2 && n.tip().1 == next.hash()}}));
    }
    use std::io::Write;
    let _ = std::io::stdout().flush();
    std::process::exit(0);
}

fn main() {
    let args: Vec<String> = std::env::args().collect();
    match args.get(1).map(|s| s.as_str()) {
        Some("replay") => replay(&args),
        Some("random") => random(&args),
        Some("trace") => trace(&args),
        Some("ghost") => ghost(&args),
        Some("leader") => leader(&args),
        _ => {
            eprintln!("usage: c01 replay --in F | random --seed S --count K | ghost --dir D --phase P");
            std::process::exit(2);
        }
    }
}
