//! C18 — binding of spec/Indexer.tla (over Ledger.tla) to ckb-indexer.
//!
//! `c18 genesis`            facts about the fixture's genesis block (for the universe file)
//! `c18 direct --in f.json` TLC-generated / random walks (append / rollback) replayed on the REAL crate-private
//!                          `Indexer` (hook `VerifIndexer`, chosen keep_num / prune_interval) over fabricated blocks;
//! `c18 service --in f.json` TLC-generated / random block trees delivered to a REAL node that a REAL
//!                          `IndexerService` follows (secondary DB, notify-driven loop, reorgs decided by the node).
//! After every step / quiescence the query battery (get_indexer_tip, get_cells, get_transactions,
//! get_cells_capacity x asc/desc x page size 1, 2, all, cursor pagination) is compared with the expected answers
//! that TLC evaluated from the declarative filters (Eval_Indexer.tla). One ndjson line per mismatch + a summary.
use ckb_indexer::service::verif::VerifIndexer;
use ckb_indexer::IndexerHandle;
use ckb_jsonrpc_types::{
    IndexerCellType, IndexerOrder, IndexerRange, IndexerScriptType, IndexerSearchKey, IndexerSearchKeyFilter, IndexerSearchMode,
    IndexerTx, JsonBytes,
};
use ckb_store::ChainStore;
use ckb_types::prelude::*;
use ckb_types::{
    bytes::Bytes,
    core::{BlockBuilder, BlockView, Capacity, TransactionBuilder, TransactionView},
    packed::{self, Byte32, CellInput, CellOutput, OutPoint},
};
use ckbv::fixture::*;
use ckbv::util::{opt, Scratch};
use serde::Deserialize;
use serde_json::{json, Value};
use std::collections::HashMap;
use std::panic::{catch_unwind, AssertUnwindSafe};
use std::sync::Arc;

#[derive(Deserialize, Clone, Debug)]
struct Out {
    lock: String,
    #[serde(rename = "type")]
    ty: String,
    cap: u64,
    dlen: u64,
}
#[derive(Deserialize, Clone, Debug)]
struct TxD {
    ins: Vec<(usize, u32)>,
    outs: Vec<Out>,
}
#[derive(Deserialize, Clone, Debug)]
struct ScriptD {
    code: String,
    args: Vec<u8>,
}
#[derive(Deserialize, Clone, Debug, serde::Serialize)]
struct Query {
    st: String,
    s: String,
    exact: bool,
    fs: String,
    slen: Vec<u64>,
    dlen: Vec<u64>,
    cap: Vec<u64>,
    blk: Vec<u64>,
}
#[derive(Deserialize, Clone, Debug)]
struct Op {
    op: String,
    #[serde(default)]
    parent: usize,
    #[serde(default)]
    txs: Vec<usize>,
    #[serde(default)]
    cb: Vec<Out>,
    b: usize,
}
#[derive(Deserialize, Clone, Debug)]
struct Hist {
    id: u64,
    ops: Vec<Op>,
    /// block id -> index into `expect` (the chain ending in that block)
    exp: HashMap<String, usize>,
}
type ECell = (u64, u32, u64, u32);
type ETx = (u64, u64, u32, u32, u8);
#[derive(Deserialize, Clone, Debug)]
struct Exp {
    cells: Vec<Vec<ECell>>,
    txs: Vec<Vec<ETx>>,
    /// get_transactions with group_by_transaction: (tx, block number, tx index, [(io type, io index)]) per object
    #[serde(default)]
    gtxs: Vec<Vec<EGTx>>,
}
type EGTx = (u64, u64, u32, Vec<(u8, u32)>);
type CGTx = (Byte32, u64, u32, Vec<(u8, u32)>);
#[derive(Deserialize)]
struct Input {
    scripts: HashMap<String, ScriptD>,
    txs: Vec<TxD>,
    genesis_txs: Vec<usize>,
    cellq: Vec<Query>,
    txq: Vec<Query>,
    expect: Vec<Exp>,
    hists: Vec<Hist>,
    keep_num: u64,
    prune_interval: u64,
    cb_from: u64,
    /// run the whole battery on every `full_every`-th step (and on the last one); the unfiltered core otherwise
    full_every: u64,
}

const CKB: u64 = 100_000_000;
const CB_BASE: u64 = 1000;

struct World {
    consensus: ckb_chain_spec::consensus::Consensus,
    scripts: HashMap<String, packed::Script>,
    /// concrete universe transactions, index = tx id (0 unused)
    txs: Vec<Option<TransactionView>>,
}

fn script_of(d: &ScriptD) -> packed::Script {
    match d.code.as_str() {
        "default" => packed::Script::default().as_builder().args(Bytes::from(d.args.clone()).pack()).build(),
        _ => lock().as_builder().args(Bytes::from(d.args.clone()).pack()).build(),
    }
}

fn cell_output(w: &HashMap<String, packed::Script>, o: &Out) -> CellOutput {
    let b = CellOutput::new_builder().capacity(Capacity::shannons(o.cap * CKB)).lock(w[&o.lock].clone());
    if o.ty != "none" { b.type_(Some(w[&o.ty].clone()).pack()).build() } else { b.build() }
}

fn world(inp: &Input) -> World {
    let p = Params { genesis_cells: inp.genesis_txs.len(), window: (1, inp.cb_from - 2), ..Default::default() };
    let consensus = consensus(&p);
    let scripts: HashMap<String, packed::Script> = inp.scripts.iter().map(|(k, v)| (k.clone(), script_of(v))).collect();
    let mut txs: Vec<Option<TransactionView>> = vec![None; inp.txs.len() + 1];
    for (pos, id) in inp.genesis_txs.iter().enumerate() {
        txs[*id] = Some(consensus.genesis_block().transactions()[1 + pos].clone());
    }
    for id in 1..=inp.txs.len() {
        if txs[id].is_some() {
            continue;
        }
        let d = &inp.txs[id - 1];
        let mut b = TransactionBuilder::default().cell_dep(always_success_dep(&consensus));
        for (t, i) in &d.ins {
            let h = txs[*t].as_ref().expect("inputs refer to earlier transactions").hash();
            b = b.input(CellInput::new(OutPoint::new(h, *i), 0));
        }
        for o in &d.outs {
            b = b.output(cell_output(&scripts, o)).output_data(Bytes::from(vec![id as u8; o.dlen as usize]));
        }
        txs[id] = Some(b.build());
    }
    World { consensus, scripts, txs }
}

/// one block of a history's tree
struct Blk {
    parent: usize,
    view: BlockView,
}

struct Tree {
    blocks: HashMap<usize, Blk>,
}
impl Tree {
    fn chain(&self, mut b: usize) -> Vec<usize> {
        let mut v = vec![b];
        while b != 0 {
            b = self.blocks[&b].parent;
            v.push(b);
        }
        v.reverse();
        v
    }
}

fn fabricate(w: &World, tree: &Tree, op: &Op) -> BlockView {
    let parent = &tree.blocks[&op.parent].view;
    let number = parent.number() + 1;
    let mut cb = TransactionBuilder::default()
        .input(CellInput::new_cellbase_input(number))
        .witness(Bytes::from((op.b as u64).to_le_bytes().to_vec()).pack());
    for o in &op.cb {
        cb = cb.output(cell_output(&w.scripts, o)).output_data(Bytes::new());
    }
    let mut bb = BlockBuilder::default()
        .number(number)
        .parent_hash(parent.hash())
        .timestamp(parent.timestamp() + BLOCK_INTERVAL_MS)
        .compact_target(parent.compact_target())
        .epoch(ckb_types::core::EpochNumberWithFraction::new(0, number, 1000))
        .nonce(op.b as u128)
        .transaction(cb.build());
    for t in &op.txs {
        bb = bb.transaction(w.txs[*t].clone().unwrap());
    }
    bb.build()
}

// -------------------------------------------------------------------------------------------------
// the query battery
// -------------------------------------------------------------------------------------------------
struct Stats {
    queries: u64,
    calls: u64,
    multi_page: u64,
    prefix_hits: u64,
    nonempty: u64,
    mismatches: u64,
    grouped: u64,
    grouped_multi: u64,
}

fn search_key(w: &World, q: &Query, variant: u64) -> IndexerSearchKey {
    let rng = |v: &Vec<u64>, mul: u64| if v.len() == 2 { Some(IndexerRange::new(v[0] * mul, v[1] * mul)) } else { None };
    let any_filter = q.fs != "none" || !q.slen.is_empty() || !q.dlen.is_empty() || !q.cap.is_empty() || !q.blk.is_empty();
    IndexerSearchKey {
        script: w.scripts[&q.s].clone().into(),
        script_type: if q.st == "lock" { IndexerScriptType::Lock } else { IndexerScriptType::Type },
        script_search_mode: if q.exact { Some(IndexerSearchMode::Exact) } else if variant % 2 == 0 { None } else { Some(IndexerSearchMode::Prefix) },
        filter: if any_filter {
            Some(IndexerSearchKeyFilter {
                script: if q.fs != "none" { Some(w.scripts[&q.fs].clone().into()) } else { None },
                script_len_range: rng(&q.slen, 1),
                output_data: None,
                output_data_filter_mode: None,
                output_data_len_range: rng(&q.dlen, 1),
                output_capacity_range: rng(&q.cap, CKB),
                block_range: rng(&q.blk, 1),
            })
        } else {
            None
        },
        with_data: if variant % 3 == 0 { None } else { Some(true) },
        group_by_transaction: None,
    }
}

/// concrete answer item of get_cells: (tx hash, index, block number, tx index, capacity)
type CCell = (Byte32, u32, u64, u32);
type CTx = (Byte32, u64, u32, u32, u8);

fn page_cells(h: &IndexerHandle, w: &World, q: &Query, desc: bool, limit: u32, st: &mut Stats, bad_content: &mut Vec<String>, content: &dyn Fn(&Byte32, u32) -> Option<(CellOutput, Bytes)>) -> Result<(Vec<CCell>, u64), String> {
    let mut out = vec![];
    let mut cursor: Option<JsonBytes> = None;
    let mut pages = 0;
    for round in 0..10_000u64 {
        st.calls += 1;
        let key = search_key(w, q, round + limit as u64);
        let page = h
            .get_cells(key, if desc { IndexerOrder::Desc } else { IndexerOrder::Asc }, limit.into(), cursor.clone())
            .map_err(|e| format!("get_cells error: {e:?}"))?;
        if page.objects.is_empty() {
            break;
        }
        if page.objects.len() > limit as usize {
            return Err(format!("page of {} objects exceeds the limit {}", page.objects.len(), limit));
        }
        pages += 1;
        for c in &page.objects {
            let op: OutPoint = c.out_point.clone().into();
            let txh = op.tx_hash();
            let idx: u32 = op.index().into();
            let output: CellOutput = c.output.clone().into();
            match content(&txh, idx) {
                Some((o, d)) => {
                    if o.as_slice() != output.as_slice() {
                        bad_content.push(format!("cell {:x}:{} output differs from the transaction's output", txh, idx));
                    }
                    if let Some(data) = &c.output_data {
                        if data.as_bytes() != d.as_ref() {
                            bad_content.push(format!("cell {:x}:{} data differs", txh, idx));
                        }
                    }
                }
                None => bad_content.push(format!("cell {:x}:{} is not a cell of the history", txh, idx)),
            }
            out.push((txh, idx, c.block_number.into(), c.tx_index.into()));
        }
        cursor = Some(page.last_cursor);
    }
    Ok((out, pages))
}

fn page_txs(h: &IndexerHandle, w: &World, q: &Query, desc: bool, limit: u32, st: &mut Stats) -> Result<(Vec<CTx>, u64), String> {
    let mut out = vec![];
    let mut cursor: Option<JsonBytes> = None;
    let mut pages = 0;
    for round in 0..10_000u64 {
        st.calls += 1;
        let key = search_key(w, q, round + limit as u64);
        let page = h
            .get_transactions(key, if desc { IndexerOrder::Desc } else { IndexerOrder::Asc }, limit.into(), cursor.clone())
            .map_err(|e| format!("get_transactions error: {e:?}"))?;
        if page.objects.is_empty() {
            break;
        }
        if page.objects.len() > limit as usize {
            return Err(format!("page of {} objects exceeds the limit {}", page.objects.len(), limit));
        }
        pages += 1;
        for t in &page.objects {
            match t {
                IndexerTx::Ungrouped(x) => {
                    let hsh: Byte32 = x.tx_hash.clone().into();
                    out.push((hsh, x.block_number.into(), x.tx_index.into(), x.io_index.into(), match x.io_type { IndexerCellType::Input => 0, IndexerCellType::Output => 1 }));
                }
                IndexerTx::Grouped(_) => return Err("grouped answer to an ungrouped query".into()),
            }
        }
        cursor = Some(page.last_cursor);
    }
    Ok((out, pages))
}

fn page_txs_grouped(h: &IndexerHandle, w: &World, q: &Query, desc: bool, limit: u32, st: &mut Stats) -> Result<(Vec<Vec<CGTx>>, u64), String> {
    let mut out: Vec<Vec<CGTx>> = vec![];
    let mut cursor: Option<JsonBytes> = None;
    let mut pages = 0;
    for round in 0..10_000u64 {
        st.calls += 1;
        let mut key = search_key(w, q, round + limit as u64);
        key.group_by_transaction = Some(true);
        let page = h
            .get_transactions(key, if desc { IndexerOrder::Desc } else { IndexerOrder::Asc }, limit.into(), cursor.clone())
            .map_err(|e| format!("get_transactions (grouped) error: {e:?}"))?;
        if page.objects.is_empty() {
            break;
        }
        if page.objects.len() > limit as usize {
            return Err(format!("page of {} objects exceeds the limit {}", page.objects.len(), limit));
        }
        pages += 1;
        out.push(vec![]);
        for t in &page.objects {
            match t {
                IndexerTx::Grouped(x) => {
                    let hsh: Byte32 = x.tx_hash.clone().into();
                    let cells: Vec<(u8, u32)> = x.cells.iter().map(|(io, i)| (match io { IndexerCellType::Input => 0u8, IndexerCellType::Output => 1 }, (*i).into())).collect();
                    out.last_mut().unwrap().push((hsh, x.block_number.into(), x.tx_index.into(), cells));
                }
                IndexerTx::Ungrouped(_) => return Err("ungrouped answer to a grouped query".into()),
            }
        }
        cursor = Some(page.last_cursor);
    }
    Ok((out, pages))
}

struct Ctx<'a> {
    w: &'a World,
    inp: &'a Input,
    tree: &'a Tree,
    hist: u64,
    mode: &'a str,
}

fn short(h: &Byte32) -> String {
    format!("{:x}", h)[..10].to_string()
}

/// Compare every answer of the handle with the expectation for the chain ending in block `tip`.
fn battery(cx: &Ctx, h: &IndexerHandle, tip: usize, exp: &Exp, step: usize, full: bool, st: &mut Stats, out: &mut Vec<Value>) {
    let chain = cx.tree.chain(tip);
    let tx_hash = |id: u64| -> Byte32 {
        if id >= CB_BASE { cx.tree.blocks[&chain[(id - CB_BASE) as usize]].view.transactions()[0].hash() } else { cx.w.txs[id as usize].as_ref().unwrap().hash() }
    };
    // every cell of the history (for the content check)
    let mut cells: HashMap<(Byte32, u32), (CellOutput, Bytes)> = HashMap::new();
    for b in cx.tree.blocks.values() {
        for t in b.view.transactions() {
            for (i, (o, d)) in t.outputs_with_data_iter().enumerate() {
                cells.insert((t.hash(), i as u32), (o, d));
            }
        }
    }
    let content = |t: &Byte32, i: u32| cells.get(&(t.clone(), i)).cloned();
    let mut report = |kind: &str, q: Option<&Query>, detail: String, expected: Value, observed: Value, st: &mut Stats| {
        st.mismatches += 1;
        if out.len() < 40 {
            out.push(json!({"mismatch": {"mode": cx.mode, "hist": cx.hist, "step": step, "tip": tip, "kind": kind, "q": q, "detail": detail, "expected": expected, "observed": observed}}));
        }
    };
    // tip
    let tipv = &cx.tree.blocks[&tip].view;
    match catch_unwind(AssertUnwindSafe(|| h.get_indexer_tip())) {
        Ok(Ok(Some(t))) => {
            let hh: Byte32 = t.block_hash.clone().into();
            let n: u64 = t.block_number.into();
            if hh != tipv.hash() || n != tipv.number() {
                report("tip", None, "get_indexer_tip differs".into(), json!([tipv.number(), short(&tipv.hash())]), json!([n, short(&hh)]), st);
            }
        }
        other => report("tip", None, format!("get_indexer_tip: {:?}", other.map(|r| r.map(|o| o.is_some()).map_err(|e| format!("{e:?}"))).map_err(|_| "panic")), json!(null), json!(null), st),
    }
    for (qi, q) in cx.inp.cellq.iter().enumerate() {
        let filtered = q.fs != "none" || !q.slen.is_empty() || !q.dlen.is_empty() || !q.cap.is_empty() || !q.blk.is_empty();
        if filtered && !full {
            continue;
        }
        st.queries += 1;
        let want: Vec<CCell> = exp.cells[qi].iter().map(|(t, oi, bn, ti)| (tx_hash(*t), *oi, *bn, *ti)).collect();
        let show = |v: &Vec<CCell>| json!(v.iter().map(|(t, i, bn, ti)| json!([short(t), i, bn, ti])).collect::<Vec<_>>());
        let r = catch_unwind(AssertUnwindSafe(|| {
            let mut st2 = Stats { queries: 0, calls: 0, multi_page: 0, prefix_hits: 0, nonempty: 0, mismatches: 0, grouped: 0, grouped_multi: 0 };
            let mut bad = vec![];
            let mut res = vec![];
            for (desc, limit) in [(false, 100u32), (true, 100), (false, 1), (true, 1), (false, 2), (true, 2)] {
                res.push((desc, limit, page_cells(h, cx.w, q, desc, limit, &mut st2, &mut bad, &content)));
            }
            let cap = h.get_cells_capacity(search_key(cx.w, q, step as u64)).map_err(|e| format!("{e:?}"));
            (res, bad, cap, st2.calls + 1)
        }));
        match r {
            Err(_) => report("panic", Some(q), "panic inside get_cells / get_cells_capacity".into(), show(&want), json!(null), st),
            Ok((res, bad, cap, calls)) => {
                st.calls += calls;
                for b in bad.iter().take(1) {
                    report("cell-content", Some(q), b.clone(), json!(null), json!(null), st);
                }
                for (desc, limit, r) in res {
                    match r {
                        Err(e) => report("cells-error", Some(q), format!("desc={desc} limit={limit}: {e}"), show(&want), json!(null), st),
                        Ok((mut got, pages)) => {
                            if pages > 1 {
                                st.multi_page += 1;
                            }
                            if desc {
                                got.reverse();
                            }
                            if got != want {
                                let mut a = got.clone();
                                let mut b = want.clone();
                                a.sort();
                                b.sort();
                                let kind = if a == b { "cells-order" } else { "cells" };
                                report(kind, Some(q), format!("get_cells desc={desc} limit={limit}"), show(&want), show(&got), st);
                                break;
                            }
                        }
                    }
                }
                // capacity = sum over the expected cells; tip as reported
                let want_cap: u64 = want.iter().map(|(t, i, _, _)| { let c: Capacity = content(t, *i).unwrap().0.capacity().into(); c.as_u64() }).sum();
                match cap {
                    Ok(Some(c)) => {
                        let got: u64 = c.capacity.into();
                        let bh: Byte32 = c.block_hash.clone().into();
                        if got != want_cap || bh != tipv.hash() {
                            report("capacity", Some(q), "get_cells_capacity differs from the sum over the filtered live cells".into(), json!([want_cap, short(&tipv.hash())]), json!([got, short(&bh)]), st);
                        }
                    }
                    other => report("capacity", Some(q), format!("get_cells_capacity: {:?}", other.map(|o| o.is_some())), json!(want_cap), json!(null), st),
                }
                if !want.is_empty() {
                    st.nonempty += 1;
                    if !q.exact && want.iter().any(|(t, i, _, _)| {
                        let (o, _) = content(t, *i).unwrap();
                        let s = if q.st == "lock" { Some(o.lock()) } else { o.type_().to_opt() };
                        s.map(|s| s.args().raw_data().len() > cx.w.scripts[&q.s].args().raw_data().len()).unwrap_or(false)
                    }) {
                        st.prefix_hits += 1;
                    }
                }
            }
        }
    }
    for (qi, q) in cx.inp.txq.iter().enumerate() {
        let filtered = q.fs != "none" || !q.blk.is_empty();
        if filtered && !full {
            continue;
        }
        st.queries += 1;
        let want: Vec<CTx> = exp.txs[qi].iter().map(|(t, bn, ti, ioi, io)| (tx_hash(*t), *bn, *ti, *ioi, *io)).collect();
        let show = |v: &Vec<CTx>| json!(v.iter().map(|(t, bn, ti, ioi, io)| json!([short(t), bn, ti, ioi, io])).collect::<Vec<_>>());
        let r = catch_unwind(AssertUnwindSafe(|| {
            let mut st2 = Stats { queries: 0, calls: 0, multi_page: 0, prefix_hits: 0, nonempty: 0, mismatches: 0, grouped: 0, grouped_multi: 0 };
            let mut res = vec![];
            for (desc, limit) in [(false, 100u32), (true, 100), (false, 1), (true, 1), (false, 2), (true, 2)] {
                res.push((desc, limit, page_txs(h, cx.w, q, desc, limit, &mut st2)));
            }
            (res, st2.calls)
        }));
        match r {
            Err(_) => report("panic", Some(q), "panic inside get_transactions".into(), show(&want), json!(null), st),
            Ok((res, calls)) => {
                st.calls += calls;
                for (desc, limit, r) in res {
                    match r {
                        Err(e) => report("txs-error", Some(q), format!("desc={desc} limit={limit}: {e}"), show(&want), json!(null), st),
                        Ok((mut got, pages)) => {
                            if pages > 1 {
                                st.multi_page += 1;
                            }
                            if desc {
                                got.reverse();
                            }
                            if got != want {
                                let mut a = got.clone();
                                let mut b = want.clone();
                                a.sort();
                                b.sort();
                                let kind = if a == b { "txs-order" } else { "txs" };
                                report(kind, Some(q), format!("get_transactions desc={desc} limit={limit}"), show(&want), show(&got), st);
                                break;
                            }
                        }
                    }
                }
                if !want.is_empty() {
                    st.nonempty += 1;
                }
            }
        }
        // the same query with group_by_transaction
        if let Some(gw) = exp.gtxs.get(qi) {
            let want: Vec<CGTx> = gw.iter().map(|(t, bn, ti, cells)| (tx_hash(*t), *bn, *ti, cells.clone())).collect();
            let show = |v: &Vec<CGTx>| json!(v.iter().map(|(t, bn, ti, cells)| json!([short(t), bn, ti, cells])).collect::<Vec<_>>());
            let r = catch_unwind(AssertUnwindSafe(|| {
                let mut st2 = Stats { queries: 0, calls: 0, multi_page: 0, prefix_hits: 0, nonempty: 0, mismatches: 0, grouped: 0, grouped_multi: 0 };
                let mut res = vec![];
                for (desc, limit) in [(false, 100u32), (true, 100), (false, 1), (true, 1), (false, 2), (true, 2)] {
                    res.push((desc, limit, page_txs_grouped(h, cx.w, q, desc, limit, &mut st2)));
                }
                (res, st2.calls)
            }));
            match r {
                Err(_) => report("panic", Some(q), "panic inside get_transactions (grouped)".into(), show(&want), json!(null), st),
                Ok((res, calls)) => {
                    st.calls += calls;
                    st.grouped += 1;
                    if want.iter().any(|g| g.3.len() > 1) {
                        st.grouped_multi += 1;
                    }
                    for (desc, limit, r) in res {
                        match r {
                            Err(e) => report("gtxs-error", Some(q), format!("desc={desc} limit={limit}: {e}"), show(&want), json!(null), st),
                            Ok((pages_got, pages)) => {
                                if pages > 1 {
                                    st.multi_page += 1;
                                }
                                // inside a page consecutive rows of one transaction form ONE object
                                if pages_got.iter().any(|pg| pg.windows(2).any(|w| w[0].0 == w[1].0)) {
                                    report("gtxs-unmerged", Some(q), format!("group_by_transaction desc={desc} limit={limit}: two adjacent objects of one page carry the same transaction"), show(&want), json!(null), st);
                                    break;
                                }
                                let mut got: Vec<CGTx> = pages_got.into_iter().flatten().collect();
                                if desc {
                                    // descending: objects and the cells inside them come in reverse key order
                                    got.reverse();
                                    for g in got.iter_mut() {
                                        g.3.reverse();
                                    }
                                }
                                // Everything in one page: exactly the runs of the specification (TxGrouped).  Several pages: a run
                                // may be cut at a page boundary (the property is silent about grouping; with a filter the scan can stop
                                // inside a run) - the rows, in order, are what the property fixes.
                                let rows = |v: &Vec<CGTx>| -> Vec<CTx> { v.iter().flat_map(|(t, bn, ti, cells)| cells.iter().map(move |(io, ioi)| (t.clone(), *bn, *ti, *ioi, *io))).collect() };
                                let bad = if pages <= 1 { got != want } else { rows(&got) != rows(&want) };
                                if bad {
                                    report("gtxs", Some(q), format!("get_transactions group_by_transaction desc={desc} limit={limit} pages={pages}"), show(&want), show(&got), st);
                                    break;
                                }
                            }
                        }
                    }
                }
            }
        }
    }
}


/// disk hygiene: temp-db nodes leave their directories behind when dropped (≈ 80 MB each); everything this
/// process created under the temp dir since `base` was taken is removed between histories
fn tmp_entries() -> std::collections::HashSet<std::path::PathBuf> {
    std::fs::read_dir(std::env::temp_dir()).map(|d| d.filter_map(|e| e.ok().map(|e| e.path())).collect()).unwrap_or_default()
}
fn sweep(base: &std::collections::HashSet<std::path::PathBuf>) {
    for e in tmp_entries() {
        if !base.contains(&e) {
            // `SharedBuilder::with_temp_db` keeps ONE process-wide base directory with a `db_<n>` child per node:
            // keep the base, remove the children (no temp node is alive between histories)
            let kids: Vec<std::path::PathBuf> = std::fs::read_dir(&e).map(|d| d.filter_map(|x| x.ok().map(|x| x.path())).collect()).unwrap_or_default();
            if !kids.is_empty() && kids.iter().all(|k| k.file_name().map(|f| f.to_string_lossy().starts_with("db_")).unwrap_or(false)) {
                for k in kids {
                    let _ = std::fs::remove_dir_all(&k);
                }
            } else if std::fs::remove_dir_all(&e).is_err() {
                let _ = std::fs::remove_file(&e);
            }
        }
    }
}

fn flush(out: &mut Vec<Value>) {
    for v in out.drain(..) {
        println!("{}", v);
    }
}

// -------------------------------------------------------------------------------------------------
// direct: the crate-private Indexer driven by walks
// -------------------------------------------------------------------------------------------------
fn direct(inp: &Input) {
    let w = world(inp);
    let mut st = Stats { queries: 0, calls: 0, multi_page: 0, prefix_hits: 0, nonempty: 0, mismatches: 0, grouped: 0, grouped_multi: 0 };
    let (mut steps, mut appends, mut rollbacks, mut deep, mut hists) = (0u64, 0u64, 0u64, 0u64, 0u64);
    let mut out = vec![];
    for hist in &inp.hists {
        hists += 1;
        let scratch = Scratch::new("c18d");
        let vi = VerifIndexer::open(scratch.path(), inp.keep_num, inp.prune_interval);
        let h = vi.handle();
        let mut tree = Tree { blocks: HashMap::new() };
        tree.blocks.insert(0, Blk { parent: 0, view: w.consensus.genesis_block().clone() });
        vi.append(&tree.blocks[&0].view).expect("append genesis");
        let mut tip = 0usize;
        let mut consecutive_rb = 0u64;
        let n_walk = hist.ops.iter().filter(|o| o.op != "mine").count();
        let mut walked = 0;
        for (si, op) in hist.ops.iter().enumerate() {
            match op.op.as_str() {
                "mine" => {
                    let view = fabricate(&w, &tree, op);
                    tree.blocks.insert(op.b, Blk { parent: op.parent, view });
                    continue;
                }
                "append" => {
                    let r = catch_unwind(AssertUnwindSafe(|| vi.append(&tree.blocks[&op.b].view)));
                    if !matches!(r, Ok(Ok(()))) {
                        st.mismatches += 1;
                        out.push(json!({"mismatch": {"mode": "direct", "hist": hist.id, "step": si, "kind": "append-failed", "detail": format!("{:?}", r.map(|x| x.map_err(|e| format!("{e:?}"))).map_err(|_| "panic"))}}));
                        break;
                    }
                    tip = op.b;
                    appends += 1;
                    consecutive_rb = 0;
                }
                "rollback" => {
                    let r = catch_unwind(AssertUnwindSafe(|| vi.rollback()));
                    if !matches!(r, Ok(Ok(()))) {
                        st.mismatches += 1;
                        out.push(json!({"mismatch": {"mode": "direct", "hist": hist.id, "step": si, "kind": "rollback-failed", "detail": format!("{:?}", r.map(|x| x.map_err(|e| format!("{e:?}"))).map_err(|_| "panic"))}}));
                        break;
                    }
                    tip = tree.blocks[&tip].parent;
                    rollbacks += 1;
                    consecutive_rb += 1;
                    if consecutive_rb == 2 {
                        deep += 1;
                    }
                }
                _ => continue,
            }
            steps += 1;
            walked += 1;
            let full = walked == n_walk || (inp.full_every > 0 && steps % inp.full_every == 0);
            let exp = &inp.expect[hist.exp[&tip.to_string()]];
            let cx = Ctx { w: &w, inp, tree: &tree, hist: hist.id, mode: "direct" };
            battery(&cx, &h, tip, exp, si, full, &mut st, &mut out);
            flush(&mut out);
        }
        drop(h);
        drop(vi);
    }
    println!("{}", json!({"summary": {"mode": "direct", "histories": hists, "steps": steps, "appends": appends, "rollbacks": rollbacks, "rollbacks_deeper_than_1": deep,
        "queries": st.queries, "calls": st.calls, "multi_page": st.multi_page, "prefix_hits": st.prefix_hits, "nonempty": st.nonempty, "grouped": st.grouped, "grouped_multi": st.grouped_multi, "mismatches": st.mismatches}}));
}

// -------------------------------------------------------------------------------------------------
// service: a real node followed by the real IndexerService
// -------------------------------------------------------------------------------------------------
fn process_sw(n: &Node, b: &BlockView) -> Result<bool, String> {
    n.chain
        .chain_controller()
        .blocking_process_block_with_switch(Arc::new(b.clone()), ckb_verification_traits::Switch::DISABLE_TWO_PHASE_COMMIT)
        .map_err(|e| e.to_string())
}

fn service(inp: &Input) {
    let w = world(inp);
    let c = &w.consensus;
    let mut st = Stats { queries: 0, calls: 0, multi_page: 0, prefix_hits: 0, nonempty: 0, mismatches: 0, grouped: 0, grouped_multi: 0 };
    let (mut steps, mut reorgs, mut deep, mut hists, mut max_depth) = (0u64, 0u64, 0u64, 0u64, 0u64);
    let mut out = vec![];
    let mut tool_errors: Vec<String> = vec![];
    let mut slow_drops = 0u64;
    let (mut wait_ms, mut drop_ms) = (0u64, 0u64);
    let t_all = std::time::Instant::now();
    let base = tmp_entries();
    'hist: for hist in &inp.hists {
        sweep(&base);
        hists += 1;
        let scratch = Scratch::new("c18s");
        let root = scratch.path().to_path_buf();
        let n = Node::start(&NodeCfg { assembler: false, ..NodeCfg::at(c, &root) });
        let mut dbc = ckb_app_config::DBConfig::default();
        dbc.path = root.join("db");
        let mut icfg = ckb_app_config::IndexerConfig::default();
        icfg.store = root.join("indexer/store");
        icfg.secondary_path = root.join("indexer/secondary");
        icfg.poll_interval = 1;
        std::fs::create_dir_all(root.join("indexer")).unwrap();
        let handle = n.shared.async_handle().clone();
        let sdb = ckb_indexer_sync::new_secondary_db(&dbc, &(&icfg).into());
        let svc = ckb_indexer::IndexerService::new(sdb, ckb_indexer_sync::PoolService::new(false, handle.clone()), &icfg, handle);
        svc.spawn_poll(n.shared.notify_controller().clone());
        let h = svc.handle();
        let mut tree = Tree { blocks: HashMap::new() };
        tree.blocks.insert(0, Blk { parent: 0, view: c.genesis_block().clone() });
        let mut ids: HashMap<Byte32, usize> = HashMap::new();
        ids.insert(c.genesis_block().hash(), 0);
        let mut builders: Vec<(usize, Node)> = vec![];
        let mut tip = 0usize;
        let n_mine = hist.ops.len();
        for (si, op) in hist.ops.iter().enumerate() {
            if op.op != "mine" {
                continue;
            }
            // assemble on a node whose tip is the parent
            let commits: Vec<TransactionView> = op.txs.iter().map(|t| w.txs[*t].clone().unwrap()).collect();
            let spec = BlockSpec { commits, nonce: op.b as u64, ..Default::default() };
            let parent_hash = tree.blocks[&op.parent].view.hash();
            let view = if n.tip().1 == parent_hash {
                assemble(&n, &spec)
            } else {
                let bi = match builders.iter().position(|(t, _)| *t == op.parent) {
                    Some(i) => i,
                    None => {
                        let m = Node::start(&NodeCfg { assembler: false, ..NodeCfg::temp(c) });
                        for b in tree.chain(op.parent).iter().skip(1) {
                            if let Err(e) = process_sw(&m, &tree.blocks[b].view) {
                                tool_errors.push(format!("hist {} builder rejects ancestor {}: {}", hist.id, b, e));
                                continue 'hist;
                            }
                        }
                        builders.push((op.parent, m));
                        builders.len() - 1
                    }
                };
                let r = assemble(&builders[bi].1, &spec);
                if let Ok(v) = &r {
                    if let Err(e) = process_sw(&builders[bi].1, v) {
                        tool_errors.push(format!("hist {} builder rejects its own block {}: {}", hist.id, op.b, e));
                        continue 'hist;
                    }
                    builders[bi].0 = op.b;
                }
                r
            };
            let view = match view {
                Ok(v) => v,
                Err(e) => {
                    tool_errors.push(format!("hist {} cannot assemble block {}: {}", hist.id, op.b, e));
                    continue 'hist;
                }
            };
            if view.transactions()[0].outputs().len() != op.cb.len() {
                tool_errors.push(format!("hist {} block {} (number {}): cellbase has {} outputs, the model {}", hist.id, op.b, view.number(), view.transactions()[0].outputs().len(), op.cb.len()));
                continue 'hist;
            }
            ids.insert(view.hash(), op.b);
            tree.blocks.insert(op.b, Blk { parent: op.parent, view: view.clone() });
            // deliver to the node under test
            if let Err(e) = process_sw(&n, &view) {
                tool_errors.push(format!("hist {} node rejects block {}: {}", hist.id, op.b, e));
                continue 'hist;
            }
            let new_tip = ids[&n.tip().1];
            if new_tip != tip {
                if tree.blocks[&new_tip].parent != tip {
                    reorgs += 1;
                    let (a, b) = (tree.chain(tip), tree.chain(new_tip));
                    let common = a.iter().zip(b.iter()).take_while(|(x, y)| x == y).count();
                    let depth = (a.len() - common) as u64;
                    max_depth = max_depth.max(depth);
                    if depth > 1 {
                        deep += 1;
                    }
                }
                tip = new_tip;
            }
            // quiescence: the indexer's own tip equals the node's tip
            let want = n.tip().1;
            let mut ok = false;
            let t_wait = std::time::Instant::now();
            for _ in 0..36000 {
                if let Ok(Some(t)) = h.get_indexer_tip() {
                    let hh: Byte32 = t.block_hash.clone().into();
                    if hh == want {
                        ok = true;
                        break;
                    }
                }
                std::thread::sleep(std::time::Duration::from_millis(5));
            }
            wait_ms += t_wait.elapsed().as_millis() as u64;
            if !ok {
                tool_errors.push(format!("hist {} step {}: the indexer did not reach the node's tip within 180 s", hist.id, si));
                continue 'hist;
            }
            steps += 1;
            let full = si + 1 == n_mine || (inp.full_every > 0 && steps % inp.full_every == 0);
            let exp = &inp.expect[hist.exp[&tip.to_string()]];
            let cx = Ctx { w: &w, inp, tree: &tree, hist: hist.id, mode: "service" };
            battery(&cx, &h, tip, exp, si, full, &mut st, &mut out);
            flush(&mut out);
        }
        // the live cells of the node's own store agree with the model too (guards the fixture/oracle pair)
        let snap = n.shared.snapshot();
        let chain = tree.chain(tip);
        for b in &chain {
            for t in tree.blocks[b].view.transactions() {
                if snap.get_transaction_info(&t.hash()).is_none() {
                    tool_errors.push(format!("hist {}: transaction of main-chain block {} unknown to the node", hist.id, b));
                }
            }
        }
        // disk hygiene: every open RocksDB pins ~75 MB; close the nodes of this history now (in a helper thread: a
        // drop that hangs must not hang the run) and remove the directory in any case
        let root2 = root.clone();
        let t_drop = std::time::Instant::now();
        let (txc, rxc) = std::sync::mpsc::channel();
        std::thread::spawn(move || {
            drop(h);
            drop(svc);
            drop(builders);
            drop(n);
            drop(scratch);
            let _ = txc.send(());
        });
        if rxc.recv_timeout(std::time::Duration::from_secs(60)).is_err() {
            slow_drops += 1;
        }
        drop_ms += t_drop.elapsed().as_millis() as u64;
        let _ = std::fs::remove_dir_all(&root2);
    }
    sweep(&base);
    for e in &tool_errors {
        println!("{}", json!({"tool_error": e}));
    }
    println!("{}", json!({"summary": {"mode": "service", "histories": hists, "steps": steps, "reorgs": reorgs, "rollbacks_deeper_than_1": deep, "max_reorg_depth": max_depth,
        "queries": st.queries, "calls": st.calls, "multi_page": st.multi_page, "prefix_hits": st.prefix_hits, "nonempty": st.nonempty, "grouped": st.grouped, "grouped_multi": st.grouped_multi, "mismatches": st.mismatches, "tool_errors": tool_errors.len(), "slow_drops": slow_drops, "wait_ms": wait_ms, "drop_ms": drop_ms, "wall_ms": t_all.elapsed().as_millis() as u64}}));
}

fn main() {
    let args: Vec<String> = std::env::args().collect();
    let ft = ckb_systemtime::faketime();
    ft.set_faketime(GENESIS_TS + 100_000 * BLOCK_INTERVAL_MS);
    let rest = &args[2.min(args.len())..];
    let load = || -> Input { serde_json::from_str(&std::fs::read_to_string(opt(rest, "--in").expect("--in")).expect("read")).expect("input json") };
    match args.get(1).map(|s| s.as_str()) {
        Some("genesis") => {
            let c = consensus(&Params { genesis_cells: 3, ..Default::default() });
            let g = c.genesis_block();
            let t0 = &g.transactions()[0];
            let cap: Capacity = t0.outputs().get(0).unwrap().capacity().into();
            let t1 = &g.transactions()[1];
            let cap1: Capacity = t1.outputs().get(0).unwrap().capacity().into();
            println!("{}", json!({"genesis": {"deploy_cap_shannons": cap.as_u64(), "deploy_dlen": t0.outputs_data().get(0).unwrap().raw_data().len(),
                "deploy_lock_is_default": t0.outputs().get(0).unwrap().lock().as_slice() == packed::Script::default().as_slice(),
                "cell_cap_shannons": cap1.as_u64(), "cell_dlen": t1.outputs_data().get(0).unwrap().raw_data().len(),
                "cell_lock_is_as": t1.outputs().get(0).unwrap().lock().as_slice() == lock().as_slice(), "txs": g.transactions().len()}}));
        }
        Some("direct") => direct(&load()),
        Some("service") => service(&load()),
        _ => {
            eprintln!("usage: c18 genesis | direct --in f.json | service --in f.json");
            std::process::exit(2);
        }
    }
    use std::io::Write;
    std::io::stdout().flush().unwrap();
    std::process::exit(0);
}
