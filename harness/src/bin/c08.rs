//! C08 — a crash at any point of block import recovers to a consistent, convergent state.
//!
//! `c08 build  --tree <json>|--random --seed S --blocks N --out <scenario.json>`   build the blocks of a history (builder nodes)
//! `c08 run    --scenario S --dir D`    child: fresh node on D, deliver the history block by block (blocking); with
//!                                      VERIF_CRASH_AT=<n>:before|after (ckb-db hook H3) the process aborts at the n-th
//!                                      atomic database write
//! `c08 reopen --scenario S --dir D`    child: dump the persisted columns, start the node on D (a panic is data), wait
//!                                      for InitLoadUnverified and quiescence, dump, redeliver the history, dump
//! Every child prints ndjson progress lines (flushed) so that the parent sees how far a killed child got.
#[path = "../chainstate.rs"]
mod chainstate;
use chainstate::*;
use ckb_db_schema::{COLUMNS, COLUMN_BLOCK_EXT, COLUMN_NUMBER_HASH};
use ckb_store::{ChainDB, ChainStore};
use ckb_types::{core::BlockView, packed, prelude::*};
use ckbv::fixture::*;
use ckbv::util::*;
use serde_json::{json, Value};
use std::io::Write;

fn params(epoch_len: u64, genesis_cells: usize) -> Params {
    Params { epoch_len, window: (1, 2), genesis_cells, ..Default::default() }
}

fn say(v: Value) {
    let mut o = std::io::stdout().lock();
    writeln!(o, "{}", v).unwrap();
    o.flush().unwrap();
}

fn hex(b: &[u8]) -> String {
    b.iter().map(|x| format!("{:02x}", x)).collect()
}
fn unhex(s: &str) -> Vec<u8> {
    (0..s.len() / 2).map(|i| u8::from_str_radix(&s[2 * i..2 * i + 2], 16).unwrap()).collect()
}

// ---------------------------------------------------------------------------------------------- build

fn scenario_json(w: &World, epoch_len: u64) -> Value {
    let blocks: Vec<Value> = w.blocks[1..]
        .iter()
        .map(|b| {
            json!({"b": b.id, "p": b.parent, "num": b.num, "cs": b.commits, "us": b.uncles, "cbo": b.cbo, "ok": b.ok, "work": b.work,
                   "hex": hex(b.view.data().as_slice())})
        })
        .collect();
    json!({"epoch_len": epoch_len, "universe": w.uni.to_json(), "ngen": w.uni.ngen, "w0": w.blocks[0].work, "blocks": blocks})
}

/// blocks of a TLC tree ([{p, cs, ok}] for ids 1..n) behind a prelude of `prelude` empty blocks
fn build_tree(tree: &Value, defs: Vec<TxDef>, epoch_len: u64, prelude: usize) -> Result<Value, String> {
    let ngen = defs.iter().take_while(|d| d.ins.is_empty()).count();
    let c = consensus(&params(epoch_len, ngen - 1));
    let uni = Universe::concretize(&c, defs);
    let mut w = World::new(uni, Forge::new(&c));
    for p in 0..prelude {
        w.mint(p, &[], &[], false)?;
    }
    for (k, t) in tree.as_array().unwrap().iter().enumerate() {
        let ok = t["ok"].as_bool().unwrap();
        let cs: Vec<usize> = if ok { t["cs"].as_array().unwrap().iter().map(|x| x.as_u64().unwrap() as usize).collect() } else { vec![] };
        let id = w.mint(t["p"].as_u64().unwrap() as usize + prelude, &cs, &[], !ok)?;
        assert_eq!(id, k + 1 + prelude);
    }
    Ok(scenario_json(&w, epoch_len))
}

/// random history: forks with reorganisations of depth <= 4, re-commits, invalid blocks (nothing is built on them)
fn build_random(seed: u64, nblocks: usize, ntx: usize, epoch_len: u64) -> Result<Value, String> {
    let mut rng = Rng::new(seed);
    let cells = 6;
    let c = consensus(&params(epoch_len, cells));
    let defs = Universe::random_defs(&mut rng, cells, ntx);
    let uni = Universe::concretize(&c, defs);
    let mut w = World::new(uni, Forge::new(&c));
    let mut best = 0usize; // heaviest valid block so far (first seen wins, as in the node)
    let mut focus = 0usize;
    let mut forced = 0usize; // blocks still to mint on the planned overtaking branch
    while w.blocks.len() <= nblocks {
        if forced == 0 && (w.blocks.len() == 6 || w.blocks.len() == 13) && w.blocks[best].num >= 4 {
            // planned reorganisation: fork d blocks below the best block and overtake it
            let d = rng.range(1, 3) as usize;
            let chain = w.chain_ids(best);
            focus = chain[chain.len() - 1 - d];
            forced = d + 1;
        }
        if forced == 0 && rng.chance(1, 3) {
            let bn = w.blocks[best].num;
            let cands: Vec<usize> = w.blocks.iter().filter(|b| b.ok && b.num + 4 >= bn).map(|b| b.id).collect();
            focus = cands[rng.below(cands.len() as u64) as usize];
        }
        let parent = focus;
        let (mut live, done) = w.live_after(parent);
        for t in 1..=w.uni.ngen {
            if !w.chain_ids(parent).iter().any(|b| w.blocks[*b].commits.iter().any(|x| w.uni.defs[*x - 1].ins.contains(&(t, 0)))) {
                live.insert((t, 0));
            }
        }
        let want = if w.blocks[parent].num + 1 < 2 { 0 } else { rng.below(3) as usize };
        let mut commits = vec![];
        let mut order: Vec<usize> = (w.uni.ngen + 1..=w.uni.defs.len()).collect();
        for i in (1..order.len()).rev() {
            order.swap(i, rng.below(i as u64 + 1) as usize);
        }
        for t in &order {
            if commits.len() >= want {
                break;
            }
            let d = &w.uni.defs[*t - 1];
            if !done.contains(t) && d.ins.iter().all(|i| live.contains(i)) && d.deps.iter().all(|i| live.contains(i)) {
                for i in &d.ins {
                    live.remove(i);
                }
                for k in 0..d.nouts {
                    live.insert((*t, k as u32));
                }
                commits.push(*t);
            }
        }
        let flawed = forced == 0 && rng.chance(1, 8);
        forced = forced.saturating_sub(1);
        let id = w.mint(parent, &commits, &[], flawed)?;
        if !flawed {
            focus = id;
            if w.blocks[id].num > w.blocks[best].num {
                best = id;
            }
        }
    }
    Ok(scenario_json(&w, epoch_len))
}

/// directed history: a reorganisation between two branches that split BEFORE an epoch boundary while both tips lie in the
/// same epoch number (the epoch record of the new tip differs from the old one only in the block that ended the previous
/// epoch), followed by a second one back across the next boundary; a few commits on both branches
fn build_epochfork(seed: u64, epoch_len: u64) -> Result<Value, String> {
    let mut rng = Rng::new(seed);
    let cells = 6;
    let c = consensus(&params(epoch_len, cells));
    let defs = Universe::random_defs(&mut rng, cells, 8);
    let uni = Universe::concretize(&c, defs);
    let mut w = World::new(uni, Forge::new(&c));
    let l = epoch_len as usize;
    // branch A: 1 .. l+1 (tip = second block of epoch 1)
    let mut a = 0usize;
    for _ in 0..=l {
        a = w.mint(a, &[], &[], false)?;
    }
    // branch B forks two blocks below the last block of epoch 0 and overtakes A inside epoch 1
    let fork = w.chain_ids(a)[l.saturating_sub(2)];
    let mut b = fork;
    while w.blocks[b].num <= w.blocks[a].num {
        b = w.mint(b, &[], &[], false)?;
    }
    // A comes back: grows past B into epoch 2
    while w.blocks[a].num <= w.blocks[b].num + 1 {
        a = w.mint(a, &[], &[], false)?;
    }
    Ok(scenario_json(&w, epoch_len))
}

// ---------------------------------------------------------------------------------------------- children

struct Scenario {
    c: ckb_chain_spec::consensus::Consensus,
    dict: Dict,
    blocks: Vec<BlockView>, // index = id (0 = genesis)
}

fn load_scenario(path: &str) -> Scenario {
    let v: Value = serde_json::from_str(&std::fs::read_to_string(path).expect("scenario")).unwrap();
    let defs = Universe::defs_from_json(&v["universe"]);
    let ngen = v["ngen"].as_u64().unwrap() as usize;
    let c = consensus(&params(v["epoch_len"].as_u64().unwrap(), ngen - 1));
    let uni = Universe::concretize(&c, defs);
    let mut dict = Dict::default();
    let g = c.genesis_block().clone();
    dict.block_id.insert(g.hash(), 0);
    dict.blocks.push(g.clone());
    dict.tx_id = uni.id_of.clone();
    let mut blocks = vec![g];
    for b in v["blocks"].as_array().unwrap() {
        let raw = unhex(b["hex"].as_str().unwrap());
        let view = packed::Block::from_compatible_slice(&raw).unwrap().into_view();
        dict.block_id.insert(view.hash(), blocks.len());
        dict.blocks.push(view.clone());
        blocks.push(view);
    }
    Scenario { c, dict, blocks }
}

fn writes() -> u64 {
    ckb_db::verif::writes()
}

fn res_of(r: &Result<bool, String>) -> &'static str {
    match r {
        Ok(true) => "ok",
        Ok(false) => "dup",
        Err(_) => "err",
    }
}

/// ids of the stored blocks (COLUMN_NUMBER_HASH rows) that have no ext row
fn unverified<S: ChainStore>(s: &S, d: &Dict) -> Vec<i64> {
    let mut v = vec![];
    for (k, _) in s.get_iter(COLUMN_NUMBER_HASH, ckb_db::IteratorMode::Start) {
        let r = packed::NumberHashReader::from_slice_should_be_ok(k.as_ref());
        let h = r.block_hash().to_entity();
        if s.get(COLUMN_BLOCK_EXT, h.as_slice()).is_none() {
            v.push(d.bid(&h));
        }
    }
    v.sort();
    v
}

fn state_json(n: &Node, d: &Dict) -> Value {
    let snap = n.shared.snapshot();
    json!({"tip": d.bid(&snap.tip_hash()), "td": u256_to_u64(snap.total_difficulty()),
           "obs": dump_and_project(n.shared.store(), d), "unverified": unverified(n.shared.store(), d)})
}

fn run_child(sc: &Scenario, dir: &str) {
    let n = Node::start(&NodeCfg { assembler: false, ..NodeCfg::at(&sc.c, std::path::Path::new(dir)) });
    say(json!({"started": true, "writes": writes()}));
    for (id, b) in sc.blocks.iter().enumerate().skip(1) {
        let r = n.process(b);
        say(json!({"d": id, "res": res_of(&r), "writes": writes(), "tip": sc.dict.bid(&n.shared.snapshot().tip_hash())}));
    }
    say(json!({"final": state_json(&n, &sc.dict), "writes": writes()}));
}

fn reopen_child(sc: &Scenario, dir: &str) {
    // (i) what is on disk, read with a bare store before anything runs
    {
        let mut dbc = ckb_app_config::DBConfig::default();
        dbc.path = std::path::Path::new(dir).join("db");
        if dbc.path.exists() {
            let db = ckb_db::RocksDB::open(&dbc, COLUMNS);
            let store = ChainDB::new(db, Default::default());
            let has_tip = store.get_tip_header().is_some();
            say(json!({"disk": {"empty": !has_tip, "obs": if has_tip { dump_and_project(&store, &sc.dict) } else { Value::Null },
                                "unverified": unverified(&store, &sc.dict)}}));
        } else {
            say(json!({"disk": {"empty": true, "obs": Value::Null, "unverified": []}}));
        }
    }
    // (ii) the node's own restart path; a panic / error is reported, not hidden
    let w0 = writes();
    let n = match std::panic::catch_unwind(|| Node::start(&NodeCfg { assembler: false, ..NodeCfg::at(&sc.c, std::path::Path::new(dir)) })) {
        Ok(n) => n,
        Err(e) => {
            let msg = e.downcast_ref::<String>().cloned().or_else(|| e.downcast_ref::<&str>().map(|s| s.to_string())).unwrap_or_default();
            say(json!({"restart_panic": msg}));
            std::process::exit(3);
        }
    };
    say(json!({"restarted": true}));
    // (iii) InitLoadUnverified has finished its scan (Node::start waits for the flag); wait until what it resubmitted is processed
    let mut stable = 0;
    let mut last = (unverified(n.shared.store(), &sc.dict), n.shared.snapshot().tip_hash(), writes());
    // nothing unverified left and no write for 50 ms = done; something left: give the verify thread 8 s without any
    // progress (a loaded machine must not turn into an "unverified block left" verdict)
    for _ in 0..12000 {
        std::thread::sleep(std::time::Duration::from_millis(5));
        let cur = (unverified(n.shared.store(), &sc.dict), n.shared.snapshot().tip_hash(), writes());
        if cur == last {
            stable += 1;
            if (cur.0.is_empty() && stable >= 10) || stable >= 1600 {
                break;
            }
        } else {
            stable = 0;
            last = cur;
        }
    }
    let snap_json = {
        // the published snapshot: built by init_snapshot from the stored tip / current epoch / ext, or by the
        // verification of a block InitLoadUnverified resubmitted
        let snap = n.shared.snapshot();
        let e = snap.epoch_ext();
        json!({"tip": sc.dict.bid(&snap.tip_hash()), "td": u256_to_u64(snap.total_difficulty()),
               "cur": {"n": e.number(), "s": e.start_number(), "l": e.length(), "p": sc.dict.bid(&e.last_block_hash_in_previous_epoch())}})
    };
    say(json!({"initdone": state_json(&n, &sc.dict), "snap": snap_json, "writes": writes() - w0}));
    // (iv) the synchronizer delivers the history again
    for (id, b) in sc.blocks.iter().enumerate().skip(1) {
        let r = n.process(b);
        say(json!({"d": id, "res": res_of(&r), "writes": writes() - w0, "tip": sc.dict.bid(&n.shared.snapshot().tip_hash())}));
    }
    say(json!({"final": state_json(&n, &sc.dict), "writes": writes() - w0}));
}

fn main() {
    let args: Vec<String> = std::env::args().collect();
    let ft = ckb_systemtime::faketime();
    ft.set_faketime(GENESIS_TS + 100_000 * BLOCK_INTERVAL_MS);
    match args.get(1).map(|s| s.as_str()).unwrap_or("") {
        "build" => {
            let out = opt(&args, "--out").expect("--out");
            let epoch_len = opt_u64(&args, "--epoch-len", 2);
            let r = if let Some(t) = opt(&args, "--tree") {
                let v: Value = serde_json::from_str(&std::fs::read_to_string(t).unwrap()).unwrap();
                build_tree(&v["tree"], Universe::defs_from_json(&v["universe"]), epoch_len, opt_u64(&args, "--prelude", 2) as usize)
            } else if opt(&args, "--directed") == Some("epochfork") {
                build_epochfork(opt_u64(&args, "--seed", 1), epoch_len)
            } else {
                build_random(opt_u64(&args, "--seed", 1), opt_u64(&args, "--blocks", 14) as usize, opt_u64(&args, "--txs", 16) as usize, epoch_len)
            };
            match r {
                Ok(v) => {
                    std::fs::write(out, v.to_string()).unwrap();
                    say(json!({"summary": {"blocks": v["blocks"].as_array().unwrap().len(), "error": Value::Null}}));
                }
                Err(e) => say(json!({"summary": {"blocks": 0, "error": e}})),
            }
        }
        "run" => {
            let sc = load_scenario(opt(&args, "--scenario").expect("--scenario"));
            run_child(&sc, opt(&args, "--dir").expect("--dir"));
        }
        "reopen" => {
            let sc = load_scenario(opt(&args, "--scenario").expect("--scenario"));
            reopen_child(&sc, opt(&args, "--dir").expect("--dir"));
        }
        _ => {
            eprintln!("usage: c08 build|run|reopen ...");
            std::process::exit(2);
        }
    }
    std::io::stdout().flush().unwrap();
    std::process::exit(0);
}
