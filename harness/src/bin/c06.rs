//! C06 — rewards, fee split and DAO field: builds REAL chains from abstract proposal/commit patterns (TLC's or
//! random ones) with the fixture and records, per block, what the chain and the production calculators say.
//! Nothing is judged here (spec/Economics.tla via TLC for the fee structure, spec/apa/Economics_A.tla via Apalache
//! for the real-magnitude amounts).
//!
//!   c06 chains < scenarios.ndjson
//!
//! scenario: {"id", "wc", "wf", "shift", "epoch_len", "epoch_reward", "fees": [fee of tx 1, ...],
//!            "blocks": [{"props": [ids], "uprops": [ids], "commits": [ids in order]}, ...], "tail"}
//! The pattern's block i becomes block number shift + i; `shift` empty blocks come first, `tail` empty blocks last.
use ckb_db::IteratorMode;
use ckb_store::ChainStore;
use ckb_types::{
    bytes::Bytes,
    core::{BlockBuilder, BlockView, Capacity, TransactionView, UncleBlockView},
    packed::{self, CellOutput, ProposalShortId},
    prelude::*,
};
use ckbv::fixture::*;
use serde_json::{json, Value};
use std::io::{BufRead, Write};

fn tag_lock(tag: u64) -> packed::Script {
    lock().as_builder().args(Bytes::from(tag.to_le_bytes().to_vec()).pack()).build()
}
fn tag_of(s: &packed::Script) -> Value {
    let a = s.args().raw_data();
    if a.len() == 8 {
        let mut b = [0u8; 8];
        b.copy_from_slice(&a);
        json!(u64::from_le_bytes(b))
    } else {
        Value::Null
    }
}

/// the block assembled by the fixture, with the miner's lock (cellbase witness) made unique: args = tag
fn retag(b: &BlockView, tag: u64) -> BlockView {
    let cb = b.transactions()[0].clone();
    let witness = packed::CellbaseWitness::new_builder().lock(tag_lock(tag)).message(Bytes::from(tag.to_le_bytes().to_vec()).pack()).build();
    let cb2 = cb.as_advanced_builder().set_witnesses(vec![witness.as_bytes().pack()]).build();
    let mut txs: Vec<TransactionView> = b.transactions();
    txs[0] = cb2;
    b.as_advanced_builder().set_transactions(txs).build()
}

fn live(n: &Node) -> (u128, u128) {
    let snap = n.shared.snapshot();
    let (mut cap, mut occ) = (0u128, 0u128);
    for (_k, v) in snap.get_iter(ckb_db_schema::COLUMN_CELL, IteratorMode::Start) {
        let e = packed::CellEntryReader::from_slice_should_be_ok(v.as_ref());
        let out = e.output().to_entity();
        let dsz: u64 = e.data_size().into();
        occ += out.occupied_capacity(Capacity::bytes(dsz as usize).unwrap()).unwrap().as_u64() as u128;
        let c: u64 = out.capacity().into();
        cap += c as u128;
    }
    (cap, occ)
}

fn dao_json(d: &packed::Byte32) -> Value {
    let (ar, c, s, u) = ckb_dao_utils::extract_dao_data(d.clone());
    json!({"ar": ar.to_string(), "c": c.as_u64().to_string(), "s": s.as_u64().to_string(), "u": u.as_u64().to_string()})
}

fn ids(v: &Value) -> Vec<usize> {
    v.as_array().map(|a| a.iter().map(|x| x.as_u64().unwrap() as usize).collect()).unwrap_or_default()
}

fn run(sc: &Value) -> Result<Value, String> {
    let wc = sc["wc"].as_u64().unwrap();
    let wf = sc["wf"].as_u64().unwrap();
    let shift = sc["shift"].as_u64().unwrap();
    let tail = sc["tail"].as_u64().unwrap();
    let fees: Vec<u64> = sc["fees"].as_array().unwrap().iter().map(|x| x.as_u64().unwrap()).collect();
    let p = Params {
        epoch_len: sc["epoch_len"].as_u64().unwrap(),
        window: (wc, wf),
        genesis_cells: fees.len().max(1),
        epoch_reward_ckb: sc["epoch_reward"].as_u64().unwrap(),
        ..Default::default()
    };
    let c = consensus(&p);
    let node = Node::start(&NodeCfg { assembler: false, ..NodeCfg::temp(&c) });
    let cell_cap = 50_000u64 * 100_000_000;
    // tx i spends genesis cell i into (i % 2) + 1 outputs with some data, paying fees[i]
    let txs: Vec<TransactionView> = fees
        .iter()
        .enumerate()
        .map(|(i, f)| {
            let t = spend(&c, &[genesis_cell(&c, i)], cell_cap, i % 2 + 1, *f, 0);
            // give the first output some data so that occupied capacities move
            let data: Vec<packed::Bytes> = (0..t.outputs().len()).map(|k| Bytes::from(vec![7u8; if k == 0 { i * 3 } else { 0 }]).pack()).collect();
            t.as_advanced_builder().set_outputs_data(data).build()
        })
        .collect();
    let short = |i: usize| -> ProposalShortId { txs[i - 1].proposal_short_id() };
    let pattern = sc["blocks"].as_array().unwrap();
    let total = shift as usize + pattern.len() + tail as usize;
    let mut recs = vec![];
    let (gcap, gocc) = live(&node);
    let g = c.genesis_block();
    recs.push(json!({"n": 0, "dao": dao_json(&g.header().dao()), "live_cap": gcap.to_string(), "live_occ": gocc.to_string()}));
    for k in 1..=total {
        let pb = if k > shift as usize && k <= shift as usize + pattern.len() { Some(&pattern[k - 1 - shift as usize]) } else { None };
        let props: Vec<usize> = pb.map(|b| ids(&b["props"])).unwrap_or_default();
        let uprops: Vec<usize> = pb.map(|b| ids(&b["uprops"])).unwrap_or_default();
        let commits: Vec<usize> = pb.map(|b| ids(&b["commits"])).unwrap_or_default();
        let snap = node.shared.cloned_snapshot();
        let tip = snap.tip_header().clone();
        let uncles: Vec<UncleBlockView> = if uprops.is_empty() {
            vec![]
        } else {
            if tip.number() < 1 {
                return Err("uncle requested for block 1".into());
            }
            // a sibling of the tip block proposing `uprops`
            let uh = tip.as_advanced_builder().timestamp(tip.timestamp() + 1 + k as u64).nonce(k as u128 + 77).build();
            vec![BlockBuilder::default().header(uh).proposals(uprops.iter().map(|i| short(*i)).collect::<Vec<_>>()).build().as_uncle()]
        };
        // occupied capacity freed by the inputs of the committed transactions (measured on the cells before the block)
        let mut freed = 0u128;
        let mut added = 0u128;
        for i in &commits {
            let t = &txs[*i - 1];
            for inp in t.inputs() {
                let cm = snap.get_cell(&inp.previous_output()).ok_or("input not live")?;
                freed += cm.occupied_capacity().map_err(|e| e.to_string())?.as_u64() as u128;
            }
            for (o, d) in t.outputs_with_data_iter() {
                added += o.occupied_capacity(Capacity::bytes(d.len()).unwrap()).unwrap().as_u64() as u128;
            }
        }
        let spec = BlockSpec {
            commits: commits.iter().map(|i| txs[*i - 1].clone()).collect(),
            proposals: props.iter().map(|i| short(*i)).collect(),
            uncles,
            nonce: k as u64,
            ..Default::default()
        };
        let b = retag(&assemble(&node, &spec).map_err(|e| format!("assemble block {k}: {e}"))?, 1000 + k as u64);
        // what the production calculator says this block has to pay (before the block is attached)
        let (tlock, rw) = ckb_reward_calculator::RewardCalculator::new(&c, snap.as_ref()).block_reward_to_finalize(&tip).map_err(|e| e.to_string())?;
        let target = c.finalize_target(k as u64).unwrap();
        let cell_occ = CellOutput::new_builder().capacity(rw.total).lock(tlock.clone()).build().occupied_capacity(Capacity::zero()).unwrap();
        match node.submit_like_miner(&b) {
            Ok(_) => {}
            Err(e) => return Err(format!("block {k} rejected: {e}")),
        }
        let cb = &b.transactions()[0];
        for o in cb.outputs() {
            added += o.occupied_capacity(Capacity::zero()).unwrap().as_u64() as u128;
        }
        let snap2 = node.shared.cloned_snapshot();
        if snap2.tip_hash() != b.hash() {
            return Err(format!("block {k} did not become the tip"));
        }
        let ext = snap2.get_block_ext(&b.hash()).ok_or("no block ext")?;
        let ep = snap2.get_block_epoch_index(&b.hash()).and_then(|i| snap2.get_epoch_ext(&i)).ok_or("no epoch ext")?;
        let (lcap, locc) = live(&node);
        let cb_cap: u128 = cb.outputs().into_iter().map(|o| { let c: u64 = o.capacity().into(); c as u128 }).sum();
        recs.push(json!({
            "n": k, "props": props, "uprops": uprops,
            "commits": commits.iter().zip(ext.txs_fees.iter()).map(|(i, f)| json!({"id": i, "fee": f.as_u64()})).collect::<Vec<_>>(),
            "fees_n": ext.txs_fees.len(),
            "cb_cap": cb_cap.to_string(), "cb_outputs": cb.outputs().len(),
            "cb_lock_tag": cb.outputs().get(0).map(|o| tag_of(&o.lock())).unwrap_or(Value::Null),
            "miner_tag": 1000 + k as u64,
            "dao": dao_json(&b.header().dao()),
            "epoch": {"number": ep.number(), "start": ep.start_number(), "len": ep.length(), "base": ep.base_block_reward().as_u64().to_string(), "rem": ep.remainder_reward().as_u64().to_string()},
            "added": added.to_string(), "freed": freed.to_string(),
            "live_cap": lcap.to_string(), "live_occ": locc.to_string(),
            "calc": {"target": target, "total": rw.total.as_u64().to_string(), "primary": rw.primary.as_u64().to_string(),
                     "secondary": rw.secondary.as_u64().to_string(), "tx_fee": rw.tx_fee.as_u64(), "proposal_reward": rw.proposal_reward.as_u64(),
                     "lock_tag": tag_of(&tlock), "cell_occ": cell_occ.as_u64().to_string()},
        }));
    }
    Ok(json!({"scenario": sc["id"], "wc": wc, "wf": wf, "shift": shift, "secondary_epoch": c.secondary_epoch_reward().as_u64().to_string(),
              "ratio": [4, 10], "blocks": recs}))
}

fn main() {
    let ft = ckb_systemtime::faketime();
    ft.set_faketime(GENESIS_TS + 100_000 * BLOCK_INTERVAL_MS);
    let args: Vec<String> = std::env::args().collect();
    if args.get(1).map(|s| s.as_str()) != Some("chains") {
        eprintln!("usage: c06 chains < scenarios.ndjson");
        std::process::exit(2);
    }
    let stdin = std::io::stdin();
    let stdout = std::io::stdout();
    let mut n = 0;
    for line in stdin.lock().lines() {
        let line = line.unwrap();
        let sc: Value = match serde_json::from_str(&line) { Ok(v) => v, Err(_) => continue };
        let r = match run(&sc) { Ok(v) => v, Err(e) => json!({"scenario": sc["id"], "error": e}) };
        let mut out = stdout.lock();
        writeln!(out, "{}", r).unwrap();
        out.flush().unwrap();
        n += 1;
    }
    println!("{}", json!({"summary": {"scenarios": n}}));
    std::io::stdout().flush().unwrap();
    std::process::exit(0);
}
