//! C06 — rewards, fee split and DAO field: builds REAL chains from abstract proposal/commit patterns (TLC's or
//! random ones) with the fixture and records, per block, what the chain and the production calculators say.
//! Nothing is judged here (spec/Economics.tla via TLC for the fee structure, spec/apa/Economics_A.tla via Apalache
//! for the real-magnitude amounts).
//!
//!   c06 chains < scenarios.ndjson
//!   c06 dao    < dao-scenarios.ndjson      NervosDAO deposit / prepare / withdraw life cycles (spec/Dao.tla patterns or random)
//!
//! scenario: {"id", "wc", "wf", "shift", "epoch_len", "epoch_reward", "fees": [fee of tx 1, ...],
//!            "blocks": [{"props": [ids], "uprops": [ids], "commits": [ids in order]}, ...], "tail"}
//! The pattern's block i becomes block number shift + i; `shift` empty blocks come first, `tail` empty blocks last.
use ckb_db::IteratorMode;
use ckb_store::ChainStore;
use ckb_types::{
    bytes::Bytes,
    core::{BlockBuilder, BlockView, Capacity, TransactionView, UncleBlockView},
    packed::{self, CellOutput, ProposalShortId},
    prelude::*,
};
use ckbv::fixture::*;
use serde_json::{json, Value};
use std::io::{BufRead, Write};

fn tag_lock(tag: u64) -> packed::Script {
    lock().as_builder().args(Bytes::from(tag.to_le_bytes().to_vec()).pack()).build()
}
fn tag_of(s: &packed::Script) -> Value {
    let a = s.args().raw_data();
    if a.len() == 8 {
        let mut b = [0u8; 8];
        b.copy_from_slice(&a);
        json!(u64::from_le_bytes(b))
    } else {
        Value::Null
    }
}

/// the block assembled by the fixture, with the miner's lock (cellbase witness) made unique: args = tag
fn retag(b: &BlockView, tag: u64) -> BlockView {
    let cb = b.transactions()[0].clone();
    let witness = packed::CellbaseWitness::new_builder().lock(tag_lock(tag)).message(Bytes::from(tag.to_le_bytes().to_vec()).pack()).build();
    let cb2 = cb.as_advanced_builder().set_witnesses(vec![witness.as_bytes().pack()]).build();
    let mut txs: Vec<TransactionView> = b.transactions();
    txs[0] = cb2;
    b.as_advanced_builder().set_transactions(txs).build()
}

fn live(n: &Node) -> (u128, u128) {
    let snap = n.shared.snapshot();
    let (mut cap, mut occ) = (0u128, 0u128);
    for (_k, v) in snap.get_iter(ckb_db_schema::COLUMN_CELL, IteratorMode::Start) {
        let e = packed::CellEntryReader::from_slice_should_be_ok(v.as_ref());
        let out = e.output().to_entity();
        let dsz: u64 = e.data_size().into();
        occ += out.occupied_capacity(Capacity::bytes(dsz as usize).unwrap()).unwrap().as_u64() as u128;
        let c: u64 = out.capacity().into();
        cap += c as u128;
    }
    (cap, occ)
}

fn dao_json(d: &packed::Byte32) -> Value {
    let (ar, c, s, u) = ckb_dao_utils::extract_dao_data(d.clone());
    json!({"ar": ar.to_string(), "c": c.as_u64().to_string(), "s": s.as_u64().to_string(), "u": u.as_u64().to_string()})
}

fn ids(v: &Value) -> Vec<usize> {
    v.as_array().map(|a| a.iter().map(|x| x.as_u64().unwrap() as usize).collect()).unwrap_or_default()
}

fn run(sc: &Value) -> Result<Value, String> {
    let wc = sc["wc"].as_u64().unwrap();
    let wf = sc["wf"].as_u64().unwrap();
    let shift = sc["shift"].as_u64().unwrap();
    let tail = sc["tail"].as_u64().unwrap();
    let fees: Vec<u64> = sc["fees"].as_array().unwrap().iter().map(|x| x.as_u64().unwrap()).collect();
    let p = Params {
        epoch_len: sc["epoch_len"].as_u64().unwrap(),
        window: (wc, wf),
        genesis_cells: fees.len().max(1),
        epoch_reward_ckb: sc["epoch_reward"].as_u64().unwrap(),
        ..Default::default()
    };
    let c = consensus(&p);
    let node = Node::start(&NodeCfg { assembler: false, ..NodeCfg::temp(&c) });
    let cell_cap = 50_000u64 * 100_000_000;
    // tx i spends genesis cell i into (i % 2) + 1 outputs with some data, paying fees[i]
    let txs: Vec<TransactionView> = fees
        .iter()
        .enumerate()
        .map(|(i, f)| {
            let t = spend(&c, &[genesis_cell(&c, i)], cell_cap, i % 2 + 1, *f, 0);
            // give the first output some data so that occupied capacities move
            let data: Vec<packed::Bytes> = (0..t.outputs().len()).map(|k| Bytes::from(vec![7u8; if k == 0 { i * 3 } else { 0 }]).pack()).collect();
            t.as_advanced_builder().set_outputs_data(data).build()
        })
        .collect();
    let short = |i: usize| -> ProposalShortId { txs[i - 1].proposal_short_id() };
    let pattern = sc["blocks"].as_array().unwrap();
    let total = shift as usize + pattern.len() + tail as usize;
    let mut recs = vec![];
    let (gcap, gocc) = live(&node);
    let g = c.genesis_block();
    recs.push(json!({"n": 0, "dao": dao_json(&g.header().dao()), "live_cap": gcap.to_string(), "live_occ": gocc.to_string()}));
    for k in 1..=total {
        let pb = if k > shift as usize && k <= shift as usize + pattern.len() { Some(&pattern[k - 1 - shift as usize]) } else { None };
        let props: Vec<usize> = pb.map(|b| ids(&b["props"])).unwrap_or_default();
        let uprops: Vec<usize> = pb.map(|b| ids(&b["uprops"])).unwrap_or_default();
        let commits: Vec<usize> = pb.map(|b| ids(&b["commits"])).unwrap_or_default();
        let snap = node.shared.cloned_snapshot();
        let tip = snap.tip_header().clone();
        let uncles: Vec<UncleBlockView> = if uprops.is_empty() {
            vec![]
        } else {
            if tip.number() < 1 {
                return Err("uncle requested for block 1".into());
            }
            // a sibling of the tip block proposing `uprops`
            let uh = tip.as_advanced_builder().timestamp(tip.timestamp() + 1 + k as u64).nonce(k as u128 + 77).build();
            vec![BlockBuilder::default().header(uh).proposals(uprops.iter().map(|i| short(*i)).collect::<Vec<_>>()).build().as_uncle()]
        };
        // occupied capacity freed by the inputs of the committed transactions (measured on the cells before the block)
        let mut freed = 0u128;
        let mut added = 0u128;
        for i in &commits {
            let t = &txs[*i - 1];
            for inp in t.inputs() {
                let cm = snap.get_cell(&inp.previous_output()).ok_or("input not live")?;
                freed += cm.occupied_capacity().map_err(|e| e.to_string())?.as_u64() as u128;
            }
            for (o, d) in t.outputs_with_data_iter() {
                added += o.occupied_capacity(Capacity::bytes(d.len()).unwrap()).unwrap().as_u64() as u128;
            }
        }
        let spec = BlockSpec {
            commits: commits.iter().map(|i| txs[*i - 1].clone()).collect(),
            proposals: props.iter().map(|i| short(*i)).collect(),
            uncles,
            nonce: k as u64,
            ..Default::default()
        };
        let b = retag(&assemble(&node, &spec).map_err(|e| format!("assemble block {k}: {e}"))?, 1000 + k as u64);
        // what the production calculator says this block has to pay (before the block is attached)
        let (tlock, rw) = ckb_reward_calculator::RewardCalculator::new(&c, snap.as_ref()).block_reward_to_finalize(&tip).map_err(|e| e.to_string())?;
        let target = c.finalize_target(k as u64).unwrap();
        let cell_occ = CellOutput::new_builder().capacity(rw.total).lock(tlock.clone()).build().occupied_capacity(Capacity::zero()).unwrap();
        match node.submit_like_miner(&b) {
            Ok(_) => {}
            Err(e) => return Err(format!("block {k} rejected: {e}")),
        }
        let cb = &b.transactions()[0];
        for o in cb.outputs() {
            added += o.occupied_capacity(Capacity::zero()).unwrap().as_u64() as u128;
        }
        let snap2 = node.shared.cloned_snapshot();
        if snap2.tip_hash() != b.hash() {
            return Err(format!("block {k} did not become the tip"));
        }
        let ext = snap2.get_block_ext(&b.hash()).ok_or("no block ext")?;
        let ep = snap2.get_block_epoch_index(&b.hash()).and_then(|i| snap2.get_epoch_ext(&i)).ok_or("no epoch ext")?;
        let (lcap, locc) = live(&node);
        let cb_cap: u128 = cb.outputs().into_iter().map(|o| { let c: u64 = o.capacity().into(); c as u128 }).sum();
        recs.push(json!({
            "n": k, "props": props, "uprops": uprops,
            "commits": commits.iter().zip(ext.txs_fees.iter()).map(|(i, f)| json!({"id": i, "fee": f.as_u64()})).collect::<Vec<_>>(),
            "fees_n": ext.txs_fees.len(),
            "cb_cap": cb_cap.to_string(), "cb_outputs": cb.outputs().len(),
            "cb_lock_tag": cb.outputs().get(0).map(|o| tag_of(&o.lock())).unwrap_or(Value::Null),
            "miner_tag": 1000 + k as u64,
            "dao": dao_json(&b.header().dao()),
            "epoch": {"number": ep.number(), "start": ep.start_number(), "len": ep.length(), "base": ep.base_block_reward().as_u64().to_string(), "rem": ep.remainder_reward().as_u64().to_string()},
            "added": added.to_string(), "freed": freed.to_string(),
            "live_cap": lcap.to_string(), "live_occ": locc.to_string(),
            "calc": {"target": target, "total": rw.total.as_u64().to_string(), "primary": rw.primary.as_u64().to_string(),
                     "secondary": rw.secondary.as_u64().to_string(), "tx_fee": rw.tx_fee.as_u64(), "proposal_reward": rw.proposal_reward.as_u64(),
                     "lock_tag": tag_of(&tlock), "cell_occ": cell_occ.as_u64().to_string()},
        }));
    }
    Ok(json!({"scenario": sc["id"], "wc": wc, "wf": wf, "shift": shift, "secondary_epoch": c.secondary_epoch_reward().as_u64().to_string(),
              "ratio": [4, 10], "blocks": recs}))
}

// ------------------------------------------------------------------------------------------------ NervosDAO life cycles
/// Consensus whose genesis cellbase carries, at output 2, a typed code cell: its type-script hash is the consensus'
/// `dao_type_hash`, so a cell typed `{code_hash: dao_type_hash, hash_type: type}` is a NervosDAO cell for the node's
/// accounting (DaoCalculator, CapacityVerifier).  The code is the always-success binary: the on-chain script accepts
/// everything, what is judged is the NODE's own accounting (maximum withdraw, fee, DAO field, nothing else mints).
fn consensus_dao(p: &Params) -> ckb_chain_spec::consensus::Consensus {
    use ckb_chain_spec::consensus::{build_genesis_epoch_ext, ConsensusBuilder, ProposalWindow};
    use ckb_types::core::{capacity_bytes, TransactionBuilder};
    use ckb_types::packed::{CellInput, OutPoint};
    let (as_cell, as_data, as_lock) = ckb_test_chain_utils::always_success_cell().clone();
    let code_type = as_lock.clone().as_builder().args(Bytes::from(b"nervosdao".to_vec()).pack()).build();
    let dao_code_cell = CellOutput::new_builder().capacity(capacity_bytes!(10_000)).lock(as_lock.clone()).type_(Some(code_type).pack()).build();
    let tx0 = TransactionBuilder::default()
        .witness(as_lock.clone().into_witness())
        .input(CellInput::new(OutPoint::null(), 0))
        .output(as_cell.clone())
        .output_data(as_data.clone().pack())
        .output(CellOutput::new_builder().capacity(capacity_bytes!(100)).lock(as_lock.clone()).build())
        .output_data(Bytes::new().pack())
        .output(dao_code_cell)
        .output_data(as_data.pack())
        .build();
    let transactions: Vec<TransactionView> = (0..p.genesis_cells as u64)
        .map(|i| {
            TransactionBuilder::default()
                .input(CellInput::new(OutPoint::null(), 0))
                .output(CellOutput::new_builder().capacity(capacity_bytes!(50_000)).lock(as_lock.clone()).build())
                .output_data(Bytes::from(i.to_le_bytes().to_vec()).pack())
                .build()
        })
        .collect();
    let all: Vec<&TransactionView> = std::iter::once(&tx0).chain(transactions.iter()).collect();
    let dao = ckb_dao_utils::genesis_dao_data(all).unwrap();
    let genesis_block = BlockBuilder::default()
        .dao(dao)
        .compact_target(ckb_types::utilities::DIFF_TWO)
        .timestamp(GENESIS_TS)
        .transaction(tx0)
        .transactions(transactions)
        .build();
    let epoch_ext = build_genesis_epoch_ext(Capacity::shannons(p.epoch_reward_ckb * 100_000_000), ckb_types::utilities::DIFF_TWO, p.epoch_len, 8 * p.epoch_len, (1, 40));
    ConsensusBuilder::new(genesis_block, epoch_ext)
        .cellbase_maturity(p.cellbase_maturity)
        .epoch_duration_target(8 * p.epoch_len)
        .permanent_difficulty_in_dummy(true)
        .median_time_block_count(p.median_time_block_count)
        .tx_proposal_window(ProposalWindow(p.window.0, p.window.1))
        .build()
}

#[derive(Clone)]
struct DaoCell {
    cap: u64,
    lock: packed::Script,
    /// plain cell (out-point, capacity) that funds the next step and takes the change
    purse: (packed::OutPoint, u64),
    dao_cell: Option<packed::OutPoint>,
    d: Option<(u64, packed::Byte32)>,
    p: Option<(u64, packed::Byte32)>,
}

struct Planned {
    tx: TransactionView,
    kind: String,
    cells: Vec<usize>,
    /// per NervosDAO input of a phase-2 transaction: what the harness claims (its own arithmetic; judged by the spec)
    wd: Vec<Value>,
    plain_in: u64,
    /// the same transaction creating ONE shannon more (must make the block invalid)
    over: Option<TransactionView>,
}

fn ar_of(h: &ckb_types::core::HeaderView) -> u64 {
    ckb_dao_utils::extract_dao_data(h.dao()).0
}

fn run_dao(sc: &Value) -> Result<Value, String> {
    use ckb_types::core::{DepType, ScriptHashType, TransactionBuilder};
    use ckb_types::packed::{CellDep, CellInput, OutPoint, WitnessArgs};
    let shift = sc["shift"].as_u64().unwrap() as usize;
    let tail = sc["tail"].as_u64().unwrap() as usize;
    let cells_j = sc["cells"].as_array().unwrap();
    let ops = sc["ops"].as_array().unwrap();
    let combine = sc["combine"].as_bool().unwrap_or(false);
    let (wc, wf) = (1u64, 3u64);
    let p = Params {
        epoch_len: sc["epoch_len"].as_u64().unwrap(),
        window: (wc, wf),
        genesis_cells: cells_j.len(),
        epoch_reward_ckb: sc["epoch_reward"].as_u64().unwrap(),
        ..Default::default()
    };
    let c = consensus_dao(&p);
    let node = Node::start(&NodeCfg { assembler: false, ..NodeCfg::temp(&c) });
    let g = c.genesis_block();
    let tx0 = g.transactions()[0].hash();
    let dao_type = packed::Script::new_builder().code_hash(c.dao_type_hash()).hash_type(ScriptHashType::Type).build();
    let deps = vec![
        always_success_dep(&c),
        CellDep::new_builder().out_point(OutPoint::new(tx0, 2)).dep_type(DepType::Code).build(),
    ];
    let mut cells: Vec<DaoCell> = cells_j
        .iter()
        .enumerate()
        .map(|(i, j)| DaoCell {
            cap: j["cap"].as_u64().unwrap(),
            lock: lock().as_builder().args(Bytes::from(vec![i as u8 + 1; j["args"].as_u64().unwrap() as usize]).pack()).build(),
            purse: (genesis_cell(&c, i), 50_000u64 * 100_000_000),
            dao_cell: None,
            d: None,
            p: None,
        })
        .collect();
    let fee_of = |kind: &str, i: usize| -> u64 { sc["fees"][kind].get(i).and_then(|x| x.as_u64()).unwrap_or(0) };
    let dao_out = |cell: &DaoCell, data: [u8; 8]| -> (CellOutput, Bytes) {
        (CellOutput::new_builder().capacity(Capacity::shannons(cell.cap)).lock(cell.lock.clone()).type_(Some(dao_type.clone()).pack()).build(), Bytes::from(data.to_vec()))
    };
    let plain_out = |cap: u64| -> CellOutput { CellOutput::new_builder().capacity(Capacity::shannons(cap)).lock(lock()).build() };
    let total = shift + 2 * ops.len() + tail;
    let mut recs = vec![];
    let (gcap, gocc) = live(&node);
    recs.push(json!({"n": 0, "dao": dao_json(&g.header().dao()), "live_cap": gcap.to_string(), "live_occ": gocc.to_string()}));
    let mut pending: Vec<Planned> = vec![];
    let mut probe_accepted: Option<Value> = None;
    // a block the calculators / the node refuse although the scenario holds it to be valid: reported, judged by the check
    let mut refused: Option<Value> = None;
    for k in 1..=total {
        let snap = node.shared.cloned_snapshot();
        let tip = snap.tip_header().clone();
        // ---- transactions to be committed by block k + 1 (proposed by block k): pattern block i sits at height shift + 2 i
        let mut next: Vec<Planned> = vec![];
        if k + 1 > shift && (k + 1 - shift) % 2 == 0 && (k + 1 - shift) / 2 >= 1 && (k + 1 - shift) / 2 <= ops.len() {
            let row = ops[(k + 1 - shift) / 2 - 1].as_array().unwrap();
            let mut withdraws: Vec<usize> = vec![];
            for (i, kind) in row.iter().enumerate() {
                match kind.as_str().unwrap() {
                    "deposit" => {
                        let cell = &cells[i];
                        let fee = fee_of("deposit", i);
                        let (o, d) = dao_out(cell, [0u8; 8]);
                        let change = cell.purse.1 - cell.cap - fee;
                        let tx = TransactionBuilder::default()
                            .cell_deps(deps.clone())
                            .input(CellInput::new(cell.purse.0.clone(), 0))
                            .output(o).output_data(d.pack())
                            .output(plain_out(change)).output_data(Bytes::new().pack())
                            .build();
                        next.push(Planned { tx, kind: "deposit".into(), cells: vec![i], wd: vec![], plain_in: 0, over: None });
                    }
                    "prepare" => {
                        let cell = &cells[i];
                        let fee = fee_of("prepare", i);
                        let (dn, dh) = cell.d.clone().ok_or("prepare before deposit")?;
                        let (o, d) = dao_out(cell, dn.to_le_bytes());
                        let tx = TransactionBuilder::default()
                            .cell_deps(deps.clone())
                            .header_dep(dh)
                            .input(CellInput::new(cell.dao_cell.clone().unwrap(), 0))
                            .input(CellInput::new(cell.purse.0.clone(), 0))
                            .output(o).output_data(d.pack())
                            .output(plain_out(cell.purse.1 - fee)).output_data(Bytes::new().pack())
                            .build();
                        next.push(Planned { tx, kind: "prepare".into(), cells: vec![i], wd: vec![], plain_in: 0, over: None });
                    }
                    "withdraw" => withdraws.push(i),
                    _ => {}
                }
            }
            // phase 2: one transaction per deposit, or ONE transaction consuming all of them (witness index per input)
            let groups: Vec<Vec<usize>> = if combine && withdraws.len() > 1 { vec![withdraws.clone()] } else { withdraws.iter().map(|i| vec![*i]).collect() };
            for grp in groups {
                let mut hdeps: Vec<packed::Byte32> = vec![];
                // header deps in an order that is NOT deposit-first: phase-1 headers first, deposits after, reversed per group
                for i in grp.iter().rev() { hdeps.push(cells[*i].p.clone().ok_or("withdraw before prepare")?.1); }
                for i in grp.iter() { hdeps.push(cells[*i].d.clone().unwrap().1); }
                hdeps.dedup();
                let mut uniq: Vec<packed::Byte32> = vec![];
                for h in hdeps { if !uniq.contains(&h) { uniq.push(h); } }
                let mut b = TransactionBuilder::default().cell_deps(deps.clone()).header_deps(uniq.clone());
                let (mut sum_w, mut plain_in, mut fee) = (0u128, 0u64, 0u64);
                let mut wd = vec![];
                let mut witnesses: Vec<packed::Bytes> = vec![];
                for i in &grp {
                    let cell = &cells[*i];
                    let (dn, dh) = cell.d.clone().unwrap();
                    let (pn, ph) = cell.p.clone().unwrap();
                    let cm = snap.get_cell(&cell.dao_cell.clone().unwrap()).ok_or("phase-1 cell not live")?;
                    let occ = cm.occupied_capacity().map_err(|e| e.to_string())?.as_u64();
                    let (ar_d, ar_w) = (ar_of(&snap.get_block_header(&dh).ok_or("no deposit header")?), ar_of(&snap.get_block_header(&ph).ok_or("no phase-1 header")?));
                    // the harness' own arithmetic (u128, floor): judged against EconomicsArith!WithdrawAmount by Apalache
                    let w = ((cell.cap - occ) as u128 * ar_w as u128 / ar_d as u128) as u64 + occ;
                    sum_w += w as u128;
                    fee += fee_of("withdraw", *i);
                    wd.push(json!({"c": i + 1, "cap": cell.cap.to_string(), "occ": occ.to_string(), "arD": ar_d.to_string(), "arW": ar_w.to_string(), "claimed": w.to_string(), "dnum": dn, "pnum": pn}));
                    let idx = uniq.iter().position(|h| h == &dh).unwrap() as u64;
                    b = b.input(CellInput::new(cell.dao_cell.clone().unwrap(), 0));
                    witnesses.push(WitnessArgs::new_builder().input_type(Some(Bytes::from(idx.to_le_bytes().to_vec())).pack()).build().as_bytes().pack());
                }
                // the purse of the first deposit of the group joins as a plain input
                let purse = cells[grp[0]].purse.clone();
                b = b.input(CellInput::new(purse.0.clone(), 0));
                witnesses.push(Bytes::new().pack());
                plain_in += purse.1;
                let out_cap = sum_w as u64 + plain_in - fee;
                let tx = b.clone().set_witnesses(witnesses.clone()).output(plain_out(out_cap)).output_data(Bytes::new().pack()).build();
                let over = b.set_witnesses(witnesses).output(plain_out(sum_w as u64 + plain_in + 1)).output_data(Bytes::new().pack()).build();
                next.push(Planned { tx, kind: "withdraw".into(), cells: grp.clone(), wd, plain_in, over: Some(over) });
            }
        }
        // ---- block k: commits what was planned one iteration ago, proposes `next`
        let commits: Vec<TransactionView> = pending.iter().map(|p| p.tx.clone()).collect();
        let measure = |txs: &[TransactionView]| -> Result<(u128, u128), String> {
            let (mut freed, mut added) = (0u128, 0u128);
            for t in txs {
                for inp in t.inputs() {
                    let cm = snap.get_cell(&inp.previous_output()).ok_or("input not live")?;
                    freed += cm.occupied_capacity().map_err(|e| e.to_string())?.as_u64() as u128;
                }
                for (o, d) in t.outputs_with_data_iter() {
                    added += o.occupied_capacity(Capacity::bytes(d.len()).unwrap()).unwrap().as_u64() as u128;
                }
            }
            Ok((freed, added))
        };
        let (freed, mut added) = measure(&commits)?;
        // block k proposes what block k + 1 commits - and the over-paying twin of every phase-2 transaction, so that the
        // probe block below is refused for its amount and not by the two-step confirmation rule
        let proposals: Vec<ProposalShortId> =
            next.iter().flat_map(|p| std::iter::once(p.tx.proposal_short_id()).chain(p.over.iter().map(|o| o.proposal_short_id()))).collect();
        // probes: the same block with ONE phase-2 transaction creating one shannon more than the maximum withdraw
        let mut probes = vec![];
        for (pi, pl) in pending.iter().enumerate() {
            if let Some(over) = &pl.over {
                let mut cs = commits.clone();
                cs[pi] = over.clone();
                let verdict = match assemble(&node, &BlockSpec { commits: cs, proposals: proposals.clone(), nonce: 5000 + k as u64, ..Default::default() }) {
                    Err(e) => format!("not-assembled: {e}"),
                    Ok(pb) => match node.submit_like_miner(&pb) {
                        Ok(_) => "accepted".to_string(),
                        Err(e) => format!("rejected: {e}"),
                    },
                };
                probes.push(json!({"cells": pl.cells.iter().map(|i| i + 1).collect::<Vec<_>>(), "verdict": verdict}));
            }
        }
        if probes.iter().any(|p| p["verdict"] == "accepted") {
            probe_accepted = Some(json!({"block": k, "probes": probes}));
            break;
        }
        let spec = BlockSpec { commits: commits.clone(), proposals, nonce: k as u64, ..Default::default() };
        let refusal = |stage: &str, e: String| -> Value {
            json!({"block": k, "stage": stage, "error": e,
                   "kinds": pending.iter().map(|p| p.kind.clone()).collect::<Vec<_>>(),
                   "wd": pending.iter().flat_map(|p| p.wd.iter().cloned()).collect::<Vec<_>>()})
        };
        let b = match assemble(&node, &spec) {
            Ok(b) => retag(&b, 1000 + k as u64),
            Err(e) => { refused = Some(refusal("assemble", e)); break; }
        };
        let (tlock, rw) = ckb_reward_calculator::RewardCalculator::new(&c, snap.as_ref()).block_reward_to_finalize(&tip).map_err(|e| e.to_string())?;
        let target = c.finalize_target(k as u64).unwrap();
        let cell_occ = CellOutput::new_builder().capacity(rw.total).lock(tlock.clone()).build().occupied_capacity(Capacity::zero()).unwrap();
        if let Err(e) = node.submit_like_miner(&b) {
            refused = Some(refusal("submit", e));
            break;
        }
        let cb = &b.transactions()[0];
        for o in cb.outputs() {
            added += o.occupied_capacity(Capacity::zero()).unwrap().as_u64() as u128;
        }
        let snap2 = node.shared.cloned_snapshot();
        if snap2.tip_hash() != b.hash() {
            return Err(format!("block {k} did not become the tip"));
        }
        let ext = snap2.get_block_ext(&b.hash()).ok_or("no block ext")?;
        let ep = snap2.get_block_epoch_index(&b.hash()).and_then(|i| snap2.get_epoch_ext(&i)).ok_or("no epoch ext")?;
        let (lcap, locc) = live(&node);
        let cb_cap: u128 = cb.outputs().into_iter().map(|o| { let c: u64 = o.capacity().into(); c as u128 }).sum();
        // life-cycle bookkeeping of the harness (out-points, heights, header hashes)
        let mut wds = vec![];
        let (mut w_plain_in, mut w_out, mut w_fee_obs) = (0u128, 0u128, 0u128);
        for (pi, pl) in pending.iter().enumerate() {
            let h = pl.tx.hash();
            let fee_obs = ext.txs_fees.get(pi).map(|f| f.as_u64()).ok_or("txs_fees shorter than the block")?;
            match pl.kind.as_str() {
                "deposit" => {
                    let i = pl.cells[0];
                    cells[i].dao_cell = Some(packed::OutPoint::new(h.clone(), 0));
                    let ch: u64 = pl.tx.outputs().get(1).unwrap().capacity().into();
                    cells[i].purse = (packed::OutPoint::new(h, 1), ch);
                    cells[i].d = Some((k as u64, b.hash()));
                }
                "prepare" => {
                    let i = pl.cells[0];
                    cells[i].dao_cell = Some(packed::OutPoint::new(h.clone(), 0));
                    let ch: u64 = pl.tx.outputs().get(1).unwrap().capacity().into();
                    cells[i].purse = (packed::OutPoint::new(h, 1), ch);
                    cells[i].p = Some((k as u64, b.hash()));
                }
                _ => {
                    wds.extend(pl.wd.iter().cloned());
                    w_plain_in += pl.plain_in as u128;
                    let oc: u64 = pl.tx.outputs_capacity().unwrap().as_u64();
                    w_out += oc as u128;
                    w_fee_obs += fee_obs as u128;
                }
            }
        }
        recs.push(json!({
            "n": k, "props": [], "uprops": [],
            "commits": pending.iter().enumerate().map(|(pi, pl)| json!({"id": pi + 1, "kind": pl.kind, "cells": pl.cells.iter().map(|i| i + 1).collect::<Vec<_>>(), "fee": ext.txs_fees[pi].as_u64().to_string()})).collect::<Vec<_>>(),
            "fees_n": ext.txs_fees.len(),
            "fees_sum": ext.txs_fees.iter().map(|f| f.as_u64() as u128).sum::<u128>().to_string(),
            "wd": wds, "w_plain_in": w_plain_in.to_string(), "w_out": w_out.to_string(), "w_fee_obs": w_fee_obs.to_string(),
            "probes": probes,
            "cb_cap": cb_cap.to_string(), "cb_outputs": cb.outputs().len(),
            "cb_lock_tag": cb.outputs().get(0).map(|o| tag_of(&o.lock())).unwrap_or(Value::Null),
            "miner_tag": 1000 + k as u64,
            "dao": dao_json(&b.header().dao()),
            "epoch": {"number": ep.number(), "start": ep.start_number(), "len": ep.length(), "base": ep.base_block_reward().as_u64().to_string(), "rem": ep.remainder_reward().as_u64().to_string()},
            "added": added.to_string(), "freed": freed.to_string(),
            "live_cap": lcap.to_string(), "live_occ": locc.to_string(),
            "calc": {"target": target, "total": rw.total.as_u64().to_string(), "primary": rw.primary.as_u64().to_string(),
                     "secondary": rw.secondary.as_u64().to_string(), "tx_fee": rw.tx_fee.as_u64().to_string(), "proposal_reward": rw.proposal_reward.as_u64().to_string(),
                     "lock_tag": tag_of(&tlock), "cell_occ": cell_occ.as_u64().to_string()},
        }));
        pending = next;
    }
    Ok(json!({"scenario": sc["id"], "wc": wc, "wf": wf, "shift": shift, "secondary_epoch": c.secondary_epoch_reward().as_u64().to_string(),
              "ratio": [4, 10], "blocks": recs, "probe_accepted": probe_accepted, "refused": refused}))
}

fn main() {
    let ft = ckb_systemtime::faketime();
    ft.set_faketime(GENESIS_TS + 100_000 * BLOCK_INTERVAL_MS);
    let args: Vec<String> = std::env::args().collect();
    let mode = args.get(1).map(|s| s.as_str()).unwrap_or("");
    if mode != "chains" && mode != "dao" {
        eprintln!("usage: c06 chains|dao < scenarios.ndjson");
        std::process::exit(2);
    }
    let stdin = std::io::stdin();
    let stdout = std::io::stdout();
    let mut n = 0;
    for line in stdin.lock().lines() {
        let line = line.unwrap();
        let sc: Value = match serde_json::from_str(&line) { Ok(v) => v, Err(_) => continue };
        let r = match if mode == "dao" { run_dao(&sc) } else { run(&sc) } { Ok(v) => v, Err(e) => json!({"scenario": sc["id"], "error": e}) };
        let mut out = stdout.lock();
        writeln!(out, "{}", r).unwrap();
        out.flush().unwrap();
        n += 1;
    }
    println!("{}", json!({"summary": {"scenarios": n}}));
    std::io::stdout().flush().unwrap();
    std::process::exit(0);
}
