//! Growth binding (attached to C01): orphan-pool expiry (spec/ChainCoreX.tla) and the progress property of
//! spec/ChainCore.tla (FairSpec) against a real node.
//!
//!   g_expiry replay --in F      F: ndjson scenarios {id, n, prefix, epochlen, parent[], order[]} exported by TLC from
//!       MC_ChainCoreX (EpochLen = the node's epoch length, Horizon = EXPIRED_EPOCH = 6). The chain 1..prefix is
//!       attached first; the scenario's blocks are delivered in the model's order, one at a time; after each
//!       delivery the node comes to rest and - when the orphan pool is not empty - at least three expiry ticks pass
//!       (hook f5c206f: VERIF_ORPHAN_TICK_MS). The final <tip, stored, main chain, ext, INVALID, orphans, verdict
//!       counts, dropped callbacks> must be one of the quiescent states the model allows for this (tree, order)
//!       (the model's tick is nondeterministic; the node's is eager).
//!   g_expiry stuck              progress counterexample of EventuallyJudgedStrict on the real node: an orphan whose
//!       missing parent arrives and fails the NON-contextual checks stays in the pool (no verdict, no INVALID mark)
//!       until the next block is brokered.
use ckb_chain::LonelyBlock;
use ckb_shared::block_status::BlockStatus;
use ckb_store::ChainStore;
use ckb_types::core::BlockView;
use ckb_types::packed::Byte32;
use ckbv::fixture::*;
use ckbv::util::*;
use serde_json::{json, Value};
use std::sync::atomic::{AtomicUsize, Ordering};
use std::sync::{Arc, Mutex};

struct Guard {
    called: bool,
    dropped: Arc<AtomicUsize>,
}
impl Guard {
    fn mark(&mut self) {
        self.called = true;
    }
}
impl Drop for Guard {
    fn drop(&mut self) {
        if !self.called {
            self.dropped.fetch_add(1, Ordering::SeqCst);
        }
    }
}

#[derive(Default)]
struct Tally {
    submitted: usize,
    answered: Arc<AtomicUsize>,
    dropped: Arc<AtomicUsize>,
    verdicts: Arc<Mutex<Vec<(Byte32, Result<bool, String>)>>>,
}

fn submit(n: &Node, t: &mut Tally, b: &BlockView) {
    let answered = Arc::clone(&t.answered);
    let verdicts = Arc::clone(&t.verdicts);
    let mut guard = Guard { called: false, dropped: Arc::clone(&t.dropped) };
    let hash = b.hash();
    t.submitted += 1;
    n.chain.chain_controller().asynchronous_process_lonely_block(LonelyBlock {
        block: Arc::new(b.clone()),
        switch: None,
        verify_callback: Some(Box::new(move |r| {
            guard.mark();
            verdicts.lock().unwrap().push((hash, r.map_err(|e| e.to_string())));
            answered.fetch_add(1, Ordering::SeqCst);
        })),
    });
}

fn orphan_count(n: &Node, blocks: &[BlockView]) -> usize {
    blocks.iter().filter(|b| n.chain.chain_controller().get_orphan_block(n.shared.store(), &b.hash()).is_some()).count()
}

/// every delivery answered, dropped, or waiting in the orphan pool; false on time-out
fn quiesce(n: &Node, t: &Tally, blocks: &[BlockView]) -> bool {
    let mut stable = 0;
    for _ in 0..15000 {
        let pending = t.submitted as i64 - t.answered.load(Ordering::SeqCst) as i64 - t.dropped.load(Ordering::SeqCst) as i64
            - orphan_count(n, blocks) as i64;
        if pending <= 0 {
            stable += 1;
            if stable >= 3 {
                return true;
            }
        } else {
            stable = 0;
        }
        std::thread::sleep(std::time::Duration::from_millis(2));
    }
    false
}

fn tool_error(msg: &str) -> ! {
    println!("{}", json!({"tool_error": msg}));
    use std::io::Write;
    let _ = std::io::stdout().flush();
    std::process::exit(3);
}

fn ext_str(n: &Node, h: &Byte32) -> &'static str {
    match n.shared.store().get_block_ext(h).map(|e| e.verified) {
        None => "none",
        Some(None) => "unv",
        Some(Some(true)) => "ok",
        Some(Some(false)) => "bad",
    }
}

fn tick_ms() -> u64 {
    match std::env::var("VERIF_ORPHAN_TICK_MS").ok().and_then(|s| s.parse::<u64>().ok()) {
        Some(ms) => ms,
        None => tool_error("VERIF_ORPHAN_TICK_MS must be set (expiry tick of the node under test)"),
    }
}

fn replay(args: &[String]) {
    let input = std::fs::read_to_string(opt(args, "--in").expect("--in")).unwrap();
    let tick = tick_ms();
    let ft = ckb_systemtime::faketime();
    ft.set_faketime(GENESIS_TS + 100_000 * BLOCK_INTERVAL_MS);
    let mut nodes: std::collections::HashMap<u64, (Node, Node, ckb_chain_spec::consensus::Consensus)> = std::collections::HashMap::new();
    let mut salt = 0u64;
    let mut done = 0u64;
    for line in input.lines().filter(|l| l.starts_with('{')) {
        let sc: Value = serde_json::from_str(line).unwrap();
        let nb = sc["n"].as_u64().unwrap() as usize;
        let prefix = sc["prefix"].as_u64().unwrap() as usize;
        let el = sc["epochlen"].as_u64().unwrap();
        if sc["horizon"].as_u64().unwrap() != 6 {
            tool_error("the model's Horizon must be EXPIRED_EPOCH = 6");
        }
        let par: Vec<usize> = sc["parent"].as_array().unwrap().iter().map(|x| x.as_u64().unwrap() as usize).collect();
        let order: Vec<usize> = sc["order"].as_array().unwrap().iter().map(|x| x.as_u64().unwrap() as usize).collect();
        let (n, m, c) = nodes.entry(el).or_insert_with(|| {
            let c = consensus(&Params { epoch_len: el, genesis_cells: 1, ..Default::default() });
            let n = Node::start(&NodeCfg { assembler: false, ..NodeCfg::temp(&c) });
            let m = Node::start(&NodeCfg { assembler: false, ..NodeCfg::temp(&c) });
            (n, m, c)
        });
        let genesis = c.genesis_block().clone();
        // concretise depth first on the mirror (parent always on the mirror's main chain)
        let mut dfs: Vec<usize> = vec![];
        let mut stack: Vec<usize> = vec![0];
        while let Some(x) = stack.pop() {
            if x != 0 {
                dfs.push(x);
            }
            for ch in (1..=nb).rev() {
                if par[ch - 1] == x {
                    stack.push(ch);
                }
            }
        }
        let mut blocks: Vec<BlockView> = vec![genesis.clone(); nb + 1];
        for &b in &dfs {
            let p = blocks[par[b - 1]].clone();
            if m.tip().1 != p.hash() {
                if !m.shared.snapshot().is_main_chain(&p.hash()) {
                    tool_error("mirror cannot reach the parent");
                }
                m.truncate_to(&p.hash()).unwrap_or_else(|e| tool_error(&format!("mirror truncate: {e}")));
            }
            salt += 1;
            let blk = assemble(m, &BlockSpec { nonce: salt, ..Default::default() }).unwrap_or_else(|e| tool_error(&format!("assemble: {e}")));
            m.process(&blk).unwrap_or_else(|e| tool_error(&format!("mirror rejects: {e}")));
            if blk.epoch().number() != (blk.number() / el) {
                tool_error("epoch of a real block is not number / epoch length");
            }
            blocks[b] = blk;
        }
        // the attached prefix
        for b in 1..=prefix {
            match n.process(&blocks[b]) {
                Ok(true) => {}
                r => tool_error(&format!("prefix block not attached: {r:?}")),
            }
        }
        if n.tip().1 != blocks[prefix].hash() {
            tool_error("prefix is not the tip");
        }
        let mut t = Tally::default();
        let mut quiet = true;
        let mut max_orphans = 0;
        for &b in &order {
            submit(n, &mut t, &blocks[b]);
            quiet &= quiesce(n, &t, &blocks);
            let oc = orphan_count(n, &blocks);
            max_orphans = max_orphans.max(oc);
            if oc > 0 {
                std::thread::sleep(std::time::Duration::from_millis(3 * tick + 10));
                quiet &= quiesce(n, &t, &blocks);
            }
        }
        let snap = n.shared.snapshot();
        let id_of = |h: &Byte32| blocks.iter().position(|b| &b.hash() == h);
        let store = n.shared.store();
        let (mut stored, mut main, mut ext, mut invalid, mut orphans, mut replies) = (vec![], vec![], vec![], vec![], vec![], vec![]);
        let v = t.verdicts.lock().unwrap();
        for b in 1..=nb {
            let h = blocks[b].hash();
            if !store.get_block_body(&h).is_empty() {
                stored.push(b);
            }
            if snap.is_main_chain(&h) {
                main.push(b);
            }
            ext.push(ext_str(n, &h));
            if n.shared.get_block_status(&h) == BlockStatus::BLOCK_INVALID {
                invalid.push(b);
            }
            if n.chain.chain_controller().get_orphan_block(store, &h).is_some() {
                orphans.push(b);
            }
            let cnt = |f: &dyn Fn(&Result<bool, String>) -> bool| v.iter().filter(|(x, r)| x == &h && f(r)).count();
            // the prefix was attached synchronously before the scenario: one Ok(true) each, as the model's initial state says
            let pre = if b <= prefix { 1 } else { 0 };
            replies.push(vec![cnt(&|r| r == &Ok(true)) + pre, cnt(&|r| r == &Ok(false)), cnt(&|r| r.is_err())]);
        }
        println!("{}", json!({"scenario": sc["id"], "quiet": quiet, "tip": id_of(&snap.tip_hash()), "stored": stored, "main": main, "ext": ext,
            "invalid": invalid, "orphans": orphans, "replies": replies, "dropped": t.dropped.load(Ordering::SeqCst),
            "max_orphans": max_orphans,
            "errors": v.iter().filter_map(|(x, r)| r.as_ref().err().map(|e| (id_of(x), e[..e.len().min(60)].to_string()))).collect::<Vec<_>>()}));
        drop(v);
        let g = genesis.hash();
        n.truncate_to(&g).unwrap_or_else(|e| tool_error(&format!("truncate: {e}")));
        m.truncate_to(&g).unwrap_or_else(|e| tool_error(&format!("mirror truncate: {e}")));
        done += 1;
    }
    println!("{}", json!({"summary": {"scenarios": done}}));
    use std::io::Write;
    let _ = std::io::stdout().flush();
    std::process::exit(0);
}

/// EventuallyJudgedStrict's counterexample on the real node.
fn stuck(args: &[String]) {
    let rounds = opt_u64(args, "--rounds", 3);
    let ft = ckb_systemtime::faketime();
    ft.set_faketime(GENESIS_TS + 100_000 * BLOCK_INTERVAL_MS);
    let c = consensus(&Params { genesis_cells: 2, ..Default::default() });
    let spare = spend(&c, &[genesis_cell(&c, 0)], 50_000 * 100_000_000, 1, 1000, 0);
    for r in 0..rounds {
        let n = Node::start(&NodeCfg { assembler: false, ..NodeCfg::temp(&c) });
        let m = Node::start(&NodeCfg { assembler: false, ..NodeCfg::temp(&c) });
        // g: duplicate proposal id (fails the non-contextual DuplicateVerifier); c: its child; x: an unrelated valid block
        let id = spare.proposal_short_id();
        let g = assemble(&m, &BlockSpec { nonce: 100 + r, proposals: vec![id.clone(), id], ..Default::default() }).unwrap();
        m.process_unchecked(&g).unwrap();
        let ch = assemble(&m, &BlockSpec { nonce: 200 + r, ..Default::default() }).unwrap();
        m.truncate_to(&c.genesis_block().hash()).unwrap();
        let x = assemble(&m, &BlockSpec { nonce: 300 + r, ..Default::default() }).unwrap();
        let blocks = vec![g.clone(), ch.clone(), x.clone()];
        let mut t = Tally::default();
        submit(&n, &mut t, &ch);
        let q1 = quiesce(&n, &t, &blocks);
        let orphan_before = orphan_count(&n, &blocks);
        submit(&n, &mut t, &g);
        let q2 = quiesce(&n, &t, &blocks);
        std::thread::sleep(std::time::Duration::from_millis(400));
        let verdict_of = |h: &Byte32, t: &Tally| t.verdicts.lock().unwrap().iter().find(|(x, _)| x == h).map(|(_, r)| r.clone());
        let g_verdict = verdict_of(&g.hash(), &t);
        let child_orphan_after_parent_failed = n.chain.chain_controller().get_orphan_block(n.shared.store(), &ch.hash()).is_some();
        let child_verdict_after_parent_failed = verdict_of(&ch.hash(), &t);
        let child_status = format!("{:?}", n.shared.get_block_status(&ch.hash()));
        let parent_status = format!("{:?}", n.shared.get_block_status(&g.hash()));
        submit(&n, &mut t, &x);
        let q3 = quiesce(&n, &t, &blocks);
        let child_orphan_after_next = n.chain.chain_controller().get_orphan_block(n.shared.store(), &ch.hash()).is_some();
        let child_verdict_after_next = verdict_of(&ch.hash(), &t);
        println!("{}", json!({"stuck": r, "quiet": q1 && q2 && q3, "orphan_before": orphan_before,
            "parent_verdict": format!("{:?}", g_verdict.map(|r| r.map_err(|e| e[..e.len().min(50)].to_string()))), "parent_status": parent_status,
            "child_orphan_after_parent_failed": child_orphan_after_parent_failed,
            "child_answered_after_parent_failed": child_verdict_after_parent_failed.is_some(), "child_status_after_parent_failed": child_status,
            "child_orphan_after_next_block": child_orphan_after_next,
            "child_verdict_after_next_block": format!("{:?}", child_verdict_after_next.map(|r| r.map_err(|e| e[..e.len().min(50)].to_string()))),
            "child_status_after_next_block": format!("{:?}", n.shared.get_block_status(&ch.hash())),
            "tip_is_x": n.tip().1 == x.hash()}));
    }
    println!("{}", json!({"summary": {"rounds": rounds}}));
    use std::io::Write;
    let _ = std::io::stdout().flush();
    std::process::exit(0);
}

fn main() {
    let args: Vec<String> = std::env::args().collect();
    match args.get(1).map(|s| s.as_str()) {
        Some("replay") => replay(&args[2..]),
        Some("stuck") => stuck(&args[2..]),
        _ => {
            eprintln!("usage: g_expiry replay --in <scenarios.ndjson> | stuck [--rounds r]");
            std::process::exit(2);
        }
    }
}
