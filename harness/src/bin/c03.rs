//! C03 — binding of spec/ConsensusRules.tla to the block verification pipeline.
//!
//! `c03 run --in <ctxs.ndjson>`: every context exported by TLC (MC_ConsensusRules, EmitCtx) is rebuilt block by block on
//! a real node (the blocks of the context are themselves probes: the spec says they are valid).  At every prefix of the
//! chain every probe of the catalogue is realised as a real block — BUILT with the production calculators (epoch, reward,
//! DAO, chain root) and then bent as the abstract record says — and submitted through HeaderVerifier + chain service.
//! The observation (attached or not, error text, state unchanged after a refusal) is printed as ndjson; the python side
//! compares it with the verdict the SPEC assigned.  At the end of a context the "refused as a whole" clause is exercised
//! with a 2-block side branch whose second block carries the flaw.
use ckb_store::ChainStore;
use ckb_types::core::cell::{resolve_transaction, BlockCellProvider, OverlayCellProvider};
use ckb_types::core::{BlockBuilder, BlockView, Capacity, EpochNumberWithFraction, TransactionBuilder, TransactionView, UncleBlockView};
use ckb_types::packed::{self, Byte32, CellInput, CellOutput, ProposalShortId};
use ckb_types::prelude::*;
use ckb_types::utilities::{compact_to_difficulty, difficulty_to_compact};
use ckb_types::{bytes::Bytes, U256};
use ckbv::fixture::*;
use ckbv::util::{opt, opt_u64};
use serde::Deserialize;
use serde_json::json;
use std::collections::HashSet;
use std::io::Write;

const REAL_MAX_BYTES: u64 = 6000;

#[derive(Deserialize, Clone, Debug)]
struct AParams {
    #[serde(rename = "L")]
    l: u64,
    wclose: u64,
    wfar: u64,
    #[serde(rename = "K")]
    k: usize,
    maxuncles: u64,
    maxproposals: u64,
    maxbytes: u64,
    maxcycles: u64,
    txcycles: u64,
    future: u64,
    now: u64,
    ntx: usize,
}
#[derive(Deserialize, Clone, Debug)]
struct ARef {
    k: String,
    i: u64,
}
#[derive(Deserialize, Clone, Debug)]
struct AUncle {
    #[serde(rename = "ref")]
    r: ARef,
    target: String,
    pv: String,
    #[serde(default)]
    v: u64,
    #[serde(default)]
    dist: u64,
}
#[derive(Deserialize, Clone, Debug)]
struct ABlock {
    number: u64,
    parent: String,
    ep: (u64, u64, u64),
    ts: u64,
    target: String,
    props: Vec<u64>,
    commits: Vec<u64>,
    uncles: Vec<AUncle>,
    cb: String,
    roots: String,
    bytes: u64,
    ext: String,
    reward: String,
    dao: String,
}
#[derive(Deserialize, Clone, Debug)]
struct ASide {
    par: ARef,
    props: Vec<u64>,
}
#[derive(Deserialize, Clone, Debug)]
struct AProbe {
    fam: String,
    lab: String,
    b: ABlock,
    verdict: String,
}
#[derive(Deserialize, Clone, Debug)]
struct ACtx {
    params: AParams,
    chain: Vec<ABlock>,
    sides: Vec<ASide>,
    probes: Vec<Vec<AProbe>>,
    branch_base: ABlock,
    branch_probes: Vec<AProbe>,
}

struct World {
    p: AParams,
    consensus: ckb_chain_spec::consensus::Consensus,
    txs: Vec<TransactionView>,
    chain: Vec<BlockView>,          // chain[h-1] = main block of height h
    sides: Vec<Option<BlockView>>,  // side table (built when their root height is reached)
    nonce: u64,
}

fn short_id_of(w: &World, id: u64) -> ProposalShortId {
    if id >= 1 && (id as usize) <= w.txs.len() {
        w.txs[id as usize - 1].proposal_short_id()
    } else {
        let mut b = [0xEEu8; 10];
        b[0] = (id & 0xff) as u8;
        b[1] = ((id >> 8) & 0xff) as u8;
        ProposalShortId::new(b)
    }
}

fn rand_hash(seed: u64) -> Byte32 {
    let mut b = [0x5Au8; 32];
    b[..8].copy_from_slice(&seed.to_le_bytes());
    Byte32::new(b)
}

fn uncle_of(w: &World, u: &AUncle, block_epoch: EpochNumberWithFraction) -> Result<UncleBlockView, String> {
    if u.r.k == "cs" || u.r.k == "cm" || u.r.k == "cc" {
        // a fabricated header: names its parent by hash, claims the block's epoch and parent.number + dist
        let fab = |parent: &ckb_types::core::HeaderView, dist: u64, v: u64, target_ok: bool| {
            let t = parent.compact_target();
            ckb_types::core::HeaderBuilder::default()
                .parent_hash(parent.hash())
                .number(parent.number() + dist)
                .epoch(block_epoch)
                .compact_target(if target_ok { t } else { other_target(t) })
                .timestamp(parent.timestamp() + 1 + dist + 10 * v)
                .build()
        };
        let main = |i: u64| -> Result<ckb_types::core::HeaderView, String> {
            if i == 0 {
                Ok(w.consensus.genesis_block().header())
            } else {
                Ok(w.chain.get(i as usize - 1).cloned().ok_or_else(|| format!("main {} not built", i))?.header())
            }
        };
        let parent = match u.r.k.as_str() {
            "cs" => w.sides.get(u.r.i as usize - 1).and_then(|x| x.clone()).ok_or_else(|| format!("side {} not built", u.r.i))?.header(),
            "cm" => main(u.r.i)?,
            _ => fab(&main(u.r.i)?, 1, 0, true), // "cc": child of the fabricated child of main block i
        };
        let header = fab(&parent, u.dist, u.v, u.target == "epoch");
        let ub = packed::UncleBlock::new_builder().header(header.data()).build();
        return Ok(ub.into_view());
    }
    let base: BlockView = if u.r.k == "s" {
        w.sides.get(u.r.i as usize - 1).and_then(|x| x.clone()).ok_or_else(|| format!("side {} not built", u.r.i))?
    } else {
        w.chain.get(u.r.i as usize - 1).cloned().ok_or_else(|| format!("main {} not built", u.r.i))?
    };
    let mut header = base.header();
    let mut proposals: Vec<ProposalShortId> = base.data().proposals().into_iter().collect();
    let refresh = |h: ckb_types::core::HeaderView, ps: &Vec<ProposalShortId>| {
        let v: packed::ProposalShortIdVec = ps.clone().into();
        h.as_advanced_builder().proposals_hash(v.calc_proposals_hash()).build()
    };
    if u.v > 0 {
        // a sibling of the referenced block: same header fields, other proposals
        proposals = vec![short_id_of(w, 300 + u.v)];
        header = refresh(header, &proposals);
    }
    match u.pv.as_str() {
        "ok" => {}
        "atlimit" => {
            proposals = (0..w.p.maxproposals).map(|i| short_id_of(w, 200 + i)).collect();
            header = refresh(header, &proposals);
        }
        "over" => {
            proposals = (0..w.p.maxproposals + 1).map(|i| short_id_of(w, 200 + i)).collect();
            header = refresh(header, &proposals);
        }
        "dup" => {
            proposals = vec![short_id_of(w, 200), short_id_of(w, 200)];
            header = refresh(header, &proposals);
        }
        "badhash" => {
            proposals.push(short_id_of(w, 250));
        }
        x => return Err(format!("unknown pv {x}")),
    }
    if u.target != "epoch" {
        header = header.as_advanced_builder().compact_target(other_target(header.compact_target())).build();
    }
    let ub = packed::UncleBlock::new_builder().header(header.data()).proposals(proposals).build();
    Ok(ub.into_view())
}

/// a compact target with MORE work than `t` (a block with less work would never be tried as a tip)
fn other_target(t: u32) -> u32 {
    difficulty_to_compact(compact_to_difficulty(t) + U256::from(2u64))
}

/// Realise an abstract block on `n`'s current tip.
fn realise(w: &mut World, n: &Node, a: &ABlock) -> Result<BlockView, String> {
    w.nonce += 1;
    let nonce = w.nonce;
    let snap = n.shared.cloned_snapshot();
    let consensus = snap.consensus();
    let tip = snap.tip_header().clone();
    let pos = tip.number() + 1;
    // ---- production calculators: epoch, finalized reward, DAO, chain root
    let epoch = consensus.next_epoch_ext(&tip, &snap.borrow_as_data_loader()).ok_or("next_epoch_ext")?.epoch();
    let (target_lock, reward) = ckb_reward_calculator::RewardCalculator::new(consensus, snap.as_ref())
        .block_reward_to_finalize(&tip)
        .map_err(|e| e.to_string())?;
    let witness_of = |pad: usize| -> packed::Bytes {
        let mut msg = nonce.to_le_bytes().to_vec();
        msg.extend(std::iter::repeat(0x42u8).take(pad));
        packed::CellbaseWitness::new_builder().lock(lock()).message(Bytes::from(msg).pack()).build().as_bytes().pack()
    };
    let since = if a.cb == "since" { pos + 1 } else { pos };
    let build_cellbase = |pad: usize| -> TransactionView {
        let mut cb = TransactionBuilder::default().input(CellInput::new_cellbase_input(since));
        cb = match a.cb.as_str() {
            "badwitness" => cb.witness(Bytes::from(vec![1u8, 2, 3]).pack()),
            // a well-formed CellbaseWitness whose lock names a script hash type that does not exist (3)
            "witnesshashtype" => {
                let l = lock().as_builder().hash_type(packed::Byte::new(3)).build();
                cb.witness(packed::CellbaseWitness::new_builder().lock(l).message(Bytes::from(nonce.to_le_bytes().to_vec()).pack()).build().as_bytes().pack())
            }
            "nowitness" => cb,
            // a CellbaseWitness table with ONE APPENDED FIELD: accepted by from_compatible_slice, refused by the strict
            // decoder every consumer (cellbase verifier, reward calculator, block assembler) uses
            "witnessextra" => {
                let w = packed::CellbaseWitness::new_builder().lock(lock()).message(Bytes::from(nonce.to_le_bytes().to_vec()).pack()).build();
                let raw = w.as_slice();
                let first = u32::from_le_bytes(raw[4..8].try_into().unwrap()) as usize;
                let nf = first / 4 - 1;
                let mut offs: Vec<usize> = (0..nf).map(|i| u32::from_le_bytes(raw[4 + 4 * i..8 + 4 * i].try_into().unwrap()) as usize).collect();
                offs.push(raw.len());
                let extra: &[u8] = &[0, 0, 0, 0]; // an empty Bytes
                let mut out = vec![];
                let total = raw.len() + 4 + extra.len();
                out.extend((total as u32).to_le_bytes());
                for i in 0..nf {
                    out.extend(((offs[i] + 4) as u32).to_le_bytes());
                }
                out.extend(((raw.len() + 4) as u32).to_le_bytes());
                out.extend(&raw[first..]);
                out.extend(extra);
                assert!(packed::CellbaseWitnessReader::from_compatible_slice(&out).is_ok() && packed::CellbaseWitnessReader::from_slice(&out).is_err());
                cb.witness(Bytes::from(out).pack())
            }
            _ => cb.witness(witness_of(pad)),
        };
        let prescribed = CellOutput::new_builder().capacity(reward.total).lock(target_lock.clone()).build();
        let has_target = pos > consensus.finalization_delay_length() && !prescribed.is_lack_of_capacity(Capacity::zero()).unwrap();
        let mut outs: Vec<(CellOutput, Bytes)> = vec![];
        if has_target {
            outs.push((prescribed.clone(), Bytes::new()));
        }
        match a.reward.as_str() {
            "ok" => {}
            "plus1" => outs[0].0 = prescribed.clone().as_builder().capacity(Capacity::shannons(reward.total.as_u64() + 1)).build(),
            "minus1" => outs[0].0 = prescribed.clone().as_builder().capacity(Capacity::shannons(reward.total.as_u64() - 1)).build(),
            "wronglock" => {
                let l = target_lock.clone().as_builder().code_hash(rand_hash(77)).build();
                outs[0].0 = prescribed.clone().as_builder().lock(l).build()
            }
            "none" => outs.clear(),
            "extra" => outs.push((CellOutput::new_builder().capacity(Capacity::shannons(100 * 100_000_000)).lock(lock()).build(), Bytes::new())),
            _ => {}
        }
        match a.cb.as_str() {
            "twoout" => {
                let o = CellOutput::new_builder().capacity(Capacity::shannons(100 * 100_000_000)).lock(lock()).build();
                outs.push((o.clone(), Bytes::new()));
                if outs.len() < 2 {
                    outs.push((o, Bytes::new()));
                }
            }
            "type" => outs[0].0 = outs[0].0.clone().as_builder().type_(Some(lock()).pack()).build(),
            "data" => outs[0].1 = Bytes::from(vec![7u8]),
            _ => {}
        }
        let nodata = a.cb == "nodata";
        for (o, d) in outs {
            cb = cb.output(o);
            if !nodata {
                cb = cb.output_data(d.pack());
            }
        }
        cb.build()
    };
    let commits: Vec<TransactionView> = a.commits.iter().map(|id| w.txs[*id as usize - 1].clone()).collect();
    let proposals: Vec<ProposalShortId> = a.props.iter().map(|id| short_id_of(w, *id)).collect();
    let mut uncles = vec![];
    for u in &a.uncles {
        uncles.push(uncle_of(w, u, epoch.number_with_fraction(pos))?);
    }
    let root = snap.chain_root_mmr(tip.number()).get_root().map_err(|e| e.to_string())?.calc_mmr_hash();
    let ext: Option<packed::Bytes> = {
        let r = root.as_bytes().to_vec();
        let with = |extra: usize| {
            let mut v = r.clone();
            v.extend(std::iter::repeat(0u8).take(extra));
            Some(Bytes::from(v).pack())
        };
        match a.ext.as_str() {
            "root" => with(0),
            "root64" => with(64),
            "absent" => None,
            "empty" => Some(Bytes::new().pack()),
            "short31" => Some(Bytes::from(r[..31].to_vec()).pack()),
            "wrongroot" => Some(rand_hash(99).as_bytes().pack()),
            "long97" => with(65),
            x => return Err(format!("unknown ext {x}")),
        }
    };
    let want_epoch = EpochNumberWithFraction::new_unchecked(a.ep.0, a.ep.1, a.ep.2);
    let well_formed = a.ep.2 > 0 && a.ep.1 < a.ep.2;
    let assemble_with = |pad: usize| -> Result<BlockView, String> {
        let cellbase = build_cellbase(pad);
        let mut txs: Vec<TransactionView> = match a.cb.as_str() {
            "missing" => vec![],
            "second" => vec![cellbase.clone(), cellbase.as_advanced_builder().set_witnesses(vec![witness_of(1)]).build()],
            "notfirst" => vec![w.txs[0].clone(), cellbase.clone()],
            _ => vec![cellbase.clone()],
        };
        txs.extend(commits.iter().cloned());
        // DAO field by the production calculator over the resolvable part of the body
        let dao = {
            let try_dao = |body: &Vec<TransactionView>| -> Result<Byte32, String> {
                let draft = BlockBuilder::default().transactions(body.clone()).build();
                let bcp = BlockCellProvider::new(&draft).map_err(|e| e.to_string())?;
                let cp = OverlayCellProvider::new(&bcp, snap.as_ref());
                let mut seen = HashSet::new();
                let mut rtxs = vec![];
                for t in body.iter().cloned() {
                    rtxs.push(resolve_transaction(t, &mut seen, &cp, snap.as_ref()).map_err(|e| format!("resolve: {e}"))?);
                }
                ckb_dao::DaoCalculator::new(consensus, &snap.borrow_as_data_loader()).dao_field(rtxs.iter(), &tip).map_err(|e| format!("dao: {e}"))
            };
            let full: Vec<TransactionView> = std::iter::once(cellbase.clone()).chain(commits.iter().cloned()).collect();
            match try_dao(&full) {
                Ok(d) => d,
                Err(_) => try_dao(&vec![build_cellbase(0).as_advanced_builder().build()]).or_else(|_| try_dao(&vec![]))?,
            }
        };
        let dao = match a.dao.as_str() {
            "ok" => dao,
            x => {
                let mut b = [0u8; 32];
                b.copy_from_slice(dao.as_slice());
                let off = match x {
                    "c+1" => 0,
                    "ar+1" => 8,
                    "s+1" => 16,
                    "u+1" => 24,
                    _ => return Err(format!("unknown dao {x}")),
                };
                let mut v = [0u8; 8];
                v.copy_from_slice(&b[off..off + 8]);
                let nv = u64::from_le_bytes(v) + 1;
                b[off..off + 8].copy_from_slice(&nv.to_le_bytes());
                Byte32::new(b)
            }
        };
        let parent_hash = if a.parent == "tip" { tip.hash() } else { rand_hash(4242) };
        let target = if a.target == "epoch" { epoch.compact_target() } else { other_target(epoch.compact_target()) };
        let built = BlockBuilder::default()
            .parent_hash(parent_hash)
            .number(a.number)
            .epoch(if well_formed { want_epoch } else { EpochNumberWithFraction::new_unchecked(a.ep.0, 0, 1) })
            .compact_target(target)
            .timestamp(GENESIS_TS + a.ts)
            .dao(dao)
            .transactions(txs)
            .proposals(proposals.clone())
            .uncles(uncles.clone())
            .extension(ext.clone())
            .build();
        // the builders refuse (debug_assert) to produce a malformed epoch field: patch the raw header instead
        let built = if well_formed { built } else { patch_epoch(&built, want_epoch) };
        Ok(match a.roots.as_str() {
            "ok" => built,
            "txroot" => built.as_advanced_builder().transactions_root(rand_hash(1)).build_unchecked(),
            "proproot" => built.as_advanced_builder().proposals_hash(rand_hash(2)).build_unchecked(),
            "extrahash" => built.as_advanced_builder().extra_hash(rand_hash(3)).build_unchecked(),
            x => return Err(format!("unknown roots {x}")),
        })
    };
    let b0 = assemble_with(0)?;
    if a.bytes == 0 {
        return Ok(b0);
    }
    // exact size: pad the cellbase witness message
    let want = (REAL_MAX_BYTES + a.bytes) as i64 - w.p.maxbytes as i64;
    let have = b0.data().serialized_size_without_uncle_proposals() as i64;
    if want < have {
        return Err(format!("natural size {have} above requested {want}"));
    }
    let b1 = assemble_with((want - have) as usize)?;
    let got = b1.data().serialized_size_without_uncle_proposals() as i64;
    if got != want {
        return Err(format!("padding failed: {got} != {want}"));
    }
    Ok(b1)
}

fn patch_epoch(b: &BlockView, e: EpochNumberWithFraction) -> BlockView {
    let h = b.data().header();
    let raw = h.raw().as_builder().epoch(e.pack()).build();
    let header = h.as_builder().raw(raw).build();
    let packed_block = match b.extension() {
        Some(ext) => packed::BlockV1::new_builder()
            .header(header)
            .uncles(b.data().uncles())
            .transactions(b.data().transactions())
            .proposals(b.data().proposals())
            .extension(ext)
            .build()
            .as_v0(),
        None => packed::Block::new_builder()
            .header(header)
            .uncles(b.data().uncles())
            .transactions(b.data().transactions())
            .proposals(b.data().proposals())
            .build(),
    };
    packed_block.into_view_without_reset_header()
}

#[derive(Clone, PartialEq, Debug)]
struct StateSig {
    tip: Byte32,
    td: String,
    epoch: u64,
    store_tip: Byte32,
}
fn sig(n: &Node) -> StateSig {
    let s = n.shared.snapshot();
    StateSig {
        tip: s.tip_hash(),
        td: format!("{:x}", s.total_difficulty()),
        epoch: s.epoch_ext().number(),
        store_tip: n.shared.store().get_tip_header().map(|h| h.hash()).unwrap_or_default(),
    }
}

fn measure_tx_cycles(p: &AParams) -> u64 {
    let params = params_of(p, None);
    let c = consensus(&params);
    let n = Node::start(&NodeCfg { assembler: false, ..NodeCfg::temp(&c) });
    let t = spend(&c, &[genesis_cell(&c, 0)], 50_000 * 100_000_000, 1, 1000, 0);
    let r = n.shared.tx_pool_controller().test_accept_tx(t).expect("pool").expect("always-success tx accepted");
    r.cycles
}

fn params_of(p: &AParams, cycles: Option<u64>) -> Params {
    Params {
        epoch_len: p.l,
        window: (p.wclose, p.wfar),
        genesis_cells: p.ntx,
        median_time_block_count: p.k,
        max_block_proposals_limit: p.maxproposals,
        max_block_bytes: Some(REAL_MAX_BYTES),
        max_block_cycles: cycles,
        ..Default::default()
    }
}

fn emit(v: serde_json::Value) {
    let o = std::io::stdout();
    let mut o = o.lock();
    let _ = writeln!(o, "{}", v);
}

struct Obs {
    attached: bool,
    ok: bool,
    err: String,
    unchanged: bool,
    status_invalid: bool,
    lost: bool,
}

/// submit a probe through header check + chain service, observe, restore the context
fn submit_probe(n: &Node, b: &BlockView) -> Obs {
    let before = sig(n);
    let r = n.submit_like_miner(b);
    let after = sig(n);
    let attached = after.tip == b.hash();
    let unchanged = after == before;
    let status_invalid = n.shared.get_block_status(&b.hash()) == ckb_shared::block_status::BlockStatus::BLOCK_INVALID;
    let mut lost = false;
    if attached {
        if n.shared.snapshot().is_main_chain(&before.tip) {
            // (under a broken pipeline the truncation itself may fail: that is an observation, not a harness error)
            if n.truncate_to(&before.tip).is_err() || sig(n) != before {
                lost = true;
            }
        } else {
            lost = true; // a side branch became canonical: the context cannot be restored
        }
    }
    Obs { attached, ok: r.is_ok(), err: r.err().unwrap_or_default(), unchanged, status_invalid, lost }
}

fn run_ctx(ci: usize, ctx: &ACtx, tx_cycles: u64, limit: usize, seed: u64) {
    let p = &ctx.p();
    if ctx.params.maxuncles != 2 || ctx.params.future != 15_000 {
        panic!("parameters not realisable: max uncles / future are constants of the code");
    }
    let q = p.maxcycles.div_ceil(p.txcycles);
    let real_cycles = q * tx_cycles - (q * p.txcycles - p.maxcycles);
    let params = params_of(p, Some(real_cycles));
    let c = consensus(&params);
    let ft = ckb_systemtime::faketime();
    ft.set_faketime(GENESIS_TS + p.now);
    let n = Node::start(&NodeCfg { assembler: false, ..NodeCfg::temp(&c) });
    let bn = Node::start(&NodeCfg { assembler: false, ..NodeCfg::temp(&c) });
    let txs: Vec<TransactionView> =
        (0..p.ntx).map(|i| spend(&c, &[genesis_cell(&c, i)], 50_000 * 100_000_000, 1, 1000, 0)).collect();
    let mut w = World { p: p.clone(), consensus: c.clone(), txs, chain: vec![], sides: vec![None; ctx.sides.len()], nonce: seed * 1_000_000 + ci as u64 * 10_000 };
    let _ = &w.consensus;
    let nblocks = ctx.chain.len();
    let mut rng = ckbv::util::Rng::new(seed * 7919 + ci as u64);
    for m in 0..=nblocks {
        // ---- side blocks rooted at height m (built on the builder node, never shown to the node under test)
        let base_tip = bn.tip().1;
        let mk = |w: &mut World, props: &Vec<u64>| -> BlockView {
            w.nonce += 1;
            let spec = BlockSpec { proposals: props.iter().map(|id| short_id_of(w, *id)).collect(), nonce: w.nonce, ts: bn.shared.snapshot().tip_header().timestamp() + 1, ..Default::default() };
            assemble(&bn, &spec).expect("assemble side block")
        };
        for i in 0..ctx.sides.len() {
            if ctx.sides[i].par.k == "m" && ctx.sides[i].par.i == m as u64 {
                w.sides[i] = Some(mk(&mut w, &ctx.sides[i].props));
            }
        }
        // children of a side block: attach the parent ONCE on the builder node (a block that was verified before is
        // not attached again when it is re-submitted), build all its children, return to the context
        for j in 0..ctx.sides.len() {
            if !(ctx.sides[j].par.k == "m" && ctx.sides[j].par.i == m as u64) {
                continue;
            }
            let kids: Vec<usize> = (0..ctx.sides.len()).filter(|i| ctx.sides[*i].par.k == "s" && ctx.sides[*i].par.i as usize == j + 1).collect();
            if kids.is_empty() {
                continue;
            }
            let parent = w.sides[j].clone().unwrap();
            bn.process(&parent).expect("builder accepts side parent");
            assert!(bn.tip().1 == parent.hash(), "side parent not attached on the builder node");
            for i in kids {
                let sb = mk(&mut w, &ctx.sides[i].props);
                assert!(sb.parent_hash() == parent.hash());
                w.sides[i] = Some(sb);
            }
            bn.truncate_to(&base_tip).expect("truncate builder");
        }
        // ---- probes on top of chain[1..m]
        let probes = &ctx.probes[m];
        let mut order: Vec<usize> = (0..probes.len()).collect();
        if limit > 0 && probes.len() > limit {
            // keep every family, thin out the big ones
            for i in (1..order.len()).rev() {
                let j = rng.below(i as u64 + 1) as usize;
                order.swap(i, j);
            }
            let mut per: std::collections::HashMap<&str, usize> = Default::default();
            let cap = (limit / 20).max(3);
            order.retain(|i| {
                let e = per.entry(probes[*i].fam.as_str()).or_insert(0);
                *e += 1;
                *e <= cap
            });
            order.sort();
        }
        for pi in order {
            let pr = &probes[pi];
            match realise(&mut w, &n, &pr.b) {
                Err(e) => emit(json!({"probe": {"ctx": ci, "m": m, "i": pi, "fam": pr.fam, "lab": pr.lab, "expect": pr.verdict, "unrealised": e}})),
                Ok(b) => {
                    let o = submit_probe(&n, &b);
                    emit(json!({"probe": {"ctx": ci, "m": m, "i": pi, "fam": pr.fam, "lab": pr.lab, "expect": pr.verdict, "attached": o.attached, "ok": o.ok,
                        "err": o.err, "unchanged": o.unchanged, "status_invalid": o.status_invalid, "branch": false}}));
                    if o.lost {
                        emit(json!({"context_lost": {"ctx": ci, "after": pr.fam}}));
                        return;
                    }
                }
            }
        }
        // ---- extend the context: the spec says chain[m+1] is valid
        if m < nblocks {
            let a = &ctx.chain[m];
            let b = realise(&mut w, &n, a).expect("context block realisable");
            let r = n.submit_like_miner(&b);
            let attached = n.tip().1 == b.hash();
            emit(json!({"context_block": {"ctx": ci, "m": m + 1, "attached": attached, "ok": r.is_ok(), "err": r.clone().err().unwrap_or_default()}}));
            if !attached {
                return; // the rest of the context cannot be built; python reports the disagreement
            }
            bn.process(&b).expect("builder node follows the context");
            w.chain.push(b);
        }
    }
    // ---- refused as a whole: side branch S1 (valid sibling of the tip) + S2 (flawed)
    let tip_ctx = n.tip().1;
    let parent = if nblocks >= 2 { w.chain[nblocks - 2].hash() } else { c.genesis_hash() };
    bn.truncate_to(&parent).expect("truncate builder to fork point");
    let s1 = realise(&mut w, &bn, &ctx.branch_base).expect("branch base");
    bn.process(&s1).expect("builder accepts S1");
    let r1 = n.submit_like_miner(&s1);
    emit(json!({"branch_base": {"ctx": ci, "ok": r1.is_ok(), "err": r1.clone().err().unwrap_or_default(), "tip_kept": n.tip().1 == tip_ctx}}));
    let mut seen_fam: HashSet<String> = HashSet::new();
    let mut refused: Option<BlockView> = None;
    for (pi, pr) in ctx.branch_probes.iter().enumerate() {
        if pr.verdict != "reject" || pr.b.parent != "tip" {
            continue;
        }
        let key = format!("{}/{}", pr.fam, if pr.fam.starts_with("uncle") { "" } else { pr.lab.as_str() });
        if !seen_fam.insert(key) {
            continue;
        }
        match realise(&mut w, &bn, &pr.b) {
            Err(e) => emit(json!({"probe": {"ctx": ci, "m": nblocks, "i": pi, "fam": pr.fam, "lab": pr.lab, "expect": pr.verdict, "unrealised": e, "branch": true}})),
            Ok(b) => {
                let o = submit_probe(&n, &b);
                emit(json!({"probe": {"ctx": ci, "m": nblocks, "i": pi, "fam": pr.fam, "lab": pr.lab, "expect": pr.verdict, "attached": o.attached, "ok": o.ok,
                    "err": o.err, "unchanged": o.unchanged && n.tip().1 == tip_ctx, "status_invalid": o.status_invalid, "branch": true}}));
                if o.lost {
                    emit(json!({"context_lost": {"ctx": ci, "after": pr.fam}}));
                    return;
                }
                if refused.is_none() && matches!(pr.fam.as_str(), "commit_window" | "dao" | "reward" | "extension") && !o.attached {
                    refused = Some(b);
                }
            }
        }
    }
    // no extension of a refused branch ever becomes canonical
    if let Some(bad) = refused {
        let s1h = bn.tip().1;
        if bn.process_unchecked(&bad).is_ok() && bn.tip().1 == bad.hash() {
            w.nonce += 1;
            if let Ok(s3) = assemble(&bn, &BlockSpec { nonce: w.nonce, ts: GENESIS_TS + ctx.branch_base.ts + 2, ..Default::default() }) {
                let before = sig(&n);
                n.submit_async(&s3);
                let quiet = n.quiesce();
                let after = sig(&n);
                emit(json!({"extension_of_refused": {"ctx": ci, "quiet": quiet, "unchanged": before == after, "attached": after.tip == s3.hash(),
                    "orphans": n.chain.chain_controller().orphan_blocks_len()}}));
            }
            bn.truncate_to(&s1h).expect("truncate builder to S1");
        }
    }
    // a valid second block makes the branch canonical: every valid block whose chain is the heaviest is attached
    for pr in ctx.branch_probes.iter() {
        if pr.verdict == "accept" && pr.fam == "number" {
            let b = realise(&mut w, &bn, &pr.b).expect("valid branch block");
            let r = n.submit_like_miner(&b);
            emit(json!({"branch_valid": {"ctx": ci, "ok": r.is_ok(), "err": r.clone().err().unwrap_or_default(), "attached": n.tip().1 == b.hash(),
                "s1_on_main": n.shared.snapshot().is_main_chain(&s1.hash())}}));
            break;
        }
    }
}

impl ACtx {
    fn p(&self) -> AParams {
        self.params.clone()
    }
}

fn main() {
    let args: Vec<String> = std::env::args().collect();
    match args.get(1).map(|s| s.as_str()) {
        Some("run") => {
            let input = opt(&args, "--in").expect("--in");
            let limit = opt_u64(&args, "--limit", 0) as usize;
            let seed = opt_u64(&args, "--seed", 1);
            let only = opt(&args, "--only").map(|s| s.parse::<usize>().unwrap());
            let text = std::fs::read_to_string(input).expect("read input");
            let ctxs: Vec<ACtx> = text.lines().filter(|l| !l.trim().is_empty()).map(|l| serde_json::from_str(l).expect("context")).collect();
            let mut cyc: std::collections::HashMap<String, u64> = Default::default();
            let mut done = 0;
            for (ci, ctx) in ctxs.iter().enumerate() {
                if only.map(|o| o != ci).unwrap_or(false) {
                    continue;
                }
                let key = format!("{:?}", (ctx.params.l, ctx.params.wclose, ctx.params.wfar));
                let tc = *cyc.entry(key).or_insert_with(|| measure_tx_cycles(&ctx.params));
                run_ctx(ci, ctx, tc, limit, seed);
                done += 1;
            }
            emit(json!({"summary": {"contexts": done}}));
            std::io::stdout().flush().unwrap();
            std::process::exit(0);
        }
        _ => {
            eprintln!("usage: c03 run --in <ctxs.ndjson> [--limit N] [--seed S] [--only i]");
            std::process::exit(2);
        }
    }
}
