//! Smoke test of the fixture: mining, manual assembly with proposals/commits, a reorg through a builder node.
use ckbv::fixture::*;
use ckb_store::ChainStore;
fn main() {
    let ft = ckb_systemtime::faketime();
    ft.set_faketime(GENESIS_TS + 1000 * BLOCK_INTERVAL_MS);
    let p = Params { epoch_len: 4, window: (2, 4), ..Default::default() };
    let c = consensus(&p);
    let n = Node::start(&NodeCfg::temp(&c));
    let t = spend(&c, &[genesis_cell(&c, 0)], 50_000 * 100_000_000, 2, 1000, 0);
    let b1 = assemble(&n, &BlockSpec { proposals: vec![t.proposal_short_id()], ..Default::default() }).unwrap();
    println!("b1 {:?}", n.submit_like_miner(&b1));
    let b2 = assemble(&n, &BlockSpec::default()).unwrap();
    println!("b2 {:?}", n.submit_like_miner(&b2));
    let b3 = assemble(&n, &BlockSpec { commits: vec![t.clone()], ..Default::default() }).unwrap();
    println!("b3 {:?} tip {:?}", n.submit_like_miner(&b3), n.tip().0);
    // side branch from b1, 3 blocks long, delivered child-first
    let m = builder_node(&c, &[b1.clone()]);
    let mut side = vec![];
    for i in 0..3 {
        let s = assemble(&m, &BlockSpec { nonce: 7 + i, ..Default::default() }).unwrap();
        m.process(&s).unwrap();
        side.push(s);
    }
    for s in side.iter().rev() {
        n.submit_async(s);
    }
    println!("quiesce {} tip {:?} == side tip {}", n.quiesce(), n.tip().0, n.tip().1 == side[2].hash());
    println!("verdicts {:?}", n.verdicts.lock().unwrap().iter().map(|(h, r)| (hex8(h), r.clone())).collect::<Vec<_>>());
    println!("pool synced {} ; t in pool: {:?}", n.wait_pool_synced(), n.shared.tx_pool_controller().get_tx_detail(t.hash()).map(|d| d.entry_status));
    println!("live cell of t on new chain: {:?}", n.shared.snapshot().get_cell(&ckb_types::packed::OutPoint::new(t.hash(), 0)).is_some());
    std::process::exit(0);
}
