//! Growth binding (attached to C03): the soft-fork deployment state machine (spec/Versionbits.tla) against the REAL
//! `Versionbits` / `VersionbitsConditionChecker::get_state` / `get_state_since_epoch` / `Consensus::compute_versionbits`
//! of ckb-chain-spec.
//!
//!   g_versionbits mock --in <trees.ndjson> [--from i] [--to j] [--seed s]
//!       every line is a tree exported by TLC (MC_Versionbits `TRecord`): blocks with parent / signal / epoch
//!       (number, index, length) and the deployment. The tree is realised as real headers + cellbases + EpochExts
//!       behind a `VersionbitsIndexer` (the in-memory indexer of the crate's own unit test); the real code is asked
//!       for the state of EVERY block of both forks, in several query orders (each order on freshly salted hashes,
//!       i.e. with an empty persistent cache): ascending, descending (cache filled backwards), second fork first,
//!       random, and "grow" (query each block when only its ancestors and older blocks exist).
//!   g_versionbits node --seed s --rounds r
//!       a real node (tiny epochs, real epoch-length adjustment, a Testdummy deployment): blocks from the node's own
//!       block template (which signals through compute_versionbits) and hand-assembled blocks without signal, a
//!       second fork and reorgs; the state of every block of both forks is read through the real store-backed
//!       indexer (`Snapshot`), the recorded tree is printed for the TLC judge.
//! Output: ndjson, one object per tree, final {"summary":..}. The python side judges.
use ckb_chain_spec::consensus::{build_genesis_epoch_ext, Consensus, ConsensusBuilder};
use ckb_chain_spec::versionbits::{ActiveMode, Deployment, DeploymentPos, ThresholdState, VersionbitsIndexer};
use ckb_types::{
    core::{
        capacity_bytes, BlockBuilder, BlockView, Capacity, EpochExt, EpochNumberWithFraction, HeaderView, Ratio,
        TransactionBuilder, TransactionView,
    },
    packed::{Byte32, Bytes, CellbaseWitness},
    prelude::*,
    utilities::DIFF_TWO,
};
use ckbv::util::{self, Rng};
use serde_json::{json, Value};
use std::collections::HashMap;
use std::io::{BufRead, Write};
use std::panic::{catch_unwind, AssertUnwindSafe};

const BIT: u8 = 1;

#[derive(Clone)]
struct Mock {
    cellbases: HashMap<Byte32, TransactionView>,
    headers: HashMap<Byte32, HeaderView>,
    epoch_index: HashMap<Byte32, Byte32>,
    epoch_exts: HashMap<Byte32, EpochExt>,
}

impl VersionbitsIndexer for Mock {
    fn block_epoch_index(&self, block_hash: &Byte32) -> Option<Byte32> {
        self.epoch_index.get(block_hash).cloned()
    }
    fn epoch_ext(&self, index: &Byte32) -> Option<EpochExt> {
        self.epoch_exts.get(index).cloned()
    }
    fn block_header(&self, block_hash: &Byte32) -> Option<HeaderView> {
        self.headers.get(block_hash).cloned()
    }
    fn cellbase(&self, block_hash: &Byte32) -> Option<TransactionView> {
        self.cellbases.get(block_hash).cloned()
    }
}

fn state_name(s: Option<ThresholdState>) -> &'static str {
    match s {
        None => "none",
        Some(ThresholdState::Defined) => "defined",
        Some(ThresholdState::Started) => "started",
        Some(ThresholdState::LockedIn) => "locked_in",
        Some(ThresholdState::Active) => "active",
        Some(ThresholdState::Failed) => "failed",
    }
}

/// cellbase of a block that does / does not signal bit BIT; several encodings of both, chosen by `pick`
fn cellbase(sig: bool, pick: u64, salt: u64) -> (TransactionView, &'static str) {
    let bit = 1u32 << BIT;
    let with_msg = |m: Vec<u8>| {
        let w = CellbaseWitness::new_builder().message(m.as_slice()).build();
        TransactionBuilder::default().witness(Into::<Bytes>::into(w.as_bytes())).build()
    };
    let mut tail = b" ".to_vec();
    tail.extend_from_slice(&salt.to_le_bytes());
    if sig {
        match pick % 3 {
            0 => (with_msg(bit.to_le_bytes().to_vec()), "bit"),
            1 => (with_msg((bit | 0x1555_5555).to_le_bytes().to_vec()), "bit+others"),
            _ => {
                let mut m = bit.to_le_bytes().to_vec();
                m.extend_from_slice(&tail);
                (with_msg(m), "bit+text")
            }
        }
    } else {
        match pick % 7 {
            0 => (with_msg(0u32.to_le_bytes().to_vec()), "zero"),
            1 => (with_msg(vec![]), "empty-message"),
            2 => (with_msg(bit.to_le_bytes()[..3].to_vec()), "3-bytes"),
            3 => (with_msg((bit | 0x2000_0000).to_le_bytes().to_vec()), "top-bits"),
            4 => (with_msg((!bit & 0x1fff_ffff).to_le_bytes().to_vec()), "other-bits"),
            5 => (TransactionBuilder::default().build(), "no-witness"),
            _ => (TransactionBuilder::default().witness(Into::<Bytes>::into(ckb_types::bytes::Bytes::from(bit.to_le_bytes().to_vec()))).build(), "raw-witness"),
        }
    }
}

struct Tree {
    period: u64,
    start: u64,
    timeout: u64,
    minact: u64,
    num: u64,
    den: u64,
    glen: u64,
    n: usize,
    parent: Vec<usize>,       // 1-based ids, index 0 unused
    sig: Vec<bool>,
    ep: Vec<(u64, u64, u64)>, // (number, index, length)
    fork_at: usize,
}

fn parse_tree(v: &Value) -> Tree {
    let n = v["n"].as_u64().unwrap() as usize;
    let mut parent = vec![0usize];
    let mut sig = vec![false];
    let mut ep = vec![(0, 0, v["glen"].as_u64().unwrap())];
    for i in 0..n {
        parent.push(v["parent"][i].as_u64().unwrap() as usize);
        sig.push(v["sig"][i].as_bool().unwrap());
        let e = &v["ep"][i];
        ep.push((e[0].as_u64().unwrap(), e[1].as_u64().unwrap(), e[2].as_u64().unwrap()));
    }
    Tree {
        period: v["period"].as_u64().unwrap(),
        start: v["start"].as_u64().unwrap(),
        timeout: v["timeout"].as_u64().unwrap(),
        minact: v["minact"].as_u64().unwrap(),
        num: v["num"].as_u64().unwrap(),
        den: v["den"].as_u64().unwrap(),
        glen: v["glen"].as_u64().unwrap(),
        n,
        parent,
        sig,
        ep,
        fork_at: v["forkAt"].as_u64().unwrap_or(0) as usize,
    }
}

struct Built {
    consensus: Consensus,
    blocks: Vec<BlockView>,     // by id
    index_of: Vec<Byte32>,      // epoch index (= key) of block id
    exts: Vec<(Byte32, EpochExt)>, // epoch ext introduced by block id (only epoch heads; genesis' own at [0])
    enc: Vec<&'static str>,
}

/// Realise the tree with hashes salted by `salt` (fresh cache keys).
fn build(t: &Tree, salt: u64) -> Built {
    let gcb = TransactionBuilder::default().witness(Bytes::default()).build();
    let gext = build_genesis_epoch_ext(capacity_bytes!(100), DIFF_TWO, t.glen, 4 * 60 * 60, (1, 40));
    let genesis = BlockBuilder::default().epoch(gext.number_with_fraction(0)).timestamp(salt).transaction(gcb).build();
    let mut deployments = HashMap::new();
    deployments.insert(
        DeploymentPos::Testdummy,
        Deployment {
            bit: BIT,
            start: t.start,
            timeout: t.timeout,
            min_activation_epoch: t.minact,
            period: t.period,
            active_mode: ActiveMode::Normal,
            threshold: Ratio::new(t.num, t.den),
        },
    );
    let consensus = ConsensusBuilder::new(genesis.clone(), gext.clone()).softfork_deployments(deployments).build();
    let mut blocks = vec![genesis.clone()];
    let mut index_of = vec![gext.last_block_hash_in_previous_epoch()];
    let mut exts = vec![(gext.last_block_hash_in_previous_epoch(), gext.clone())];
    let mut ext_of: Vec<EpochExt> = vec![gext];
    let mut enc = vec!["genesis"];
    let mut number = vec![0u64];
    for b in 1..=t.n {
        let p = t.parent[b];
        let (en, ei, el) = t.ep[b];
        let num = number[p] + 1;
        let (cb, how) = cellbase(t.sig[b], salt.wrapping_mul(31).wrapping_add(b as u64 * 7919), salt);
        let blk = BlockBuilder::default()
            .parent_hash(blocks[p].hash())
            .number(num)
            .epoch(EpochNumberWithFraction::new(en, ei, el))
            .timestamp(b as u64) // sibling blocks with equal content must stay distinct blocks
            .transaction(cb)
            .build();
        let ext = if ei == 0 {
            ext_of[p]
                .clone()
                .into_builder()
                .number(en)
                .length(el)
                .start_number(num)
                .last_block_hash_in_previous_epoch(blocks[p].hash())
                .build()
        } else {
            ext_of[p].clone()
        };
        index_of.push(ext.last_block_hash_in_previous_epoch());
        exts.push((ext.last_block_hash_in_previous_epoch(), ext.clone()));
        ext_of.push(ext);
        blocks.push(blk);
        enc.push(how);
        number.push(num);
    }
    Built { consensus, blocks, index_of, exts, enc }
}

fn insert(m: &mut Mock, b: &Built, id: usize) {
    let blk = &b.blocks[id];
    m.cellbases.insert(blk.hash(), blk.transactions()[0].clone());
    m.headers.insert(blk.hash(), blk.header());
    m.epoch_index.insert(blk.hash(), b.index_of[id].clone());
    m.epoch_exts.insert(b.exts[id].0.clone(), b.exts[id].1.clone());
}

fn query(b: &Built, m: &Mock, id: usize) -> (String, Value, Value) {
    let h = b.blocks[id].header();
    let c = &b.consensus;
    let st = catch_unwind(AssertUnwindSafe(|| c.versionbits_state(DeploymentPos::Testdummy, &h, m)));
    let st = match st {
        Ok(s) => state_name(s).to_string(),
        Err(_) => "panic".to_string(),
    };
    let since = catch_unwind(AssertUnwindSafe(|| c.versionbits_state_since_epoch(DeploymentPos::Testdummy, &h, m)));
    let since = match since {
        Ok(Some(e)) => json!(e),
        Ok(None) => json!(null),
        Err(_) => json!("panic"),
    };
    let vb = catch_unwind(AssertUnwindSafe(|| c.compute_versionbits(&h, m)));
    let vb = match vb {
        Ok(Some(v)) => json!(v),
        Ok(None) => json!(null),
        Err(_) => json!("panic"),
    };
    (st, since, vb)
}

fn run_tree(t: &Tree, i: u64, seed: u64) -> Value {
    let mut rng = Rng::new(seed ^ i.wrapping_mul(0x9E37_79B9));
    let all: Vec<usize> = (0..=t.n).collect();
    let mut orders: Vec<(&str, Vec<usize>)> = vec![("asc", all.clone()), ("desc", all.iter().rev().cloned().collect())];
    if t.fork_at > 0 {
        // tip of the second fork first, then the first fork from its tip downwards, then the rest
        let mut o: Vec<usize> = (t.fork_at..=t.n).rev().collect();
        o.extend((0..t.fork_at).rev());
        orders.push(("fork2-first", o));
        // the first fork completely, then the second
        let mut o: Vec<usize> = vec![t.fork_at - 1];
        o.extend(0..t.fork_at - 1);
        o.extend(t.fork_at..=t.n);
        orders.push(("fork1-tip-then-fork2", o));
    }
    let mut o = all.clone();
    for k in (1..o.len()).rev() {
        let j = rng.below(k as u64 + 1) as usize;
        o.swap(k, j);
    }
    orders.push(("random", o));
    orders.push(("grow", all.clone()));
    let mut variants = vec![];
    for (vi, (name, order)) in orders.iter().enumerate() {
        let salt = seed.wrapping_mul(1_000_003).wrapping_add(i * 16 + vi as u64 + 1);
        let b = build(t, salt);
        let mut m = Mock { cellbases: HashMap::new(), headers: HashMap::new(), epoch_index: HashMap::new(), epoch_exts: HashMap::new() };
        let grow = *name == "grow";
        if !grow {
            for id in 0..=t.n {
                insert(&mut m, &b, id);
            }
        }
        let mut states = vec![String::new(); t.n + 1];
        let mut since = vec![Value::Null; t.n + 1];
        let mut vbits = vec![Value::Null; t.n + 1];
        for &id in order {
            if grow {
                insert(&mut m, &b, id);
            }
            let (s, e, v) = query(&b, &m, id);
            states[id] = s;
            since[id] = e;
            vbits[id] = v;
        }
        // second pass (warm cache) must give the same answers
        let mut warm_diff = vec![];
        for id in 0..=t.n {
            let (s, _, _) = query(&b, &m, id);
            if s != states[id] {
                warm_diff.push(json!([id, states[id], s]));
            }
        }
        variants.push(json!({"order": name, "states": states, "since": since, "vbits": vbits, "warm_diff": warm_diff,
                             "enc": if vi == 0 { json!(b.enc) } else { Value::Null }}));
    }
    json!({"tree": i, "variants": variants})
}

fn cmd_mock(args: &[String]) {
    let path = util::opt(args, "--in").expect("--in");
    let from = util::opt_u64(args, "--from", 0);
    let to = util::opt_u64(args, "--to", u64::MAX);
    let seed = util::opt_u64(args, "--seed", 1);
    let scratch = util::Scratch::new("gvb");
    ckb_types::global::DATA_DIR.set(scratch.path().join("data")).expect("DATA_DIR set once");
    let f = std::io::BufReader::new(std::fs::File::open(path).expect("open --in"));
    let out = std::io::stdout();
    let mut out = out.lock();
    let (mut trees, mut queries) = (0u64, 0u64);
    for (i, line) in f.lines().enumerate() {
        let i = i as u64;
        if i < from || i >= to {
            continue;
        }
        let line = line.unwrap();
        if line.trim().is_empty() {
            continue;
        }
        let v: Value = serde_json::from_str(&line).expect("json");
        let t = parse_tree(&v);
        let r = run_tree(&t, i, seed);
        queries += r["variants"].as_array().unwrap().len() as u64 * (t.n as u64 + 1) * 2;
        trees += 1;
        writeln!(out, "{}", r).unwrap();
    }
    writeln!(out, "{}", json!({"summary": {"trees": trees, "queries": queries}})).unwrap();
    out.flush().unwrap();
    drop(scratch);
    std::process::exit(0);
}

// ---------------------------------------------------------------------------------------------------------
// real node
use ckb_chain_spec::versionbits::VersionbitsCache;
use ckb_store::ChainStore;
use ckbv::fixture::{self, assemble, builder_node, BlockSpec, Node, NodeCfg, Params};

/// does this block signal bit BIT? (RFC 0043: first four bytes of the cellbase witness message, little endian;
/// the top three bits must be 000)
fn signals(b: &BlockView) -> bool {
    let cb = &b.transactions()[0];
    let Some(w) = cb.witnesses().get(0) else { return false };
    let Ok(cw) = CellbaseWitness::from_slice(&w.raw_data()) else { return false };
    let m = cw.message().raw_data();
    if m.len() < 4 {
        return false;
    }
    let v = u32::from_le_bytes([m[0], m[1], m[2], m[3]]);
    v >> 29 == 0 && v & (1 << BIT) != 0
}

fn observe(node: &Node, c: &Consensus, blocks: &[BlockView]) -> (Vec<String>, Vec<Value>) {
    let snap = node.shared.cloned_snapshot();
    let mut st = vec![];
    let mut since = vec![];
    for b in blocks {
        let h = b.header();
        let s = catch_unwind(AssertUnwindSafe(|| c.versionbits_state(DeploymentPos::Testdummy, &h, snap.as_ref())));
        st.push(match s {
            Ok(s) => state_name(s).to_string(),
            Err(_) => "panic".to_string(),
        });
        let e = catch_unwind(AssertUnwindSafe(|| c.versionbits_state_since_epoch(DeploymentPos::Testdummy, &h, snap.as_ref())));
        since.push(match e {
            Ok(Some(e)) => json!(e),
            Ok(None) => Value::Null,
            Err(_) => json!("panic"),
        });
    }
    (st, since)
}

fn node_round(round: u64, seed: u64, adjust: bool) -> Value {
    let mut rng = Rng::new(seed.wrapping_mul(7919) ^ round.wrapping_mul(0x9E37_79B9_7F4A));
    let epoch_len = rng.range(2, 3);
    let period = rng.range(2, 3);
    let start = rng.range(0, period + 1);
    let timeout = start + period * rng.range(1, 3) + rng.range(0, 1);
    let minact = if rng.chance(1, 2) { 0 } else { start + 3 * period + rng.range(0, 2) };
    let (num, den) = [(1u64, 2u64), (3, 4), (1, 1)][rng.below(3) as usize];
    let mood = [85u64, 60, 30][rng.below(3) as usize]; // % of hand-assembled blocks that signal
    let p = Params { epoch_len, window: (2, 4), permanent_difficulty: !adjust, genesis_cells: 1, ..Default::default() };
    let mut c = fixture::consensus(&p);
    let mut deployments = HashMap::new();
    deployments.insert(
        DeploymentPos::Testdummy,
        Deployment { bit: BIT, start, timeout, min_activation_epoch: minact, period, active_mode: ActiveMode::Normal, threshold: Ratio::new(num, den) },
    );
    c.versionbits_caches = VersionbitsCache::new(deployments.keys());
    c.deployments = deployments;
    // the persistent cache directory is shared by all rounds of the process: salt the chain (first block's nonce)
    let salt = (seed << 20) ^ (round << 8);
    let node = Node::start(&NodeCfg::temp(&c));
    let epochs = if adjust { 5 } else { 4 * period + 3 };
    let mut blocks: Vec<BlockView> = vec![c.genesis_block().clone()];
    let mut parent: Vec<usize> = vec![0];
    let mut tmpl: Vec<usize> = vec![];
    let mut moments: Vec<Value> = vec![];
    let mut id_of: HashMap<Byte32, usize> = HashMap::new();
    id_of.insert(blocks[0].hash(), 0);
    let mut nonce = salt;
    let mut next = |rng: &mut Rng| {
        nonce += 1;
        let sig = rng.below(100) < mood;
        // low 32 bits = version field: top three bits 000, bit BIT = signal; the rest of the nonce keeps siblings distinct
        ((nonce & 0x00ff_ffff) << 32) | if sig { 1 << BIT } else { 0 }
    };
    // first fork: from the node's own template (signals according to the node's own state) or hand-assembled
    loop {
        let tip = node.shared.snapshot().tip_header().clone();
        if tip.epoch().number() >= epochs && tip.epoch().index() + 1 == tip.epoch().length() {
            break;
        }
        if adjust && blocks.len() > 140 {
            break;
        }
        let from_template = rng.chance(1, 2);
        let b = if from_template { node.mine(0) } else { assemble(&node, &BlockSpec { nonce: next(&mut rng), ..Default::default() }).expect("assemble") };
        node.process(&b).expect("own block refused");
        parent.push(id_of[&b.parent_hash()]);
        id_of.insert(b.hash(), blocks.len());
        if from_template {
            tmpl.push(blocks.len());
        }
        blocks.push(b);
        if rng.chance(1, 5) {
            let (st, since) = observe(&node, &c, &blocks);
            moments.push(json!({"at": "grow", "n": blocks.len() - 1, "states": st, "since": since}));
        }
    }
    let main_len = blocks.len() - 1;
    let (st, since) = observe(&node, &c, &blocks);
    moments.push(json!({"at": "fork1-complete", "n": main_len, "states": st, "since": since}));
    // second fork from a block below, one block longer: delivered to the node, which reorganises
    let f = rng.range(1, (main_len as u64).saturating_sub(2 * epoch_len).max(1)) as usize;
    let bn = builder_node(&c, &blocks[1..=f]);
    let mut fork: Vec<BlockView> = vec![];
    for _ in f..main_len + 1 {
        let b = assemble(&bn, &BlockSpec { nonce: next(&mut rng) | (1 << 63), ..Default::default() }).expect("assemble fork");
        bn.process(&b).expect("builder refuses its block");
        fork.push(b);
    }
    drop(bn);
    let mut reorged = false;
    for b in &fork {
        let before = node.tip().1;
        node.process(b).expect("fork block refused");
        parent.push(id_of[&b.parent_hash()]);
        id_of.insert(b.hash(), blocks.len());
        blocks.push(b.clone());
        if node.tip().1 == b.hash() && before != b.parent_hash() {
            reorged = true;
            let (st, since) = observe(&node, &c, &blocks);
            moments.push(json!({"at": "after-reorg", "n": blocks.len() - 1, "states": st, "since": since}));
        }
    }
    // the block template on the new fork signals by the state of the NEW tip
    let b = node.mine(0);
    node.process(&b).expect("template block after reorg refused");
    parent.push(id_of[&b.parent_hash()]);
    id_of.insert(b.hash(), blocks.len());
    tmpl.push(blocks.len());
    blocks.push(b);
    let (st, since) = observe(&node, &c, &blocks);
    moments.push(json!({"at": "final", "n": blocks.len() - 1, "states": st, "since": since}));
    let n = blocks.len() - 1;
    let tip = node.tip().1;
    let main: Vec<bool> = blocks.iter().map(|b| node.shared.snapshot().is_main_chain(&b.hash())).collect();
    drop(node);
    json!({"round": round, "adjust": adjust, "reorged": reorged, "tip": id_of[&tip], "main": main, "tmpl": tmpl, "moments": moments,
           "tree": {"period": period, "start": start, "timeout": timeout, "minact": minact, "num": num, "den": den,
                    "glen": c.genesis_epoch_ext().length(), "n": n,
                    "parent": parent[1..].to_vec(),
                    "sig": blocks[1..].iter().map(signals).collect::<Vec<_>>(),
                    "ep": blocks[1..].iter().map(|b| json!([b.epoch().number(), b.epoch().index(), b.epoch().length()])).collect::<Vec<_>>(),
                    "forkAt": main_len + 1}})
}

fn cmd_node(args: &[String]) {
    let seed = util::opt_u64(args, "--seed", 1);
    let rounds = util::opt_u64(args, "--rounds", 2);
    let adjust_rounds = util::opt_u64(args, "--adjust-rounds", 1);
    let scratch = util::Scratch::new("gvbn");
    ckb_types::global::DATA_DIR.set(scratch.path().join("data")).expect("DATA_DIR set once");
    let ft = ckb_systemtime::faketime();
    ft.set_faketime(fixture::GENESIS_TS + 100_000 * fixture::BLOCK_INTERVAL_MS);
    let out = std::io::stdout();
    let mut out = out.lock();
    for r in 0..rounds + adjust_rounds {
        let v = node_round(r, seed, r >= rounds);
        writeln!(out, "{}", v).unwrap();
    }
    writeln!(out, "{}", json!({"summary": {"rounds": rounds + adjust_rounds}})).unwrap();
    out.flush().unwrap();
    drop(scratch);
    std::process::exit(0);
}

fn main() {
    let args: Vec<String> = std::env::args().collect();
    match args.get(1).map(|s| s.as_str()) {
        Some("mock") => cmd_mock(&args[2..]),
        Some("node") => cmd_node(&args[2..]),
        _ => {
            eprintln!("usage: g_versionbits mock --in <trees.ndjson> [--from i] [--to j] [--seed s] | node --seed s --rounds r --adjust-rounds a");
            std::process::exit(2);
        }
    }
}
