//! Growth binding (attached to C03): the soft-fork deployment state machine (spec/Versionbits.tla) against the REAL
//! `Versionbits` / `VersionbitsConditionChecker::get_state` / `get_state_since_epoch` / `Consensus::compute_versionbits`
//! of ckb-chain-spec.
//!
//!   g_versionbits mock --in <trees.ndjson> [--from i] [--to j] [--seed s]
//!       every line is a tree exported by TLC (MC_Versionbits `TRecord`): blocks with parent / signal / epoch
//!       (number, index, length) and the deployment. The tree is realised as real headers + cellbases + EpochExts
//!       behind a `VersionbitsIndexer` (the in-memory indexer of the crate's own unit test); the real code is asked
//!       for the state of EVERY block of both forks, in several query orders (each order on freshly salted hashes,
//!       i.e. with an empty persistent cache): ascending, descending (cache filled backwards), second fork first,
//!       random, and "grow" (query each block when only its ancestors and older blocks exist).
//!   g_versionbits node --seed s --rounds r
//!       a real node (tiny epochs, real epoch-length adjustment, a Testdummy deployment): blocks from the node's own
//!       block template (which signals through compute_versionbits) and hand-assembled blocks without signal, a
//!       second fork and reorgs; the state of every block of both forks is read through the real store-backed
//!       indexer (`Snapshot`), the recorded tree is printed for the TLC judge.
//! Output: ndjson, one object per tree, final {"summary":..}. The python side judges.
use ckb_chain_spec::consensus::{build_genesis_epoch_ext, Consensus, ConsensusBuilder};
use ckb_chain_spec::versionbits::{ActiveMode, Deployment, DeploymentPos, ThresholdState, VersionbitsIndexer};
use ckb_types::{
    core::{
        capacity_bytes, BlockBuilder, BlockView, Capacity, EpochExt, EpochNumberWithFraction, HeaderView, Ratio,
        TransactionBuilder, TransactionView,
    },
    packed::{Byte32, Bytes, CellbaseWitness},
    prelude::*,
    utilities::DIFF_TWO,
};
use ckbv::util::{self, Rng};
use serde_json::{json, Value};
use std::collections::HashMap;
use std::io::{BufRead, Write};
use std::panic::{catch_unwind, AssertUnwindSafe};

const BIT: u8 = 1;

#[derive(Clone)]
struct Mock {
    cellbases: HashMap<Byte32, TransactionView>,
    headers: HashMap<Byte32, HeaderView>,
    epoch_index: HashMap<Byte32, Byte32>,
    epoch_exts: HashMap<Byte32, EpochExt>,
}

impl VersionbitsIndexer for Mock {
    fn block_epoch_index(&self, block_hash: &Byte32) -> Option<Byte32> {
        self.epoch_index.get(block_hash).cloned()
    }
    fn epoch_ext(&self, index: &Byte32) -> Option<EpochExt> {
        self.epoch_exts.get(index).cloned()
    }
    fn block_header(&self, block_hash: &Byte32) -> Option<HeaderView> {
        self.headers.get(block_hash).cloned()
    }
    fn cellbase(&self, block_hash: &Byte32) -> Option<TransactionView> {
        self.cellbases.get(block_hash).cloned()
    }
}

fn state_name(s: Option<ThresholdState>) -> &'static str {
    match s {
        None => "none",
        Some(ThresholdState::Defined) => "defined",
        Some(ThresholdState::Started) => "started",
        Some(ThresholdState::LockedIn) => "locked_in",
        Some(ThresholdState::Active) => "active",
        Some(ThresholdState::Failed) => "failed",
    }
}

/// cellbase of a block that does / does not signal bit BIT; several encodings of both, chosen by `pick`
fn cellbase(sig: bool, pick: u64, salt: u64) -> (TransactionView, &'static str) {
    let bit = 1u32 << BIT;
    let with_msg = |m: Vec<u8>| {
        let w = CellbaseWitness::new_builder().message(m.as_slice()).build();
        TransactionBuilder::default().witness(Into::<Bytes>::into(w.as_bytes())).build()
    };
    let mut tail = b" ".to_vec();
    tail.extend_from_slice(&salt.to_le_bytes());
    if sig {
        match pick % 3 {
            0 => (with_msg(bit.to_le_bytes().to_vec()), "bit"),
            1 => (with_msg((bit | 0x1555_5555).to_le_bytes().to_vec()), "bit+others"),
            _ => {
                let mut m = bit.to_le_bytes().to_vec();
                m.extend_from_slice(&tail);
                (with_msg(m), "bit+text")
            }
        }
    } else {
        match pick % 7 {
            0 => (with_msg(0u32.to_le_bytes().to_vec()), "zero"),
            1 => (with_msg(vec![]), "empty-message"),
            2 => (with_msg(bit.to_le_bytes()[..3].to_vec()), "3-bytes"),
            3 => (with_msg((bit | 0x2000_0000).to_le_bytes().to_vec()), "top-bits"),
            4 => (with_msg((!bit & 0x1fff_ffff).to_le_bytes().to_vec()), "other-bits"),
            5 => (TransactionBuilder::default().build(), "no-witness"),
            _ => (TransactionBuilder::default().witness(Into::<Bytes>::into(ckb_types::bytes::Bytes::from(bit.to_le_bytes().to_vec()))).build(), "raw-witness"),
        }
    }
}

struct Tree {
    period: u64,
    start: u64,
    timeout: u64,
    minact: u64,
    num: u64,
    den: u64,
    glen: u64,
    n: usize,
    parent: Vec<usize>,       // 1-based ids, index 0 unused
    sig: Vec<bool>,
    ep: Vec<(u64, u64, u64)>, // (number, index, length)
    fork_at: usize,
}

fn parse_tree(v: &Value) -> Tree {
    let n = v["n"].as_u64().unwrap() as usize;
    let mut parent = vec![0usize];
    let mut sig = vec![false];
    let mut ep = vec![(0, 0, v["glen"].as_u64().unwrap())];
    for i in 0..n {
        parent.push(v["parent"][i].as_u64().unwrap() as usize);
        sig.push(v["sig"][i].as_bool().unwrap());
        let e = &v["ep"][i];
        ep.push((e[0].as_u64().unwrap(), e[1].as_u64().unwrap(), e[2].as_u64().unwrap()));
    }
    Tree {
        period: v["period"].as_u64().unwrap(),
        start: v["start"].as_u64().unwrap(),
        timeout: v["timeout"].as_u64().unwrap(),
        minact: v["minact"].as_u64().unwrap(),
        num: v["num"].as_u64().unwrap(),
        den: v["den"].as_u64().unwrap(),
        glen: v["glen"].as_u64().unwrap(),
        n,
        parent,
        sig,
        ep,
        fork_at: v["forkAt"].as_u64().unwrap_or(0) as usize,
    }
}

struct Built {
    consensus: Consensus,
    blocks: Vec<BlockView>,     // by id
    index_of: Vec<Byte32>,      // epoch index (= key) of block id
    exts: Vec<(Byte32, EpochExt)>, // epoch ext introduced by block id (only epoch heads; genesis' own at [0])
    enc: Vec<&'static str>,
}

/// Realise the tree with hashes salted by `salt` (fresh cache keys).
fn build(t: &Tree, salt: u64) -> Built {
    let gcb = TransactionBuilder::default().witness(Bytes::default()).build();
    let gext = build_genesis_epoch_ext(capacity_bytes!(100), DIFF_TWO, t.glen, 4 * 60 * 60, (1, 40));
    let genesis = BlockBuilder::default().epoch(gext.number_with_fraction(0)).timestamp(salt).transaction(gcb).build();
    let mut deployments = HashMap::new();
    deployments.insert(
        DeploymentPos::Testdummy,
        Deployment {
            bit: BIT,
            start: t.start,
            timeout: t.timeout,
            min_activation_epoch: t.minact,
            period: t.period,
            active_mode: ActiveMode::Normal,
            threshold: Ratio::new(t.num, t.den),
        },
    );
    let consensus = ConsensusBuilder::new(genesis.clone(), gext.clone()).softfork_deployments(deployments).build();
    let mut blocks = vec![genesis.clone()];
    let mut index_of = vec![gext.last_block_hash_in_previous_epoch()];
    let mut exts = vec![(gext.last_block_hash_in_previous_epoch(), gext.clone())];
    let mut ext_of: Vec<EpochExt> = vec![gext];
    let mut enc = vec!["genesis"];
    let mut number = vec![0u64];
    for b in 1..=t.n {
        let p = t.parent[b];
        let (en, ei, el) = t.ep[b];
        let num = number[p] + 1;
        let (cb, how) = cellbase(t.sig[b], salt.wrapping_mul(31).wrapping_add(b as u64 * 7919), salt);
        let blk = BlockBuilder::default()
            .parent_hash(blocks[p].hash())
            .number(num)
            .epoch(EpochNumberWithFraction::new(en, ei, el))
            .timestamp(b as u64) // sibling blocks with equal content must stay distinct blocks
            .transaction(cb)
            .build();
        let ext = if ei == 0 {
            ext_of[p]
                .clone()
                .into_builder()
                .number(en)
                .length(el)
                .start_number(num)
                .last_block_hash_in_previous_epoch(blocks[p].hash())
                .build()
        } else {
            ext_of[p].clone()
        };
        index_of.push(ext.last_block_hash_in_previous_epoch());
        exts.push((ext.last_block_hash_in_previous_epoch(), ext.clone()));
        ext_of.push(ext);
        blocks.push(blk);
        enc.push(how);
        number.push(num);
    }
    Built { consensus, blocks, index_of, exts, enc }
}

fn insert(m: &mut Mock, b: &Built, id: usize) {
    let blk = &b.blocks[id];
    m.cellbases.insert(blk.hash(), blk.transactions()[0].clone());
    m.headers.insert(blk.hash(), blk.header());
    m.epoch_index.insert(blk.hash(), b.index_of[id].clone());
    m.epoch_exts.insert(b.exts[id].0.clone(), b.exts[id].1.clone());
}

fn query(b: &Built, m: &Mock, id: usize) -> (String, Value, Value) {
    let h = b.blocks[id].header();
    let c = &b.consensus;
    let st = catch_unwind(AssertUnwindSafe(|| c.versionbits_state(DeploymentPos::Testdummy, &h, m)));
    let st = match st {
        Ok(s) => state_name(s).to_string(),
        Err(_) => "panic".to_string(),
    };
    let since = catch_unwind(AssertUnwindSafe(|| c.versionbits_state_since_epoch(DeploymentPos::Testdummy, &h, m)));
    let since = match since {
        Ok(Some(e)) => json!(e),
        Ok(None) => json!(null),
        Err(_) => json!("panic"),
    };
    let vb = catch_unwind(AssertUnwindSafe(|| c.compute_versionbits(&h, m)));
    let vb = match vb {
        Ok(Some(v)) => json!(v),
        Ok(None) => json!(null),
        Err(_) => json!("panic"),
    };
    (st, since, vb)
}

fn run_tree(t: &Tree, i: u64, seed: u64) -> Value {
    let mut rng = Rng::new(seed ^ i.wrapping_mul(0x9E37_79B9));
    let all: Vec<usize> = (0..=t.n).collect();
    let mut orders: Vec<(&str, Vec<usize>)> = vec![("asc", all.clone()), ("desc", all.iter().rev().cloned().collect())];
    if t.fork_at > 0 {
        // tip of the second fork first, then the first fork from its tip downwards, then the rest
        let mut o: Vec<usize> = (t.fork_at..=t.n).rev().collect();
        o.extend((0..t.fork_at).rev());
        orders.push(("fork2-first", o));
        // the first fork completely, then the second
        let mut o: Vec<usize> = vec![t.fork_at - 1];
        o.extend(0..t.fork_at - 1);
        o.extend(t.fork_at..=t.n);
        orders.push(("fork1-tip-then-fork2", o));
    }
    let mut o = all.clone();
    for k in (1..o.len()).rev() {
        let j = rng.below(k as u64 + 1) as usize;
        o.swap(k, j);
    }
    orders.push(("random", o));
    orders.push(("grow", all.clone()));
    let mut variants = vec![];
    for (vi, (name, order)) in orders.iter().enumerate() {
        let salt = seed.wrapping_mul(1_000_003).wrapping_add(i * 16 + vi as u64 + 1);
        let b = build(t, salt);
        let mut m = Mock { cellbases: HashMap::new(), headers: HashMap::new(), epoch_index: HashMap::new(), epoch_exts: HashMap::new() };
        let grow = *name == "grow";
        if !grow {
            for id in 0..=t.n {
                insert(&mut m, &b, id);
            }
        }
        let mut states = vec![String::new(); t.n + 1];
        let mut since = vec![Value::Null; t.n + 1];
        let mut vbits = vec![Value::Null; t.n + 1];
        for &id in order {
            if grow {
                insert(&mut m, &b, id);
            }
            let (s, e, v) = query(&b, &m, id);
            states[id] = s;
            since[id] = e;
            vbits[id] = v;
        }
        // second pass (warm cache) must give the same answers
        let mut warm_diff = vec![];
        for id in 0..=t.n {
            let (s, _, _) = query(&b, &m, id);
            if s != states[id] {
                warm_diff.push(json!([id, states[id], s]));
            }
        }
        variants.push(json!({"order": name, "states": states, "since": since, "vbits": vbits, "warm_diff": warm_diff,
                             "enc": if vi == 0 { json!(b.enc) } else { Value::Null }}));
    }
    json!({"tree": i, "variants": variants})
}

fn cmd_mock(args: &[String]) {
    let path = util::opt(args, "--in").expect("--in");
    let from = util::opt_u64(args, "--from", 0);
    let to = util::opt_u64(args, "--to", u64::MAX);
    let seed = util::opt_u64(args, "--seed", 1);
    let scratch = util::Scratch::new("gvb");
    ckb_types::global::DATA_DIR.set(scratch.path().join("data")).expect("DATA_DIR set once");
    let f = std::io::BufReader::new(std::fs::File::open(path).expect("open --in"));
    let out = std::io::stdout();
    let mut out = out.lock();
    let (mut trees, mut queries) = (0u64, 0u64);
    for (i, line) in f.lines().enumerate() {
        let i = i as u64;
        if i < from || i >= to {
            continue;
        }
        let line = line.unwrap();
        if line.trim().is_empty() {
            continue;
        }
        let v: Value = serde_json::from_str(&line).expect("json");
        let t = parse_tree(&v);
        let r = run_tree(&t, i, seed);
        queries += r["variants"].as_array().unwrap().len() as u64 * (t.n as u64 + 1) * 2;
        trees += 1;
        writeln!(out, "{}", r).unwrap();
    }
    writeln!(out, "{}", json!({"summary": {"trees": trees, "queries": queries}})).unwrap();
    out.flush().unwrap();
    drop(scratch);
    std::process::exit(0);
}

fn main() {
    let args: Vec<String> = std::env::args().collect();
    match args.get(1).map(|s| s.as_str()) {
        Some("mock") => cmd_mock(&args[2..]),
        _ => {
            eprintln!("usage: g_versionbits mock --in <trees.ndjson> [--from i] [--to j] [--seed s]");
            std::process::exit(2);
        }
    }
}
