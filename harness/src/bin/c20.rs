//! C20 — R binding of spec/ProposalWindow.tla: replay of TLC-generated behaviours on a real node.
//!
//! `c20 life --dir D --beh F --from S` runs one *life* of the node under test (N, persistent directory D) on
//! the behaviour in F, starting with step S; a `Restart` step ends the life (the process exits without
//! any shutdown, the driver starts the next life on the same directory = a real process restart).
//!
//! Concretisation
//!  * model id i  <-> transaction spending genesis cell i-1; its proposal short id is what blocks/uncles propose;
//!  * Extend(b): a block assembled on N's tip with the production calculators, proposals b.p, and (b.u # {})
//!    one uncle (a sibling of the tip block) proposing b.u;
//!  * Reorg(k, blocks): the branch is assembled on a mirror node M (truncated to k); N receives the blocks in
//!    order. The model's reorg is one atomic step, so N must not switch before the last block: the blocks
//!    before the last weigh W0 >> 4*level (level = number of reorgs so far, so that up to 15 of them together
//!    weigh less than any block created earlier), the last one weighs whatever makes the branch heavier.
//!    Blocks whose difficulty is not the epoch's are submitted with Switch::DISABLE_EPOCH (everything else,
//!    in particular the two-phase-commit and uncle rules, stays on);
//!  * Truncate(k): ChainController::truncate (the model's reorg with an empty branch);
//!  * probes: for every id a block committing its transaction is offered at the tip; the verdict must be
//!    "accepted" iff the model allows the commitment; an accepted probe is truncated away again.
//! Observations (ndjson on stdout): the published view after every step, the `dropped` ids reported by the
//! `VerifyBest` / `Truncate` hook events of chain/src/verify.rs (cfg(ckb_verif)), probe verdicts.
use ckb_chain::verif;
use ckb_store::ChainStore;
use ckb_types::core::{BlockBuilder, BlockView, TransactionView, UncleBlockView};
use ckb_types::packed::{Byte32, ProposalShortId};
use ckb_types::prelude::*;
use ckb_types::utilities::{compact_to_difficulty, difficulty_to_compact};
use ckb_types::U256;
use ckb_verification_traits::Switch;
use ckbv::fixture::*;
use ckbv::util::*;
use serde_json::{json, Value};
use std::collections::HashMap;
use std::sync::Arc;

const W0_SHIFT: u32 = 160;

fn w0() -> U256 {
    U256::one() << W0_SHIFT
}

struct Ctx {
    c: ckb_chain_spec::consensus::Consensus,
    txs: Vec<TransactionView>,
    id_of: HashMap<ProposalShortId, u64>,
    n: Node,
    m: Node,
    main: Vec<BlockView>,
    level: u32,
    salt: u64,
    dir: std::path::PathBuf,
}

fn out(v: Value) {
    println!("{}", v);
}

fn tool_error(msg: &str) -> ! {
    out(json!({"tool_error": msg}));
    use std::io::Write;
    let _ = std::io::stdout().flush();
    std::process::exit(3);
}

fn feed(node: &Node, b: &BlockView, c: &ckb_chain_spec::consensus::Consensus) -> Result<bool, String> {
    if b.compact_target() == c.genesis_block().compact_target() {
        node.process(b)
    } else {
        node.chain
            .chain_controller()
            .blocking_process_block_with_switch(Arc::new(b.clone()), Switch::DISABLE_EPOCH)
            .map_err(|e| e.to_string())
    }
}

impl Ctx {
    fn ids(&self, v: &Value) -> Vec<ProposalShortId> {
        v.as_array().unwrap().iter().map(|i| self.txs[i.as_u64().unwrap() as usize - 1].proposal_short_id()).collect()
    }
    fn name(&self, id: &ProposalShortId) -> Value {
        match self.id_of.get(id) {
            Some(i) => json!(i),
            None => json!(format!("?{}", verif::hex(id.as_slice()))),
        }
    }
    fn names<'a>(&self, it: impl Iterator<Item = &'a ProposalShortId>) -> Value {
        let mut v: Vec<Value> = it.map(|i| self.name(i)).collect();
        v.sort_by_key(|x| x.to_string());
        Value::Array(v)
    }
    fn view(&self) -> (Value, Value, u64) {
        let s = self.n.shared.snapshot();
        (self.names(s.proposals().set().iter()), self.names(s.proposals().gap().iter()), s.tip_number())
    }
    /// the ids of a hook event field, as model ids
    fn event_ids(&self, e: &Value, field: &str) -> Value {
        let mut v: Vec<Value> = e[field]
            .as_array()
            .unwrap()
            .iter()
            .map(|h| {
                let hx = h.as_str().unwrap();
                self.id_of
                    .iter()
                    .find(|(k, _)| verif::hex(k.as_slice()) == hx)
                    .map(|(_, i)| json!(i))
                    .unwrap_or_else(|| json!(format!("?{hx}")))
            })
            .collect();
        v.sort_by_key(|x| x.to_string());
        Value::Array(v)
    }
    fn save_state(&self) {
        std::fs::write(self.dir.join("c20.state"), format!("{} {}", self.level, self.salt)).unwrap();
    }
    fn next_salt(&mut self) -> u64 {
        self.salt += 1;
        self.salt
    }
    /// an uncle for a block on top of `node`'s tip: a sibling of the tip block proposing `ids`
    fn uncle(&mut self, node_is_m: bool, ids: Vec<ProposalShortId>) -> UncleBlockView {
        let salt = self.next_salt();
        let node = if node_is_m { &self.m } else { &self.n };
        let th = node.shared.snapshot().tip_header().clone();
        if th.number() < 1 {
            tool_error("uncle requested for block 1");
        }
        let uh = th
            .as_advanced_builder()
            .timestamp(th.timestamp() + 1 + (salt % 1000))
            .nonce(salt as u128)
            .compact_target(self.c.genesis_block().compact_target())
            .build();
        BlockBuilder::default().header(uh).proposals(ids).build().as_uncle()
    }
    fn build(&mut self, on_m: bool, p: &Value, u: &Value) -> BlockView {
        let props = self.ids(p);
        let uids = self.ids(u);
        let uncles = if uids.is_empty() { vec![] } else { vec![self.uncle(on_m, uids)] };
        let nonce = self.next_salt();
        let node = if on_m { &self.m } else { &self.n };
        match assemble(node, &BlockSpec { proposals: props, uncles, nonce, ..Default::default() }) {
            Ok(b) => b,
            Err(e) => tool_error(&format!("assemble: {e}")),
        }
    }
    /// events of N since the last drain: the (single) tip-change event
    fn tip_event(&self, kind: &str) -> (usize, Option<Value>) {
        let evs: Vec<Value> = verif::drain().iter().filter_map(|l| serde_json::from_str::<Value>(l).ok()).collect();
        let mut hits: Vec<Value> = evs.into_iter().filter(|e| e["ev"] == kind).collect();
        let n = hits.len();
        (n, hits.pop())
    }
    fn observe(&self, step: usize, a: &str, res: Value, ev: (usize, Option<Value>)) {
        let (set, gap, tip) = self.view();
        let (nev, e) = ev;
        let (dropped, eset, egap) = match &e {
            Some(e) => (self.event_ids(e, "dropped"), self.event_ids(e, "set"), self.event_ids(e, "gap")),
            None => (Value::Null, Value::Null, Value::Null),
        };
        out(json!({"step": step, "a": a, "res": res, "len": tip, "set": set, "gap": gap, "tip_events": nev,
                   "dropped": dropped, "ev_set": eset, "ev_gap": egap,
                   "td": format!("{:x}", self.n.shared.snapshot().total_difficulty())}));
    }
    fn td(node: &Node) -> U256 {
        node.shared.snapshot().total_difficulty().clone()
    }

    fn extend(&mut self, step: usize, s: &Value) {
        let b = self.build(false, &s["p"], &s["u"]);
        verif::drain();
        let r = self.n.process(&b);
        let ev = self.tip_event("VerifyBest");
        self.observe(step, "Extend", json!(format!("{:?}", r)), ev);
        if r.is_ok() {
            if let Err(e) = feed(&self.m, &b, &self.c) {
                tool_error(&format!("mirror rejects an extension: {e}"));
            }
            self.main.push(b);
        }
    }

    fn hash_at(&self, k: usize) -> Byte32 {
        if k == 0 { self.c.genesis_hash() } else { self.main[k - 1].hash() }
    }

    fn truncate(&mut self, step: usize, k: usize) {
        verif::drain();
        let r = self.n.truncate_to(&self.hash_at(k));
        let ev = self.tip_event("Truncate");
        self.observe(step, "Truncate", json!(format!("{:?}", r)), ev);
        if let Err(e) = self.m.truncate_to(&self.hash_at(k)) {
            tool_error(&format!("mirror truncate: {e}"));
        }
        self.main.truncate(k);
    }

    fn reorg(&mut self, step: usize, k: usize, blocks: &[Value]) {
        if let Err(e) = self.m.truncate_to(&self.hash_at(k)) {
            tool_error(&format!("mirror truncate: {e}"));
        }
        self.level += 1;
        if 4 * self.level >= W0_SHIFT - 8 {
            tool_error("too many reorgs in one behaviour for the weight scheme");
        }
        let light = w0() >> (4 * self.level);
        let old_td = Self::td(&self.n);
        let mut branch = vec![];
        for (j, bs) in blocks.iter().enumerate() {
            let last = j + 1 == blocks.len();
            let b0 = self.build(true, &bs["p"], &bs["u"]);
            let parent_td = Self::td(&self.m);
            let mut want = if last { old_td.clone() - parent_td.clone() + w0() } else { light.clone() };
            let b = loop {
                let ct = difficulty_to_compact(want.clone());
                let b = b0.as_advanced_builder().compact_target(ct).build();
                let d = compact_to_difficulty(ct);
                if !last || parent_td.clone() + d > old_td {
                    break b;
                }
                want = want.clone() + want;
            };
            if !last && parent_td.clone() + b.header().difficulty() > old_td {
                tool_error("weight scheme: an inner block of the branch would already be heavier");
            }
            if let Err(e) = feed(&self.m, &b, &self.c) {
                tool_error(&format!("mirror rejects a branch block: {e}"));
            }
            branch.push(b);
        }
        verif::drain();
        let mut res = vec![];
        for b in &branch {
            res.push(format!("{:?}", feed(&self.n, b, &self.c)));
        }
        let ev = self.tip_event("VerifyBest");
        self.observe(step, "Reorg", json!(res), ev);
        self.main.truncate(k);
        self.main.extend(branch);
    }

    fn probes(&mut self, step: usize, nids: usize) {
        let tip = self.n.tip();
        for i in 1..=nids {
            let tx = self.txs[i - 1].clone();
            let nonce = self.next_salt();
            let b = match assemble(&self.n, &BlockSpec { commits: vec![tx], nonce, ..Default::default() }) {
                Ok(b) => b,
                Err(e) => tool_error(&format!("probe assemble: {e}")),
            };
            let r = self.n.process(&b);
            let accepted = r.is_ok();
            if accepted {
                if self.n.tip().1 != b.hash() {
                    tool_error("accepted probe block did not become the tip");
                }
                if let Err(e) = self.n.truncate_to(&tip.1) {
                    tool_error(&format!("probe truncate: {e}"));
                }
            }
            verif::drain();
            let (set, gap, len) = self.view();
            out(json!({"step": step, "probe": i, "accepted": accepted, "res": format!("{:?}", r), "len": len,
                       "set_after": set, "gap_after": gap}));
        }
    }
}

fn life(args: &[String]) {
    let dir = std::path::PathBuf::from(opt(args, "--dir").expect("--dir"));
    let beh: Value = serde_json::from_str(&std::fs::read_to_string(opt(args, "--beh").expect("--beh")).unwrap()).unwrap();
    let from = opt_u64(args, "--from", 0) as usize;
    let ft = ckb_systemtime::faketime();
    ft.set_faketime(GENESIS_TS + 100_000 * BLOCK_INTERVAL_MS);
    let nids = beh["ids"].as_u64().unwrap() as usize;
    let p = Params {
        window: (beh["wc"].as_u64().unwrap(), beh["wf"].as_u64().unwrap()),
        genesis_cells: nids.max(1),
        epoch_len: 1000,
        ..Default::default()
    };
    let c = consensus_with(&p, difficulty_to_compact(w0()));
    if compact_to_difficulty(c.genesis_block().compact_target()) != w0() {
        tool_error("W0 is not exactly representable");
    }
    let txs: Vec<TransactionView> =
        (0..nids).map(|i| spend(&c, &[genesis_cell(&c, i)], 50_000 * 100_000_000, 1, 1000, 0)).collect();
    let id_of = txs.iter().enumerate().map(|(i, t)| (t.proposal_short_id(), i as u64 + 1)).collect();
    verif::capture(true);
    let n = Node::start(&NodeCfg { assembler: false, ..NodeCfg::at(&c, &dir) });
    // the main chain as stored
    let mut main = vec![];
    {
        let s = n.shared.snapshot();
        for bn in 1..=s.tip_number() {
            let h = s.get_block_hash(bn).unwrap_or_else(|| tool_error("main chain index has a hole"));
            main.push(s.get_block(&h).unwrap_or_else(|| tool_error("main chain block missing")));
        }
    }
    let m = Node::start(&NodeCfg { assembler: false, ..NodeCfg::temp(&c) });
    for b in &main {
        if let Err(e) = feed(&m, b, &c) {
            tool_error(&format!("mirror rejects the stored main chain: {e}"));
        }
    }
    let (level, salt) = match std::fs::read_to_string(dir.join("c20.state")) {
        Ok(s) => {
            let v: Vec<u64> = s.split_whitespace().map(|x| x.parse().unwrap()).collect();
            (v[0] as u32, v[1])
        }
        Err(_) => (0, (beh["id"].as_u64().unwrap_or(0) + 1) * 1_000_000),
    };
    let mut x = Ctx { c, txs, id_of, n, m, main, level, salt, dir };
    let steps = beh["steps"].as_array().unwrap();
    let probes = beh["probes"].as_bool().unwrap_or(false);
    if from > 0 {
        // first observation of a new life: the view rebuilt from the store
        verif::drain();
        x.observe(from - 1, "Restart", Value::Null, (0, None));
        if probes {
            x.probes(from - 1, nids);
        }
    }
    let mut next: Value = Value::Null;
    for (i, s) in steps.iter().enumerate().skip(from) {
        match s["a"].as_str().unwrap() {
            "Extend" => x.extend(i, s),
            "Truncate" => x.truncate(i, s["k"].as_u64().unwrap() as usize),
            "Reorg" => x.reorg(i, s["k"].as_u64().unwrap() as usize, s["blocks"].as_array().unwrap()),
            "Restart" => {
                next = json!(i + 1);
                break;
            }
            a => tool_error(&format!("unknown action {a}")),
        }
        x.save_state();
        if probes {
            x.probes(i, nids);
        }
    }
    x.save_state();
    out(json!({"life": {"next": next}}));
    use std::io::Write;
    let _ = std::io::stdout().flush();
    std::process::exit(0);
}

fn main() {
    let args: Vec<String> = std::env::args().collect();
    match args.get(1).map(|s| s.as_str()) {
        Some("life") => life(&args),
        _ => {
            eprintln!("usage: c20 life --dir D --beh F [--from S]");
            std::process::exit(2);
        }
    }
}
