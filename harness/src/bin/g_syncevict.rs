//! Growth beyond the listed properties (attached to C17) — binding of SyncEvict.tla (the outbound-peer chain-sync
//! eviction rule) to the real code, without a network:
//!   * a real node (chain service, store) + real `SyncShared` + real `Synchronizer` (approach of g_headersync);
//!   * a chain of REAL blocks built by a builder node; our tip grows by handing the next block to the chain service,
//!     a peer announces a prefix of that chain as a `SendHeaders` wire message through `Synchronizer::received`
//!     (HeadersProcess, real HeaderVerifier) — that is what raises `best_known_header`;
//!   * peers connect through the protocol handler (`connected` -> on_connected -> Peers::sync_connected) with the
//!     session type / whitelist flag the network context reports for them; every session gets a fresh PeerIndex;
//!   * header sync is started by the handler's own timer event (`notify(SEND_GET_HEADERS_TOKEN)`);
//!   * one `Evict` step = one call of `Synchronizer::eviction`; the recording network context keeps the `disconnect`
//!     calls and the messages sent; the harness then plays the network's part and closes the disconnected sessions;
//!   * time is ckb_systemtime faketime; the node is out of IBD (tip one hour old at the start, the flag latches).
//! Every operation is logged with its arguments, its results and the complete projected per-peer state after it;
//! TLC validates the stream (Trace_SyncEvict.tla).
//!
//! `drive --seed S --first F --histories N --steps M`
use ckb_network::{
    async_trait, bytes::Bytes as NBytes, Behaviour, CKBProtocolContext, CKBProtocolHandler, Peer, PeerId, PeerIndex, ProtocolId, SessionType,
    TargetSession,
};
use ckb_sync::{SyncShared, Synchronizer};
use ckb_types::{core::BlockView, packed, prelude::*, U256};
use ckbv::fixture::{self, BlockSpec, Node, NodeCfg, Params};
use ckbv::util::{opt_u64, Rng};
use serde_json::{json, Value};
use std::collections::{BTreeMap, BTreeSet, HashMap};
use std::future::Future;
use std::io::Write;
use std::pin::Pin;
use std::sync::{Arc, Mutex};
use std::time::{Duration, Instant};

const CHAIN_LEN: u64 = 14;
const MAX_LIVE: usize = 9;
const SEND_GET_HEADERS_TOKEN: u64 = 0;
const T0: u64 = fixture::GENESIS_TS + 3_600_000;
/// logged instants are relative to BASE (so that 0 keeps meaning "no timer" and the numbers fit TLC's integers)
const BASE: u64 = T0 - 1_000;

fn emit(v: Value) {
    let out = std::io::stdout();
    let mut o = out.lock();
    let _ = writeln!(o, "{}", v);
}

// ------------------------------------------------------------------------------------------------ recording network
#[derive(Default)]
struct Dnc {
    peers: Mutex<HashMap<PeerIndex, Peer>>,
    sent: Mutex<Vec<(PeerIndex, NBytes)>>,
    disconnected: Mutex<Vec<u64>>,
    banned: Mutex<Vec<(u64, String)>>,
}
impl Dnc {
    fn add(&self, p: u64, outbound: bool, whitelist: bool) {
        let addr = format!("/ip4/127.0.0.1/tcp/42/p2p/{}", PeerId::random().to_base58()).parse().expect("multiaddr");
        let ty = if outbound { SessionType::Outbound } else { SessionType::Inbound };
        self.peers.lock().unwrap().insert(PeerIndex::new(p as usize), Peer::new(PeerIndex::new(p as usize), ty, addr, whitelist));
    }
    fn remove(&self, p: u64) {
        self.peers.lock().unwrap().remove(&PeerIndex::new(p as usize));
    }
}
type Task = Pin<Box<dyn Future<Output = ()> + 'static + Send>>;
#[async_trait]
impl CKBProtocolContext for Dnc {
    async fn set_notify(&self, _interval: Duration, _token: u64) -> Result<(), ckb_network::Error> {
        Ok(())
    }
    async fn remove_notify(&self, _token: u64) -> Result<(), ckb_network::Error> {
        Ok(())
    }
    async fn async_quick_send_message(&self, p: ProtocolId, peer: PeerIndex, data: NBytes) -> Result<(), ckb_network::Error> {
        self.send_message(p, peer, data)
    }
    async fn async_quick_send_message_to(&self, peer: PeerIndex, data: NBytes) -> Result<(), ckb_network::Error> {
        self.send_message_to(peer, data)
    }
    async fn async_quick_filter_broadcast(&self, _t: TargetSession, _d: NBytes) -> Result<(), ckb_network::Error> {
        Ok(())
    }
    async fn async_future_task(&self, _task: Task, _blocking: bool) -> Result<(), ckb_network::Error> {
        Ok(())
    }
    async fn async_send_message(&self, p: ProtocolId, peer: PeerIndex, data: NBytes) -> Result<(), ckb_network::Error> {
        self.send_message(p, peer, data)
    }
    async fn async_send_message_to(&self, peer: PeerIndex, data: NBytes) -> Result<(), ckb_network::Error> {
        self.send_message_to(peer, data)
    }
    async fn async_filter_broadcast(&self, _t: TargetSession, _d: NBytes) -> Result<(), ckb_network::Error> {
        Ok(())
    }
    async fn async_filter_broadcast_with_proto(&self, _p: ProtocolId, _t: TargetSession, _d: NBytes) -> Result<(), ckb_network::Error> {
        Ok(())
    }
    async fn async_quick_filter_broadcast_with_proto(&self, _p: ProtocolId, _t: TargetSession, _d: NBytes) -> Result<(), ckb_network::Error> {
        Ok(())
    }
    async fn async_disconnect(&self, peer: PeerIndex, msg: &str) -> Result<(), ckb_network::Error> {
        self.disconnect(peer, msg)
    }
    fn quick_send_message(&self, p: ProtocolId, peer: PeerIndex, data: NBytes) -> Result<(), ckb_network::Error> {
        self.send_message(p, peer, data)
    }
    fn quick_send_message_to(&self, peer: PeerIndex, data: NBytes) -> Result<(), ckb_network::Error> {
        self.send_message_to(peer, data)
    }
    fn quick_filter_broadcast(&self, _t: TargetSession, _d: NBytes) -> Result<(), ckb_network::Error> {
        Ok(())
    }
    fn quick_filter_broadcast_with_proto(&self, _p: ProtocolId, _t: TargetSession, _d: NBytes) -> Result<(), ckb_network::Error> {
        Ok(())
    }
    fn future_task(&self, _task: Task, _blocking: bool) -> Result<(), ckb_network::Error> {
        Ok(())
    }
    fn send_message(&self, _p: ProtocolId, peer: PeerIndex, data: NBytes) -> Result<(), ckb_network::Error> {
        self.sent.lock().unwrap().push((peer, data));
        Ok(())
    }
    fn send_message_to(&self, peer: PeerIndex, data: NBytes) -> Result<(), ckb_network::Error> {
        self.sent.lock().unwrap().push((peer, data));
        Ok(())
    }
    fn filter_broadcast(&self, _t: TargetSession, _d: NBytes) -> Result<(), ckb_network::Error> {
        Ok(())
    }
    fn disconnect(&self, peer: PeerIndex, _msg: &str) -> Result<(), ckb_network::Error> {
        self.disconnected.lock().unwrap().push(peer.value() as u64);
        Ok(())
    }
    fn get_peer(&self, peer: PeerIndex) -> Option<Peer> {
        self.peers.lock().unwrap().get(&peer).cloned()
    }
    fn with_peer_mut(&self, _peer: PeerIndex, _f: Box<dyn FnOnce(&mut Peer)>) {}
    fn connected_peers(&self) -> Vec<PeerIndex> {
        self.peers.lock().unwrap().keys().cloned().collect()
    }
    fn full_relay_connected_peers(&self) -> Vec<PeerIndex> {
        vec![]
    }
    fn report_peer(&self, _peer: PeerIndex, _b: Behaviour) {}
    fn ban_peer(&self, peer: PeerIndex, _d: Duration, reason: String) {
        self.banned.lock().unwrap().push((peer.value() as u64, reason));
    }
    fn protocol_id(&self) -> ProtocolId {
        ProtocolId::new(100)
    }
}

// ------------------------------------------------------------------------------------------------ the chain
struct Chain {
    blocks: Vec<BlockView>, // blocks[h - 1] = block of height h
    td: Vec<u64>,           // td[h] = total difficulty of height h (td[0]: genesis)
    hash_to_h: HashMap<packed::Byte32, u64>,
}
fn small(u: &U256) -> u64 {
    u.to_string().parse::<u64>().expect("total difficulty fits u64")
}
fn build_chain(c: &ckb_chain_spec::consensus::Consensus) -> Chain {
    let n = fixture::builder_node(c, &[]);
    let mut blocks = vec![];
    let mut td = vec![small(&c.genesis_block().difficulty())];
    let mut hash_to_h = HashMap::new();
    hash_to_h.insert(c.genesis_block().hash(), 0);
    for h in 1..=CHAIN_LEN {
        let b = fixture::assemble(&n, &BlockSpec { nonce: h, ..Default::default() }).expect("assemble");
        n.process(&b).expect("builder accepts its own block");
        td.push(td[(h - 1) as usize] + small(&b.difficulty()));
        hash_to_h.insert(b.hash(), h);
        blocks.push(b);
    }
    ckbv::poolfix::drop_bounded(n);
    Chain { blocks, td, hash_to_h }
}

// ------------------------------------------------------------------------------------------------ system under test
struct Sut<'a> {
    node: Node,
    sync: Synchronizer,
    shared: Arc<SyncShared>,
    nc: Arc<Dnc>,
    chain: &'a Chain,
    ft: &'a ckb_systemtime::FaketimeGuard,
    now: u64, // absolute ms
    next_sid: u64,
    /// (peer, first locator hash) -> real instant of the last getheaders seen: ActiveChain::send_getheaders_to_peer drops a
    /// request identical to one sent less than GET_HEADERS_TIMEOUT (15 s of REAL time, `Instant`) ago
    last_sent: Mutex<HashMap<(u64, String), Instant>>,
}

impl<'a> Sut<'a> {
    fn new(c: &ckb_chain_spec::consensus::Consensus, chain: &'a Chain, ft: &'a ckb_systemtime::FaketimeGuard) -> Sut<'a> {
        ft.set_faketime(T0);
        let (node, rx) = fixture::start_with_relay(&NodeCfg { assembler: false, ..NodeCfg::temp(c) });
        let shared = Arc::new(SyncShared::new(node.shared.clone(), Default::default(), rx));
        let sync = Synchronizer::new(node.chain.chain_controller().clone(), Arc::clone(&shared));
        Sut { node, sync, shared, nc: Arc::new(Dnc::default()), chain, ft, now: T0, next_sid: 1, last_sent: Mutex::new(HashMap::new()) }
    }
    fn ncd(&self) -> Arc<dyn CKBProtocolContext + Sync> {
        Arc::clone(&self.nc) as Arc<dyn CKBProtocolContext + Sync>
    }
    fn rel(&self, t: u64) -> u64 {
        if t == 0 { 0 } else { t.saturating_sub(BASE) }
    }
    fn live(&self) -> Vec<u64> {
        let mut v: Vec<u64> = self.shared.state().peers().state.iter().map(|kv| kv.key().value() as u64).collect();
        v.sort();
        v
    }
    /// the complete projected state: what SyncEvict.tla's variables are in the real structures
    fn peers_json(&self) -> Vec<Value> {
        let mut m: BTreeMap<u64, Value> = BTreeMap::new();
        for kv in self.shared.state().peers().state.iter() {
            let (p, s) = kv.pair();
            let bk = s.best_known_header.as_ref().map(|h| small(h.total_difficulty()) as i64).unwrap_or(-1);
            let work_td = s.chain_sync.total_difficulty.as_ref().map(|t| small(t) as i64).unwrap_or(-1);
            let work_id = s.chain_sync.work_header.as_ref().map(|h| h.number() as i64).unwrap_or(-1);
            let work_hash = s.chain_sync.work_header.as_ref().map(|h| format!("{:x}", h.hash())).unwrap_or_default();
            m.insert(
                p.value() as u64,
                json!({"p": p.value(), "out": s.peer_flags.is_outbound, "prot": s.peer_flags.is_protect, "wl": s.peer_flags.is_whitelist,
                       "bk": bk, "timeout": self.rel(s.chain_sync.timeout), "workTD": work_td, "workId": work_id, "sent": s.chain_sync.sent_getheaders,
                       "started": s.headers_sync_controller.is_some(), "work_hash": work_hash}),
            );
        }
        m.into_values().collect()
    }
    fn st(&self) -> Value {
        let ac = self.shared.active_chain();
        json!({"now": self.rel(self.now), "tipId": ac.tip_number(), "tipTD": small(ac.total_difficulty()), "peers": self.peers_json(),
               "ibd": ac.is_initial_block_download(), "n_protected": self.shared.state().peers().n_protected_outbound_peers.load(std::sync::atomic::Ordering::SeqCst)})
    }
    fn ev(&self, kind: &str, extra: Value) -> Value {
        let mut o = extra;
        o["ev"] = json!(kind);
        o["st"] = self.st();
        o
    }
    /// the messages a call spawned are delivered by tasks of the node's runtime: wait for the expected ones, then a
    /// short grace for unexpected ones
    fn drain_sent(&self, expect: &BTreeSet<u64>) -> Vec<(u64, String)> {
        let deadline = Instant::now() + Duration::from_secs(20);
        loop {
            let have: BTreeSet<u64> = self.nc.sent.lock().unwrap().iter().map(|(p, _)| p.value() as u64).collect();
            if expect.is_subset(&have) || Instant::now() > deadline {
                break;
            }
            std::thread::sleep(Duration::from_millis(1));
        }
        std::thread::sleep(Duration::from_millis(3));
        let msgs: Vec<(PeerIndex, NBytes)> = self.nc.sent.lock().unwrap().drain(..).collect();
        let mut res = vec![];
        for (p, data) in msgs {
            if let Ok(m) = packed::SyncMessage::from_slice(&data) {
                if let packed::SyncMessageUnion::GetHeaders(g) = m.to_enum() {
                    let first = g.block_locator_hashes().get(0).map(|h| format!("{:x}", h)).unwrap_or_default();
                    self.last_sent.lock().unwrap().insert((p.value() as u64, first.clone()), Instant::now());
                    res.push((p.value() as u64, first));
                    continue;
                }
            }
            res.push((p.value() as u64, "not-getheaders".to_string()));
        }
        res
    }

    fn connect(&mut self, outbound: bool, whitelist: bool) -> Value {
        let p = self.next_sid;
        self.next_sid += 1;
        self.nc.add(p, outbound, whitelist);
        let fut = self.sync.connected(self.ncd(), PeerIndex::new(p as usize), "3");
        self.node.shared.async_handle().block_on(fut);
        self.ev("Connect", json!({"p": p, "out": outbound, "wl": whitelist}))
    }
    fn disconnect(&mut self, p: u64) -> Value {
        let fut = self.sync.disconnected(self.ncd(), PeerIndex::new(p as usize));
        self.node.shared.async_handle().block_on(fut);
        self.nc.remove(p);
        self.ev("Disconnect", json!({"p": p}))
    }
    fn tick(&mut self, d: u64) -> Value {
        self.now += d;
        self.ft.set_faketime(self.now);
        self.ev("Tick", json!({"d": d}))
    }
    fn tip_grows(&mut self) -> Option<Value> {
        let h = self.shared.active_chain().tip_number();
        if h >= CHAIN_LEN {
            return None;
        }
        let before = small(self.shared.active_chain().total_difficulty());
        self.node.process(&self.chain.blocks[h as usize]).expect("the node accepts the next block of the chain");
        let deadline = Instant::now() + Duration::from_secs(30);
        while self.shared.active_chain().tip_number() != h + 1 && Instant::now() < deadline {
            std::thread::sleep(Duration::from_millis(1));
        }
        let after = small(self.shared.active_chain().total_difficulty());
        Some(self.ev("TipGrows", json!({"d": after - before, "h": h + 1})))
    }
    fn announce(&mut self, p: u64, h: u64) -> Value {
        let headers: Vec<packed::Header> = self.chain.blocks[..h as usize].iter().map(|b| b.header().data()).collect();
        let content = packed::SendHeaders::new_builder().headers(headers).build();
        let msg = packed::SyncMessage::new_builder().set(content).build();
        let fut = self.sync.received(self.ncd(), PeerIndex::new(p as usize), msg.as_bytes());
        self.node.shared.async_handle().block_on(fut);
        let banned = self.nc.banned.lock().unwrap().len();
        let extra = self.drain_sent(&BTreeSet::new());
        self.ev("Announce", json!({"p": p, "h": h, "td": self.chain.td[h as usize], "banned": banned, "msgs": extra.len()}))
    }
    fn started(&self) -> BTreeSet<u64> {
        self.shared.state().peers().state.iter().filter(|kv| kv.value().headers_sync_controller.is_some()).map(|kv| kv.key().value() as u64).collect()
    }
    fn start_sync(&mut self) -> Value {
        let before = self.started();
        let fut = self.sync.notify(self.ncd(), SEND_GET_HEADERS_TOKEN);
        self.node.shared.async_handle().block_on(fut);
        let after = self.started();
        let newly: BTreeSet<u64> = after.difference(&before).cloned().collect();
        let msgs = self.drain_sent(&newly);
        self.ev("StartSync", json!({"started": newly.iter().collect::<Vec<_>>(), "msgs": msgs.len()}))
    }
    fn evict(&mut self) -> Value {
        // pre-state: who is in the started state (the headers-sync controller may act on those), whose getheaders flag is down
        let mut pre_started = BTreeSet::new();
        let mut pre_unsent = BTreeSet::new();
        for kv in self.shared.state().peers().state.iter() {
            let p = kv.key().value() as u64;
            if kv.value().headers_sync_controller.is_some() {
                pre_started.insert(p);
            }
            if !kv.value().chain_sync.sent_getheaders {
                pre_unsent.insert(p);
            }
        }
        self.nc.sent.lock().unwrap().clear();
        self.nc.disconnected.lock().unwrap().clear();
        let nc = self.ncd();
        let t_call = Instant::now();
        self.sync.eviction(&nc);
        // post-state of the call (before the network closes the sessions)
        let mut work_hash: HashMap<u64, String> = HashMap::new();
        let mut flipped = BTreeSet::new();
        for kv in self.shared.state().peers().state.iter() {
            let p = kv.key().value() as u64;
            if let Some(w) = kv.value().chain_sync.work_header.as_ref() {
                work_hash.insert(p, format!("{:x}", w.hash()));
            }
            if kv.value().chain_sync.sent_getheaders && pre_unsent.contains(&p) {
                flipped.insert(p);
            }
        }
        // a request identical to one that went to the same peer less than 15 s of real time ago is dropped by the sender
        let recent: BTreeSet<u64> = flipped
            .iter()
            .filter(|p| {
                work_hash.get(*p).and_then(|w| self.last_sent.lock().unwrap().get(&(**p, w.clone())).cloned()).map(|t| t_call.saturating_duration_since(t) < Duration::from_secs(15)).unwrap_or(false)
            })
            .cloned()
            .collect();
        let msgs = self.drain_sent(&flipped.difference(&recent).cloned().collect());
        // a getheaders of the chain-sync rule: its locator starts at the peer's recorded work header.  For a peer in the
        // started state the headers-sync controller may have asked for the better tip (which can be the same header): such a
        // message counts for the rule only when the rule's flag went up in this call
        let mut gh = BTreeSet::new();
        let mut gh_other = vec![];
        let mut dup = vec![];
        for (p, first) in &msgs {
            let is_work = work_hash.get(p).map(|w| w == first).unwrap_or(false);
            if is_work && (!pre_started.contains(p) || flipped.contains(p)) {
                if !gh.insert(*p) {
                    dup.push(*p);
                }
            } else {
                gh_other.push(json!([p, self.chain.hash_to_h.get(&packed::Byte32::from_slice(&hex(first)).unwrap_or_default()).cloned()]));
            }
        }
        // the flag went up but no message: accepted only as the sender's duplicate filter at work (see `last_sent`)
        let suppressed: Vec<u64> = recent.iter().filter(|p| !gh.contains(p)).cloned().collect();
        let mut evicted: Vec<u64> = self.nc.disconnected.lock().unwrap().clone();
        let calls = evicted.len();
        evicted.sort();
        evicted.dedup();
        // the network closes the sessions it was asked to close
        for p in &evicted {
            let fut = self.sync.disconnected(self.ncd(), PeerIndex::new(*p as usize));
            self.node.shared.async_handle().block_on(fut);
            self.nc.remove(*p);
        }
        self.ev("Evict", json!({"gh": gh.iter().collect::<Vec<_>>(), "flipped": flipped.iter().collect::<Vec<_>>(), "evicted": evicted, "disconnect_calls": calls,
                                "gh_other": gh_other, "gh_dup": dup, "gh_suppressed": suppressed, "pre_started": pre_started.iter().collect::<Vec<_>>()}))
    }
}

fn hex(s: &str) -> Vec<u8> {
    (0..s.len() / 2).map(|i| u8::from_str_radix(&s[2 * i..2 * i + 2], 16).unwrap_or(0)).collect()
}

/// A finished node is leaked (joining its services takes seconds); the process leaves through `_exit`.
fn retire(sut: Sut) {
    let Sut { node, sync, shared, .. } = sut;
    std::mem::forget(sync);
    std::mem::forget(shared);
    std::mem::forget(node);
}

fn record(e: Value, tot: &mut BTreeMap<&'static str, u64>) {
    let k = match e["ev"].as_str().unwrap() {
        "Evict" => {
            *tot.entry("evicted").or_insert(0) += e["evicted"].as_array().unwrap().len() as u64;
            *tot.entry("getheaders").or_insert(0) += e["gh"].as_array().unwrap().len() as u64;
            "rounds"
        }
        "Connect" => "connects",
        "Announce" => "announces",
        _ => "others",
    };
    *tot.entry(k).or_insert(0) += 1;
    *tot.entry("events").or_insert(0) += 1;
    emit(e);
}

fn drive(args: &[String]) {
    let seed = opt_u64(args, "--seed", 1);
    let first = opt_u64(args, "--first", 0);
    let hist = opt_u64(args, "--histories", 1);
    let steps = opt_u64(args, "--steps", 120);
    let ft = ckb_systemtime::faketime();
    ft.set_faketime(T0);
    let c = fixture::consensus(&Params { genesis_cells: 2, ..Default::default() });
    let chain = build_chain(&c);
    let cst = ckb_constant::sync::CHAIN_SYNC_TIMEOUT;
    let ehrt = ckb_constant::sync::EVICTION_HEADERS_RESPONSE_TIME;
    let max_protect = ckb_constant::sync::MAX_OUTBOUND_PEERS_TO_PROTECT_FROM_DISCONNECT as u64;
    let ticks: [u64; 10] = [1, 1_000, 60_000, ehrt - 1, ehrt, ehrt + 1, 300_000, cst - 1, cst, cst + 1];
    let mut tot: BTreeMap<&'static str, u64> = BTreeMap::new();
    for h in first..first + hist {
        let mut rng = Rng::new(seed.wrapping_mul(7_000_003).wrapping_add(h));
        let mut sut = Sut::new(&c, &chain, &ft);
        // the history's style: how often peers answer, how eager rounds are
        let p_out = [1u64, 2, 3][rng.below(3) as usize]; // outbound with probability p_out/4 .. at least 1/4
        let lazy = rng.chance(1, 2); // peers rarely announce: timers run out
        for _ in 0..rng.below(4) {
            sut.tip_grows();
        }
        let ibd = sut.shared.active_chain().is_initial_block_download();
        emit(sut.ev("Reset", json!({"cst": cst, "ehrt": ehrt, "maxProtect": max_protect, "chain": CHAIN_LEN, "td": chain.td, "seed": seed, "history": h, "ibd0": ibd})));
        *tot.entry("events").or_insert(0) += 1;
        // some sessions are there from the start (more than MAX_OUTBOUND_PEERS_TO_PROTECT outbound ones: unprotected peers exist)
        for _ in 0..rng.range(3, MAX_LIVE as u64) {
            record(sut.connect(rng.chance(p_out + 1, 4), rng.chance(1, 6)), &mut tot);
        }
        let with_start = rng.chance(2, 3);
        for _ in 0..steps {
            let live = sut.live();
            let x = rng.below(100);
            let ev: Option<Value> = if x < 8 {
                if live.len() < MAX_LIVE { Some(sut.connect(rng.chance(p_out + 1, 4), rng.chance(1, 6))) } else { None }
            } else if x < 10 {
                if live.is_empty() { None } else { Some(sut.disconnect(live[rng.below(live.len() as u64) as usize])) }
            } else if x < 42 {
                Some(sut.tick(ticks[rng.below(ticks.len() as u64) as usize]))
            } else if x < 49 {
                sut.tip_grows()
            } else if x < (if lazy { 55 } else { 66 }) {
                if live.is_empty() {
                    None
                } else {
                    let p = live[rng.below(live.len() as u64) as usize];
                    let tip = sut.shared.active_chain().tip_number();
                    // mostly near our tip (behind / equal / ahead), sometimes anywhere
                    let hh = if rng.chance(3, 4) { (tip + rng.below(3)).saturating_sub(1).clamp(1, CHAIN_LEN) } else { rng.range(1, CHAIN_LEN) };
                    Some(sut.announce(p, hh))
                }
            } else if x < (if lazy { 57 } else { 68 }) {
                if live.is_empty() || !with_start { None } else { Some(sut.start_sync()) }
            } else {
                Some(sut.evict())
            };
            if let Some(e) = ev {
                record(e, &mut tot);
            }
        }
        *tot.entry("histories").or_insert(0) += 1;
        retire(sut);
    }
    emit(json!({"summary": tot}));
}

fn main() {
    let args: Vec<String> = std::env::args().skip(1).collect();
    match args.first().map(|s| s.as_str()).unwrap_or("") {
        "drive" => drive(&args),
        _ => {
            eprintln!("usage: g_syncevict drive --seed S --first F --histories N --steps M");
            std::process::exit(2);
        }
    }
    let _ = std::io::stdout().flush();
    // the leaked nodes' RocksDB threads are still running: leave without the C++ static destructors
    unsafe { libc::_exit(0) }
}
