//! C05 — binding of spec/ScriptChunk.tla and spec/VmScheduler.tla to ckb-script.
//!
//! `c05 jobs --in <jobs.ndjson>`: every line is one job on one program of the catalogue (`prog`):
//!   * `ref`      reference run: `verify(u64::MAX)`, per-group costs, (single group) the iteration profile
//!                obtained with the public `Scheduler::iterate()` (executed VM, per-VM states, cycle deltas);
//!   * `profile`  the exact suspension profile of a small program: `resumable_verify(L)` for every L in 0..=cost;
//!   * `chunks`   a chunk schedule: `resumable_verify` / `resume_from_state` with literal limits (`lim`),
//!                limits aimed at absolute cycle positions (`to`) or at iteration boundaries (`iter`+`off`),
//!                then a finisher: `resume_from_state(MAX)`, repeated steps, or `complete(state, max)`;
//!   * `verify`   `verify(max)`;
//!   * `signal`   `resumable_verify_with_signal(max)` under a seeded Suspend/Resume(/Stop) command script.
//! One ndjson record per job on stdout; the python side judges (checks/c05.py).
use ckb_async_runtime::tokio;
use ckb_chain_spec::consensus::{Consensus, ConsensusBuilder, TYPE_ID_CODE_HASH};
use ckb_script::types::FullSuspendedState;
use ckb_script::{ChunkCommand, ScriptGroupType, TransactionScriptsVerifier, TransactionState, TxVerifyEnv, VerifyResult, VmState};
use ckb_store::data_loader_wrapper::{AsDataLoader, DataLoaderWrapper};
use ckb_store::ChainDB;
use ckb_types::bytes::Bytes;
use ckb_types::core::cell::{CellMeta, CellMetaBuilder, ResolvedTransaction};
use ckb_types::core::hardfork::{CKB2021, CKB2023, HardForks};
use ckb_types::core::{Capacity, EpochNumberWithFraction, HeaderView, ScriptHashType, TransactionBuilder, TransactionInfo};
use ckb_types::packed::{Byte32, CellInput, CellOutput, OutPoint, Script};
use ckb_types::prelude::*;
use ckbv::util::{opt, Rng, Scratch};
use serde_json::{json, Value};
use std::io::Write;
use std::panic::{catch_unwind, AssertUnwindSafe};
use std::sync::Arc;

type Verifier = TransactionScriptsVerifier<DataLoaderWrapper<ChainDB>>;

struct Env {
    store: Arc<ChainDB>,
    consensus: Arc<Consensus>,
    tx_env: Arc<TxVerifyEnv>,
    _scratch: Scratch,
}

impl Env {
    fn new() -> Env {
        let scratch = Scratch::new("c05");
        let db = ckb_db::RocksDB::open_in(scratch.path(), ckb_db_schema::COLUMNS);
        let store = Arc::new(ChainDB::new(db, Default::default()));
        // as script/src/verify/tests/utils.rs: VM 1 from epoch 5, VM 2 from epoch 10; we verify at epoch 10,
        // so data / data1 / data2 hash types select VM versions 0 / 1 / 2
        let hardfork_switch = HardForks {
            ckb2021: CKB2021::new_mirana().as_builder().rfc_0032(5).build().unwrap(),
            ckb2023: CKB2023::new_mirana().as_builder().rfc_0049(10).build().unwrap(),
        };
        let consensus = Arc::new(ConsensusBuilder::default().hardfork_switch(hardfork_switch).build());
        let header = HeaderView::new_advanced_builder().epoch(EpochNumberWithFraction::new(10, 0, 1)).build();
        let tx_env = Arc::new(TxVerifyEnv::new_commit(&header));
        Env { store, consensus, tx_env, _scratch: scratch }
    }
    fn verifier(&self, rtx: &Arc<ResolvedTransaction>) -> Verifier {
        TransactionScriptsVerifier::new(Arc::clone(rtx), self.store.as_data_loader(), Arc::clone(&self.consensus), Arc::clone(&self.tx_env))
    }
}

// -------------------------------------------------------------------------------------------------
// program catalogue
// -------------------------------------------------------------------------------------------------

fn tx_info() -> TransactionInfo {
    TransactionInfo::new(1, EpochNumberWithFraction::new(0, 0, 1), Byte32::zero(), 1)
}
fn testdata(name: &str) -> Bytes {
    std::fs::read(format!("/repo/script/testdata/{}", name)).unwrap_or_else(|e| panic!("testdata {name}: {e}")).into()
}
fn dep_cell(data: &Bytes, n: u8) -> CellMeta {
    let out = CellOutput::new_builder().capacity(Capacity::bytes(data.len()).unwrap()).build();
    let mut h = [0u8; 32];
    h[0] = 0xd0;
    h[1] = n;
    CellMetaBuilder::from_cell_output(out, data.clone()).out_point(OutPoint::new(h.into(), 0)).transaction_info(tx_info()).build()
}
fn hash_type(v: u64) -> ScriptHashType {
    match v {
        0 => ScriptHashType::Data,
        1 => ScriptHashType::Data1,
        _ => ScriptHashType::Data2,
    }
}
fn script_of(data: &Bytes, args: &[u8], v: u64) -> Script {
    Script::new_builder().hash_type(hash_type(v)).code_hash(CellOutput::calc_data_hash(data)).args(Bytes::copy_from_slice(args)).build()
}

/// a transaction: one input per lock script (+ optional type script on the input), cell deps, witnesses
struct TxSpec {
    deps: Vec<Bytes>,
    inputs: Vec<(Script, Option<Script>)>,
    witnesses: Vec<Bytes>,
}
impl TxSpec {
    fn build(self) -> ResolvedTransaction {
        let deps: Vec<CellMeta> = self.deps.iter().enumerate().map(|(i, d)| dep_cell(d, i as u8)).collect();
        let mut tb = TransactionBuilder::default();
        let mut metas = vec![];
        for (i, (lock, ty)) in self.inputs.into_iter().enumerate() {
            let mut h = [0u8; 32];
            h[0] = 0x11;
            h[1] = i as u8;
            let op = OutPoint::new(h.into(), 0);
            tb = tb.input(CellInput::new(op.clone(), 0));
            let out = CellOutput::new_builder().capacity(Capacity::bytes(100).unwrap()).lock(lock).type_(ty).build();
            metas.push(CellMetaBuilder::from_cell_output(out, Bytes::new()).out_point(op).transaction_info(tx_info()).build());
        }
        for w in self.witnesses {
            tb = tb.witness(w);
        }
        ResolvedTransaction { transaction: tb.build(), resolved_cell_deps: deps, resolved_inputs: metas, resolved_dep_groups: vec![] }
    }
}

fn single(bin: &str, args: &[u8], v: u64, extra_deps: &[&str], witnesses: Vec<Bytes>) -> ResolvedTransaction {
    let data = testdata(bin);
    let mut deps = vec![data.clone()];
    for d in extra_deps {
        deps.push(testdata(d));
    }
    TxSpec { inputs: vec![(script_of(&data, args, v), None)], deps, witnesses }.build()
}

fn type_id_script(tag: u8) -> Script {
    Script::new_builder().code_hash(TYPE_ID_CODE_HASH).hash_type(ScriptHashType::Type).args(Bytes::from(vec![tag; 32])).build()
}

// ---- molecule encoding of script/testdata/spawn_dag.mol (tables / dynvecs / fixvecs by hand) ----
fn mol_table(fields: &[Vec<u8>]) -> Vec<u8> {
    let header = 4 + 4 * fields.len();
    let total = header + fields.iter().map(|f| f.len()).sum::<usize>();
    let mut v = (total as u32).to_le_bytes().to_vec();
    let mut off = header;
    for f in fields {
        v.extend((off as u32).to_le_bytes());
        off += f.len();
    }
    for f in fields {
        v.extend(f);
    }
    v
}
fn mol_fixvec(items: usize, body: Vec<u8>) -> Vec<u8> {
    let mut v = (items as u32).to_le_bytes().to_vec();
    v.extend(body);
    v
}
fn u64s(j: &Value) -> Vec<u64> {
    j.as_array().map(|a| a.iter().map(|x| x.as_u64().unwrap_or(0)).collect()).unwrap_or_default()
}
/// dag = {"spawns": [[from, child, [fd..]]..], "pipes": [[vm, rfd, wfd]..], "writes": [[from, from_fd, to, to_fd, len]..]}
fn dag_witness(dag: &Value) -> Bytes {
    let le = |x: u64| x.to_le_bytes().to_vec();
    let empty = vec![];
    let spawns: Vec<Vec<u8>> = dag["spawns"].as_array().unwrap_or(&empty).iter().map(|s| {
        let fds = u64s(&s[2]);
        mol_table(&[le(s[0].as_u64().unwrap()), le(s[1].as_u64().unwrap()), mol_fixvec(fds.len(), fds.iter().flat_map(|f| le(*f)).collect())])
    }).collect();
    let pipes: Vec<Vec<u8>> = dag["pipes"].as_array().unwrap_or(&empty).iter().map(|p| {
        let p = u64s(p);
        mol_table(&[le(p[0]), le(p[1]), le(p[2])])
    }).collect();
    let writes: Vec<Vec<u8>> = dag["writes"].as_array().unwrap_or(&empty).iter().enumerate().map(|(n, w)| {
        let w = u64s(w);
        let data: Vec<u8> = (0..w[4]).map(|i| (n as u64 * 31 + i * 7 + 1) as u8).collect();
        mol_table(&[le(w[0]), le(w[1]), le(w[2]), le(w[3]), mol_fixvec(data.len(), data)])
    }).collect();
    // a dynvec has the same layout as a table
    Bytes::from(mol_table(&[mol_table(&spawns), mol_table(&pipes), mol_table(&writes)]))
}

fn program(job: &Value) -> Result<ResolvedTransaction, String> {
    let name = job["prog"].as_str().ok_or("prog")?;
    let parts: Vec<&str> = name.split(':').collect();
    let num = |i: usize, d: u64| parts.get(i).and_then(|s| s.parse::<u64>().ok()).unwrap_or(d);
    let always = ckb_test_chain_utils::always_success_cell().1.clone();
    Ok(match parts[0] {
        // always_success at VM version parts[1]
        "as" => TxSpec { deps: vec![always.clone()], inputs: vec![(script_of(&always, &[], num(1, 0)), None)], witnesses: vec![] }.build(),
        // three script groups, three VM versions: two locks + one type script
        "as3" => TxSpec {
            deps: vec![always.clone()],
            inputs: vec![(script_of(&always, &[1], 0), Some(script_of(&always, &[3], 2))), (script_of(&always, &[2], 1), None)],
            witnesses: vec![],
        }.build(),
        // groups: always_success lock, spawn_cases lock (multi-VM), type-id system script, always_success type
        "mix" => {
            let cases = testdata("spawn_cases");
            TxSpec {
                deps: vec![cases.clone(), always.clone()],
                inputs: vec![
                    (script_of(&always, &[1], 1), Some(type_id_script(7))),
                    (script_of(&cases, &[num(1, 1) as u8], 2), Some(script_of(&always, &[9], 2))),
                ],
                witnesses: vec![],
            }.build()
        }
        // type-id system script alone behind an always_success lock
        "typeid" => TxSpec { deps: vec![always.clone()], inputs: vec![(script_of(&always, &[], 0), Some(type_id_script(5)))], witnesses: vec![] }.build(),
        // type-id system script, other paths: "create" (only an OUTPUT carries it; args = hash of the first input and the output
        // index), "badhash" (creation with other args: fails), "two" (two inputs carry it: fails), "args" (31-byte args: fails);
        // each next to an always_success lock group so that chunk limits below the type-id cost meet a second group
        "typeid_create" | "typeid_badhash" | "typeid_two" | "typeid_args" => {
            let mut rtx = TxSpec {
                deps: vec![always.clone()],
                inputs: if parts[0] == "typeid_two" {
                    vec![(script_of(&always, &[1], 0), Some(type_id_script(5))), (script_of(&always, &[2], 1), Some(type_id_script(5)))]
                } else {
                    vec![(script_of(&always, &[1], num(1, 0)), None)]
                },
                witnesses: vec![],
            }.build();
            if parts[0] != "typeid_two" {
                let first = rtx.transaction.inputs().get(0).unwrap();
                let mut h = ckb_hash::new_blake2b();
                h.update(first.as_slice());
                h.update(&0u64.to_le_bytes());
                let mut id = [0u8; 32];
                h.finalize(&mut id);
                let args: Vec<u8> = match parts[0] {
                    "typeid_create" => id.to_vec(),
                    "typeid_badhash" => vec![5u8; 32],
                    _ => id[..31].to_vec(),
                };
                let ty = Script::new_builder().code_hash(TYPE_ID_CODE_HASH).hash_type(ScriptHashType::Type).args(Bytes::from(args)).build();
                let out = CellOutput::new_builder().capacity(Capacity::bytes(100).unwrap()).lock(script_of(&always, &[1], 0)).type_(Some(ty)).build();
                rtx.transaction = rtx.transaction.as_advanced_builder().output(out).output_data(Bytes::new()).build();
            }
            rtx
        }
        "fail" => single("always_failure", &[], num(1, 0), &[], vec![]),
        "cases" => single("spawn_cases", &[num(1, 1) as u8], 2, &[], vec![]),
        "strcat" => single("spawn_caller_strcat", &[], 2, &["spawn_callee_strcat"], vec![]),
        "strcat_wrap" => single("spawn_caller_strcat_wrap", &[], 2, &["spawn_caller_strcat", "spawn_callee_strcat"], vec![]),
        "spawn_exec" => single("spawn_caller_exec", &[], 2, &["spawn_callee_exec_caller", "spawn_callee_exec_callee"], vec![]),
        "current_cycles" => single("spawn_caller_current_cycles", &[], 2, &["spawn_callee_current_cycles"], vec![]),
        "spawn_cycles" => single("spawn_cycles", &[], 2, &["spawn_cycles"], vec![]),
        "spawn_times" => single("spawn_times", &[], 2, &[], vec![]),
        "recursive" => single("spawn_recursive", &[], 2, &[], vec![]),
        "create17" => single("spawn_create_17_spawn", &[], 2, &[], vec![]),
        "saturate" => single("spawn_saturate_memory", &[0], 2, &[], vec![]),
        "io" => {
            let mut args = vec![0u8; 16];
            args[..8].copy_from_slice(&num(1, 128).to_le_bytes());
            args[8] = num(2, 1) as u8;
            single("spawn_io_cycles", &args, 2, &[], vec![])
        }
        "exec" => single("exec_caller_from_cell_data", &[], num(1, 2), &["exec_callee"], vec![]),
        "exec_witness" => single("exec_caller_from_witness", &[], num(1, 2), &[], vec![testdata("exec_callee")]),
        // dlopen-style: load_cell_data_as_code maps is_even.lib (found by data hash) and calls into it; args = number ++ data hash
        // (load_is_even_with_snapshot needs the test-only DEBUG_PAUSE syscall: InvalidEcall(2178) outside the crate's own tests;
        // load_is_even_into_global fails at VM version 0 with MemWriteOnFreezedPage - a deterministic failure, kept as such)
        "load_even" | "load_even_global" => {
            let lib = testdata("is_even.lib");
            let mut args = 1u64.to_le_bytes().to_vec();
            args.extend_from_slice(CellOutput::calc_data_hash(&lib).as_slice());
            single(if parts[0] == "load_even" { "load_is_even_with_snapshot" } else { "load_is_even_into_global" }, &args, num(1, 1), &["is_even.lib"], vec![])
        }
        "cpop" => single("cpop_lock", &[], num(1, 1), &[], vec![]),
        "dag" => single("spawn_dag", &[], 2, &[], vec![dag_witness(&job["dag"])]),
        "fuzzing" => {
            // spawn_fuzzing reads its command stream from the witness
            let n = num(1, 1);
            let mut r = Rng::new(n);
            let len = 16 + r.below(200) as usize;
            let w: Vec<u8> = (0..len).map(|_| r.below(256) as u8).collect();
            single("spawn_fuzzing", &[], 2, &[], vec![Bytes::from(w)])
        }
        other => return Err(format!("unknown program {other}")),
    })
}

// -------------------------------------------------------------------------------------------------
// observations
// -------------------------------------------------------------------------------------------------

fn err_class(e: &str) -> String {
    let source = e.find("source: ").map(|i| e[i + 8..].split(',').next().unwrap_or("").to_string()).unwrap_or_default();
    if e.contains("ExceededMaximumCycles") {
        "exceeded".to_string()
    } else if e.contains("deadlock") {
        format!("deadlock:{source}")
    } else if e.contains("Interrupts") {
        "interrupts".to_string()
    } else if let Some(i) = e.find("see error code ") {
        let code: String = e[i + 15..].chars().take_while(|c| *c == '-' || c.is_ascii_digit()).collect();
        format!("exit:{source}:{code}")
    } else if e.starts_with("PANIC") {
        e.chars().take(120).collect()
    } else {
        // VM internal errors and the rest: the (deterministic) message without the trailing braces
        let cause = e.find("cause: ").map(|i| &e[i + 7..]).unwrap_or(e);
        format!("error:{source}:{}", cause.trim_end_matches(|c| c == ' ' || c == '}' || c == ')').chars().take(100).collect::<String>())
    }
}
fn res_json(r: Result<u64, String>) -> Value {
    match r {
        Ok(c) => json!({"kind": "ok", "cycles": c}),
        Err(e) => json!({"kind": "err", "class": err_class(&e), "msg": e.chars().take(200).collect::<String>()}),
    }
}
fn vmstate(s: &VmState) -> String {
    match s {
        VmState::Runnable => "run".into(),
        VmState::Terminated => "term".into(),
        VmState::Wait { target_vm_id, .. } => format!("wait{}", target_vm_id),
        VmState::WaitForWrite(w) => format!("write{}:{}/{}", w.fd.0, w.consumed, w.length),
        VmState::WaitForRead(r) => format!("read{}:{}", r.fd.0, r.length),
    }
}
fn full_json(f: &FullSuspendedState) -> Value {
    json!({"total": f.total_cycles, "iter": f.iteration_cycles, "next_vm": f.next_vm_id, "next_fd": f.next_fd_slot,
           "vms": f.vms.iter().map(|(id, s, _)| json!([id, vmstate(s)])).collect::<Vec<_>>(),
           "inst": f.instantiated_ids, "fds": f.fds.iter().map(|(fd, vm)| json!([fd.0, vm])).collect::<Vec<_>>(),
           "terminated": f.terminated_vms.iter().map(|(id, c)| json!([id, c])).collect::<Vec<_>>()})
}
fn state_json(s: &TransactionState, detail: bool) -> Value {
    let g = s.state.as_ref().map(|f| f.total_cycles).unwrap_or(0);
    let mut v = json!({"cur": s.current + 1, "done": s.current_cycles, "gcons": g, "pos": s.current_cycles + g, "snap": s.state.is_some()});
    if detail {
        if let Some(f) = &s.state {
            v["full"] = full_json(f);
        }
    }
    v
}

fn guarded<T>(f: impl FnOnce() -> Result<T, String>) -> Result<T, String> {
    match catch_unwind(AssertUnwindSafe(f)) {
        Ok(r) => r,
        Err(p) => {
            let msg = p.downcast_ref::<String>().cloned().or_else(|| p.downcast_ref::<&str>().map(|s| s.to_string())).unwrap_or_default();
            Err(format!("PANIC: {}", msg))
        }
    }
}

struct Reference {
    result: Result<u64, String>,
    groups: Vec<Value>,
    /// cumulative consumed cycles after each iteration (single-group programs only)
    bounds: Vec<u64>,
    iters: Vec<Value>,
}

fn reference(v: &Verifier, want_iters: bool) -> Reference {
    let result = guarded(|| v.verify(u64::MAX).map_err(|e| e.to_string()));
    let mut groups = vec![];
    let gl: Vec<(ScriptGroupType, Byte32)> = v.groups_with_type().map(|(t, h, _)| (t, h.clone())).collect();
    let single = gl.len() == 1;
    let (mut bounds, mut iters) = (vec![], vec![]);
    for (t, h) in &gl {
        let r = guarded(|| v.verify_single(*t, h, u64::MAX).map_err(|e| e.to_string()));
        let mut g = res_json(r.clone());
        g["type"] = json!(format!("{:?}", t));
        // cycles consumed when the verdict of this group is known (= cost when it passes): drive the group's
        // scheduler with the public Scheduler::iterate()
        let group = v.find_script_group(*t, h).unwrap();
        let is_type_id = group.script.code_hash() == TYPE_ID_CODE_HASH.into() && group.script.hash_type() == ScriptHashType::Type.into();
        if is_type_id {
            // the built-in script charges its fixed cost BEFORE it looks at the transaction (`max_cycles < TYPE_ID_CYCLES` is
            // its first test): the verdict of the group - pass or fail - is known only once that many cycles are granted
            g["need"] = json!(1_000_000u64);
            groups.push(g);
            continue;
        }
        let rr = guarded(|| {
            let mut sch = v.create_scheduler(group).map_err(|e| e.to_string())?;
            let mut last = 0u64;
            for n in 0..50000 {
                let it = sch.iterate();
                let c = sch.consumed_cycles();
                match it {
                    Ok(it) => {
                        if single && want_iters {
                            let states: Vec<Value> = (0..40u64).filter_map(|id| sch.state(&id).map(|s| json!([id, vmstate(&s)]))).collect();
                            iters.push(json!({"n": n, "vm": it.executed_vm, "delta": c - last, "at": c, "states": states,
                                              "end": it.terminated_status.as_ref().map(|t| json!({"exit": t.exit_code, "cycles": t.consumed_cycles}))}));
                            bounds.push(c);
                        }
                        last = c;
                        if it.terminated_status.is_some() {
                            return Ok(c);
                        }
                    }
                    Err(e) => {
                        if single && want_iters {
                            iters.push(json!({"n": n, "error": err_class(&format!("{:?}", e)), "at": c}));
                        }
                        return Ok(c);
                    }
                }
            }
            Err("no verdict after 50000 iterations".to_string())
        });
        match rr {
            Ok(c) => g["need"] = json!(c),
            Err(e) => g["need_error"] = json!(e),
        }
        groups.push(g);
    }
    Reference { result, groups, bounds, iters }
}

enum Step {
    Done(u64),
    Susp(TransactionState),
    Fail(String),
}
fn chunk(v: &Verifier, st: &Option<TransactionState>, limit: u64) -> Step {
    let r = guarded(|| match st {
        None => v.resumable_verify(limit).map_err(|e| e.to_string()),
        Some(s) => v.resume_from_state(s, limit).map_err(|e| e.to_string()),
    });
    match r {
        Ok(VerifyResult::Completed(c)) => Step::Done(c),
        Ok(VerifyResult::Suspended(s)) => Step::Susp(s),
        Err(e) => Step::Fail(e),
    }
}

/// `chunks` job: {"sched": [{"lim": L} | {"to": P} | {"iter": k, "off": o}], "fin": {"kind": "max"|"step"|"complete"|"none", ..}}
fn run_chunks(v: &Verifier, job: &Value, rf: &Reference) -> Value {
    let detail = job["detail"].as_bool().unwrap_or(false);
    let cap = job["cap"].as_u64().unwrap_or(400);
    let mut st: Option<TransactionState> = None;
    let mut chunks = vec![];
    let mut fin: Option<Value> = None;
    let pos_of = |st: &Option<TransactionState>| st.as_ref().map(|s| s.current_cycles + s.state.as_ref().map(|f| f.total_cycles).unwrap_or(0)).unwrap_or(0);
    let one = |st: &mut Option<TransactionState>, limit: u64, chunks: &mut Vec<Value>| -> Option<Value> {
        match chunk(v, st, limit) {
            Step::Done(c) => {
                chunks.push(json!({"lim": limit, "res": "done", "cycles": c}));
                Some(json!({"kind": "ok", "cycles": c}))
            }
            Step::Fail(e) => {
                chunks.push(json!({"lim": limit, "res": "err", "class": err_class(&e)}));
                Some(res_json(Err(e)))
            }
            Step::Susp(s) => {
                let mut c = state_json(&s, detail);
                c["lim"] = json!(limit);
                c["res"] = json!("susp");
                chunks.push(c);
                *st = Some(s);
                None
            }
        }
    };
    let empty = vec![];
    for cut in job["sched"].as_array().unwrap_or(&empty) {
        let pos = pos_of(&st);
        let limit = if let Some(l) = cut["lim"].as_u64() {
            l
        } else {
            let target = if let Some(p) = cut["to"].as_u64() {
                p
            } else {
                let k = cut["iter"].as_u64().unwrap_or(0) as usize;
                let base = if k == 0 { 0 } else { rf.bounds.get(k - 1).copied().unwrap_or(0) };
                (base as i64 + cut["off"].as_i64().unwrap_or(0)).max(0) as u64
            };
            if target <= pos {
                continue; // the previous chunk already went beyond this cut point
            }
            target - pos
        };
        fin = one(&mut st, limit, &mut chunks);
        if fin.is_some() {
            break;
        }
    }
    let mut finisher = Value::Null;
    if fin.is_none() {
        let f = &job["fin"];
        match f["kind"].as_str().unwrap_or("max") {
            "none" => {}
            "step" => {
                let l = f["lim"].as_u64().unwrap_or(1000);
                let mut n = 0;
                let mut stuck = 0;
                while fin.is_none() {
                    let before = pos_of(&st);
                    fin = one(&mut st, l, &mut chunks);
                    n += 1;
                    stuck = if pos_of(&st) == before { stuck + 1 } else { 0 };
                    if fin.is_none() && (n >= cap || stuck >= 3) {
                        fin = Some(json!({"kind": "capped", "stuck": stuck >= 3, "pos": pos_of(&st)}));
                    }
                }
            }
            "complete" => {
                // budget relative to the reference cost, or absolute
                let max = match (f["max"].as_u64(), f["rel"].as_i64(), &rf.result) {
                    (Some(m), _, _) => m,
                    (None, Some(d), Ok(c)) => (*c as i64 + d).max(0) as u64,
                    _ => u64::MAX,
                };
                finisher = json!({"complete": max});
                fin = Some(match &st {
                    Some(s) => res_json(guarded(|| v.complete(s, max).map_err(|e| e.to_string()))),
                    None => res_json(guarded(|| v.verify(max).map_err(|e| e.to_string()))),
                });
            }
            _ => {
                // resume with an unlimited chunk; a few rounds because Pause-style suspensions may repeat
                let mut n = 0;
                while fin.is_none() {
                    fin = one(&mut st, u64::MAX, &mut chunks);
                    n += 1;
                    if fin.is_none() && n >= cap {
                        fin = Some(json!({"kind": "capped", "stuck": false, "pos": pos_of(&st)}));
                    }
                }
            }
        }
    }
    json!({"chunks": chunks, "final": fin, "finisher": finisher})
}

/// exact suspension profile: the position reached by a fresh `resumable_verify(L)` is a monotone step function
/// of L; all its steps in 0..=cost are located by bisection (`first` = smallest limit reaching the position)
fn run_profile(v: &Verifier, rf: &Reference, max_runs: u64) -> Value {
    let cost = match &rf.result {
        Ok(c) => *c,
        Err(_) => return json!({"error": "reference failed"}),
    };
    type P = (u64, u64, u64);
    let runs = std::cell::Cell::new(0u64);
    let at = |l: u64| -> Result<P, String> {
        runs.set(runs.get() + 1);
        match chunk(v, &None, l) {
            Step::Done(c) => Ok((0, c, 0)),
            Step::Susp(s) => Ok((s.current as u64 + 1, s.current_cycles, s.state.as_ref().map(|f| f.total_cycles).unwrap_or(0))),
            Step::Fail(e) => Err(e),
        }
    };
    let f0 = match at(0) { Ok(p) => p, Err(e) => return json!({"error": e, "at": 0}) };
    let fc = match at(cost) { Ok(p) => p, Err(e) => return json!({"error": e, "at": cost}) };
    let mut pts: Vec<(u64, P)> = vec![(0, f0)];
    // explicit stack of intervals (lo, f(lo), hi, f(hi)), left first
    let mut stack = vec![(0u64, f0, cost, fc)];
    while let Some((lo, flo, hi, fhi)) = stack.pop() {
        if flo == fhi {
            continue;
        }
        if hi == lo + 1 {
            pts.push((hi, fhi));
            continue;
        }
        if runs.get() > max_runs {
            return json!({"error": "too many runs", "runs": runs.get()});
        }
        let mid = lo + (hi - lo) / 2;
        let fm = match at(mid) { Ok(p) => p, Err(e) => return json!({"error": e, "at": mid}) };
        stack.push((mid, fm, hi, fhi));
        stack.push((lo, flo, mid, fm));
    }
    pts.sort();
    json!({"points": pts.iter().map(|(l, p)| json!({"first": l, "cur": p.0, "done": p.1, "gcons": p.2})).collect::<Vec<_>>(), "cost": cost, "runs": runs.get()})
}

fn run_signal(v: Verifier, job: &Value, rf: &Reference) -> Value {
    let max = match (job["max"].as_u64(), job["rel"].as_i64(), &rf.result) {
        (Some(m), _, _) => m,
        (None, Some(d), Ok(c)) => (*c as i64 + d).max(0) as u64,
        _ => u64::MAX,
    };
    let seed = job["seed"].as_u64().unwrap_or(1);
    let n_cmds = job["cmds"].as_u64().unwrap_or(6);
    let gap_us = job["gap_us"].as_u64().unwrap_or(300);
    let stop = job["stop"].as_bool().unwrap_or(false);
    let rt = tokio::runtime::Builder::new_multi_thread().worker_threads(3).enable_all().build().unwrap();
    let r = guarded(|| {
        rt.block_on(async move {
            let (tx, mut rx) = tokio::sync::watch::channel(ChunkCommand::Resume);
            let mut rng = Rng::new(seed);
            let sent = Arc::new(std::sync::atomic::AtomicU64::new(0));
            let sent2 = Arc::clone(&sent);
            let driver = tokio::spawn(async move {
                // Suspend / Resume pairs at seeded instants; always ends resumed (or with Stop)
                for i in 0..n_cmds {
                    tokio::time::sleep(std::time::Duration::from_micros(rng.range(gap_us / 4, gap_us))).await;
                    if tx.send(ChunkCommand::Suspend).is_err() {
                        return;
                    }
                    sent2.fetch_add(1, std::sync::atomic::Ordering::SeqCst);
                    tokio::time::sleep(std::time::Duration::from_micros(rng.range(gap_us / 4, gap_us))).await;
                    if stop && i + 1 == n_cmds {
                        let _ = tx.send(ChunkCommand::Stop);
                        break;
                    }
                    if tx.send(ChunkCommand::Resume).is_err() {
                        return;
                    }
                }
                // keep the sender alive until the verifier is done
                tx.closed().await;
            });
            let res = v.resumable_verify_with_signal(max, &mut rx).await.map_err(|e| e.to_string());
            drop(rx);
            let _ = driver.await;
            Ok((res, sent.load(std::sync::atomic::Ordering::SeqCst)))
        })
    });
    match r {
        Ok((res, sent)) => {
            let mut j = res_json(res);
            j["suspends_sent"] = json!(sent);
            j["max"] = json!(max);
            j
        }
        Err(e) => res_json(Err(e)),
    }
}

fn jobs(args: &[String]) {
    let input = opt(args, "--in").expect("--in");
    let text = std::fs::read_to_string(input).expect("read jobs");
    let env = Env::new();
    let out = std::io::stdout();
    let mut n = 0u64;
    // reference results are cached per program *within this process only*
    let mut cache: std::collections::HashMap<String, (Arc<ResolvedTransaction>, Arc<Reference>)> = Default::default();
    for line in text.lines() {
        if line.trim().is_empty() {
            continue;
        }
        let job: Value = serde_json::from_str(line).expect("job json");
        n += 1;
        let key = format!("{}|{}", job["prog"], job["dag"]);
        let mode = job["mode"].as_str().unwrap_or("ref").to_string();
        let entry = match cache.get(&key) {
            Some(e) => Ok(e.clone()),
            None => program(&job).map(|rtx| {
                let rtx = Arc::new(rtx);
                let v = env.verifier(&rtx);
                let rf = Arc::new(reference(&v, true));
                cache.insert(key.clone(), (Arc::clone(&rtx), Arc::clone(&rf)));
                (rtx, rf)
            }),
        };
        let mut rec = json!({"id": job["id"], "prog": job["prog"], "mode": mode});
        match entry {
            Err(e) => rec["error"] = json!(e),
            Ok((rtx, rf)) => {
                let v = env.verifier(&rtx);
                rec["ref"] = res_json(rf.result.clone());
                rec["ngroups"] = json!(rf.groups.len());
                match mode.as_str() {
                    "ref" => {
                        rec["groups"] = json!(rf.groups);
                        rec["bounds"] = json!(rf.bounds);
                        if job["iters"].as_bool().unwrap_or(false) {
                            rec["iters"] = json!(rf.iters);
                        }
                    }
                    "profile" => rec["profile"] = run_profile(&v, &rf, job["max_runs"].as_u64().unwrap_or(20000)),
                    "chunks" => {
                        let r = run_chunks(&v, &job, &rf);
                        rec["chunks"] = r["chunks"].clone();
                        rec["final"] = r["final"].clone();
                        rec["finisher"] = r["finisher"].clone();
                    }
                    "verify" => {
                        let max = match (job["max"].as_u64(), job["rel"].as_i64(), &rf.result) {
                            (Some(m), _, _) => m,
                            (None, Some(d), Ok(c)) => (*c as i64 + d).max(0) as u64,
                            _ => u64::MAX,
                        };
                        rec["max"] = json!(max);
                        rec["final"] = res_json(guarded(|| v.verify(max).map_err(|e| e.to_string())));
                    }
                    "signal" => rec["final"] = run_signal(v, &job, &rf),
                    // white-box probe: snapshot a scheduler AFTER its root VM has terminated, resume it and ask again
                    "termsnap" => {
                        let (_, _, group) = v.groups_with_type().next().unwrap();
                        let r = guarded(|| {
                            let mut sch = v.create_scheduler(group).map_err(|e| e.to_string())?;
                            let first = sch.run(ckb_script::RunMode::LimitCycles(u64::MAX)).map_err(|e| format!("{:?}", e))?;
                            let full = sch.suspend().map_err(|e| format!("{:?}", e))?;
                            let mut sch2 = v.resume_scheduler(group, &full).map_err(|e| e.to_string())?;
                            let second = sch2.run(ckb_script::RunMode::LimitCycles(u64::MAX)).map_err(|e| format!("{:?}", e))?;
                            Ok(json!({"before": {"exit": first.exit_code, "cycles": first.consumed_cycles},
                                      "after": {"exit": second.exit_code, "cycles": second.consumed_cycles}}))
                        });
                        rec["termsnap"] = match r { Ok(v) => v, Err(e) => json!({"error": e}) };
                    }
                    other => rec["error"] = json!(format!("unknown mode {other}")),
                }
            }
        }
        let mut o = out.lock();
        let _ = writeln!(o, "{}", rec);
    }
    println!("{}", json!({"summary": {"jobs": n}}));
}

fn main() {
    // panics inside the code under test are data; keep stderr quiet
    std::panic::set_hook(Box::new(|_| {}));
    let args: Vec<String> = std::env::args().collect();
    let rest = &args[2.min(args.len())..];
    match args.get(1).map(|s| s.as_str()) {
        Some("jobs") => jobs(rest),
        _ => {
            eprintln!("usage: c05 jobs --in <jobs.ndjson>");
            std::process::exit(2);
        }
    }
    let _ = std::io::stdout().flush();
    std::process::exit(0);
}
