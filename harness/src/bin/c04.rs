//! C04 — binding of spec/TxRules.tla to transaction verification (in a block and in the pool).
//!
//! `c04 run --in <ctxs.ndjson> --only i`: the ledger context exported by TLC (MC_TxRules, EmitCtx) is rebuilt block by
//! block on real nodes.  At every prefix every probe transaction of the catalogue is judged three ways:
//!   * inside a block on top of the prefix, through HeaderVerifier + chain service (all verifiers on except the
//!     two-phase-commit window, which is C03's: a probe has to be committable at ANY position),
//!   * `tx_pool_controller().test_accept_tx`,
//!   * `tx_pool_controller().submit_local_tx` (removed again afterwards),
//! on a node that reached the context by the straight chain (S) and on a node that reached it through detours
//! (side branches that spent the probes' cells and were reorganised away) (D).  Observations are printed as ndjson;
//! the python side compares them with the verdicts the SPEC assigned and S with D (ContextOnly).
use ckb_app_config::TxPoolConfig;
use ckb_types::core::{
    BlockView, Capacity, DepType, EpochNumberWithFraction, FeeRate, ScriptHashType, TransactionBuilder, TransactionView,
};
use ckb_types::packed::{self, Byte32, CellDep, CellInput, CellOutput, OutPoint, Script};
use ckb_types::prelude::*;
use ckb_types::bytes::Bytes;
use ckb_verification_traits::Switch;
use ckbv::fixture::*;
use ckbv::util::{opt, opt_u64};
use serde::Deserialize;
use serde_json::json;
use std::collections::HashMap;
use std::io::Write;
use std::sync::Arc;

const CKB: u64 = 100_000_000;

#[derive(Deserialize, Clone, Debug)]
struct AParams {
    #[serde(rename = "L")]
    l: u64,
    wclose: u64,
    wfar: u64,
    #[serde(rename = "K")]
    k: usize,
    maturity: u64,
    maxcycles: u64,
    groupcycles: u64,
    rfc0028: bool,
}
#[derive(Deserialize, Clone, Debug)]
struct ASince {
    m: String,
    rel: bool,
    resv: bool,
    v: (u64, u64, u64),
}
#[derive(Deserialize, Clone, Debug)]
struct AIn {
    c: String,
    since: ASince,
}
#[derive(Deserialize, Clone, Debug)]
struct ADep {
    c: String,
    grp: bool,
}
#[derive(Deserialize, Clone, Debug)]
struct AHdep {
    k: String,
    h: u64,
}
#[derive(Deserialize, Clone, Debug)]
struct ATx {
    ins: Vec<AIn>,
    deps: Vec<ADep>,
    hdeps: Vec<AHdep>,
    sum: String,
    occ: String,
    /// type script of the first output: "none" | "ok" | "fail" | "loop"
    #[serde(default)]
    otype: String,
}
#[derive(Deserialize, Clone, Debug)]
struct AProbe {
    fam: String,
    lab: String,
    pre: String,
    tx: ATx,
    bv: String,
    pv: String,
}
#[derive(Deserialize, Clone, Debug)]
struct ASched {
    name: String,
    h: u64,
}
#[derive(Deserialize, Clone, Debug)]
struct ACtx {
    params: AParams,
    ts: Vec<u64>,
    sched: Vec<ASched>,
    probes: Vec<Vec<AProbe>>,
    #[serde(default)]
    staged: Vec<AStaged>,
}
/// a probe whose id the chain proposes before it is submitted: pool stage "gap" / "proposed"
#[derive(Deserialize, Clone, Debug)]
struct AStaged {
    stage: String,
    tx: ATx,
}

#[derive(Clone)]
struct CellInfo {
    op: OutPoint,
    cap: u64,
}

struct World {
    consensus: ckb_chain_spec::consensus::Consensus,
    cells: HashMap<String, CellInfo>,
    palette: HashMap<String, TransactionView>,
    helper_e: TransactionView,
    detour_z: TransactionView,
    chain: Vec<BlockView>,
    side: Option<BlockView>,
    salt: u64,
}

fn emit(v: serde_json::Value) {
    let o = std::io::stdout();
    let mut o = o.lock();
    let _ = writeln!(o, "{}", v);
}

fn lock_args(a: u8) -> Script {
    if a == 0 { lock() } else { lock().as_builder().args(Bytes::from(vec![a]).pack()).build() }
}
fn data_lock(data: &[u8]) -> Script {
    Script::new_builder().code_hash(CellOutput::calc_data_hash(data)).hash_type(ScriptHashType::Data).build()
}
fn out(cap: u64, l: Script) -> CellOutput {
    CellOutput::new_builder().capacity(Capacity::shannons(cap)).lock(l).build()
}
fn rand_hash(seed: u64) -> Byte32 {
    let mut b = [0xA5u8; 32];
    b[..8].copy_from_slice(&seed.to_le_bytes());
    Byte32::new(b)
}
fn testdata(name: &str) -> Vec<u8> {
    std::fs::read(format!("/repo/script/testdata/{name}")).expect("script binary")
}

fn since_value(s: &ASince) -> u64 {
    if s.m == "none" {
        return 0;
    }
    let mut v: u64 = match s.m.as_str() {
        "n" => s.v.0,
        "e" => EpochNumberWithFraction::new_unchecked(s.v.0, s.v.1, s.v.2).full_value(),
        // absolute time values are unix seconds; abstract time 0 = genesis
        "t" => (if s.rel { 0 } else { GENESIS_TS / 1000 }) + s.v.0,
        _ => s.v.0,
    };
    v |= match s.m.as_str() {
        "n" => 0u64,
        "e" => 0x2000_0000_0000_0000,
        "t" => 0x4000_0000_0000_0000,
        _ => 0x6000_0000_0000_0000,
    };
    if s.rel {
        v |= 1 << 63;
    }
    if s.resv {
        v |= 1 << 56;
    }
    v
}

/// all context transactions are known up front (their hashes do not depend on the blocks that carry them)
fn build_world(c: &ckb_chain_spec::consensus::Consensus) -> World {
    let mut cells: HashMap<String, CellInfo> = HashMap::new();
    for i in 1..=8 {
        cells.insert(format!("g{i}"), CellInfo { op: genesis_cell(c, i - 1), cap: 50_000 * CKB });
    }
    cells.insert("code".into(), CellInfo { op: OutPoint::new(c.genesis_block().transactions()[0].hash(), 0), cap: 0 });
    cells.insert("nowhere".into(), CellInfo { op: OutPoint::new(rand_hash(1), 0), cap: 50_000 * CKB });
    let dep = always_success_dep(c);
    let mut palette = HashMap::new();
    let mk = |input: &str, outs: Vec<(CellOutput, Bytes)>, cells: &HashMap<String, CellInfo>| -> TransactionView {
        let mut b = TransactionBuilder::default().cell_dep(dep.clone()).input(CellInput::new(cells[input].op.clone(), 0));
        for (o, d) in outs {
            b = b.output(o).output_data(d.pack());
        }
        b.build()
    };
    let mut reg = |name: &str, tx: &TransactionView, outs: &[&str], cells: &mut HashMap<String, CellInfo>| {
        for (i, o) in outs.iter().enumerate() {
            let cap: u64 = tx.outputs().get(i).unwrap().capacity().unpack();
            cells.insert(o.to_string(), CellInfo { op: OutPoint::new(tx.hash(), i as u32), cap });
        }
        palette.insert(name.to_string(), tx.clone());
    };
    let x = mk("g1", vec![(out(20_000 * CKB, lock_args(0)), Bytes::new()), (out(30_000 * CKB - 1000, lock_args(1)), Bytes::new())], &cells);
    reg("X", &x, &["x1", "x2"], &mut cells);
    let y = mk("x1", vec![(out(20_000 * CKB - 1000, lock_args(2)), Bytes::new())], &cells);
    reg("Y", &y, &["y1"], &mut cells);
    let group = |ids: &[&str], cells: &HashMap<String, CellInfo>| -> Bytes {
        let v: packed::OutPointVec = ids.iter().map(|i| cells[*i].op.clone()).collect::<Vec<_>>().pack();
        v.as_bytes()
    };
    let dg = mk("g2", vec![(out(20_000 * CKB, lock()), group(&["code", "x2"], &cells)), (out(30_000 * CKB - 1000, lock()), group(&["code", "x1"], &cells))], &cells);
    reg("DG", &dg, &["dg", "dgd"], &mut cells);
    let (fail_bin, loop_bin) = (testdata("always_failure"), testdata("infinite_loop"));
    let depl = mk("g3", vec![(out(20_000 * CKB, lock()), Bytes::from(fail_bin.clone())), (out(30_000 * CKB - 1000, lock()), Bytes::from(loop_bin.clone()))], &cells);
    reg("DEP", &depl, &["dfail", "dloop"], &mut cells);
    let f = mk("g4", vec![(out(20_000 * CKB, data_lock(&fail_bin)), Bytes::new()), (out(30_000 * CKB - 1000, data_lock(&loop_bin)), Bytes::new())], &cells);
    reg("F", &f, &["f1", "l1"], &mut cells);
    // T : g8 -> t1, a cell whose TYPE script is the always-success code (args 9): a type group of its own when spent
    let t = mk("g8", vec![(out(50_000 * CKB - 1000, lock()).as_builder().type_(Some(lock_args(9)).pack()).build(), Bytes::new())], &cells);
    reg("T", &t, &["t1"], &mut cells);
    let e = mk("g6", vec![(out(50_000 * CKB - 1000, lock()), Bytes::new())], &cells);
    cells.insert("e1".into(), CellInfo { op: OutPoint::new(e.hash(), 0), cap: 50_000 * CKB - 1000 });
    // the detour transaction spends cells the probes (g5, g7) and the context (g1) use
    let z = TransactionBuilder::default()
        .cell_dep(dep.clone())
        .input(CellInput::new(cells["g5"].op.clone(), 0))
        .input(CellInput::new(cells["g7"].op.clone(), 0))
        .output(out(100_000 * CKB - 5000, lock()))
        .output_data(Bytes::new().pack())
        .build();
    World { consensus: c.clone(), cells, palette, helper_e: e, detour_z: z, chain: vec![], side: None, salt: 0 }
}

fn probe_tx(w: &mut World, a: &ATx) -> TransactionView {
    w.salt += 1;
    let mut b = TransactionBuilder::default().cell_dep(always_success_dep(&w.consensus));
    let mut total: u64 = 0;
    for i in &a.ins {
        let ci = w.cells.get(&i.c).cloned().unwrap_or(CellInfo { op: OutPoint::new(rand_hash(7), 9), cap: 50_000 * CKB });
        total += ci.cap;
        b = b.input(CellInput::new(ci.op, since_value(&i.since)));
    }
    for d in &a.deps {
        let op = w.cells.get(&d.c).map(|c| c.op.clone()).unwrap_or(OutPoint::new(rand_hash(8), 9));
        b = b.cell_dep(CellDep::new_builder().out_point(op).dep_type(if d.grp { DepType::DepGroup } else { DepType::Code }).build());
    }
    for h in &a.hdeps {
        let hash = match h.k.as_str() {
            "main" => w.chain.get(h.h as usize - 1).map(|b| b.hash()).unwrap_or_else(|| rand_hash(13)), // a future block is unknown
            "side" => w.side.as_ref().map(|b| b.hash()).unwrap_or_else(|| rand_hash(11)),
            _ => rand_hash(12),
        };
        b = b.header_dep(hash);
    }
    let outsum = match a.sum.as_str() {
        "fee" => total - 1000,
        "zero" => total,
        _ => total + 1,
    };
    let occupied = out(0, lock()).occupied_capacity(Capacity::zero()).unwrap().as_u64();
    // type script of the first output (its own script group): always success (args 77) / always failure / infinite loop
    let otype: Option<Script> = match a.otype.as_str() {
        "ok" => Some(lock_args(77)),
        "fail" => Some(data_lock(&testdata("always_failure"))),
        "loop" => Some(data_lock(&testdata("infinite_loop"))),
        _ => None,
    };
    match a.occ.as_str() {
        "roomy" => b = b.output(out(outsum, lock()).as_builder().type_(otype.pack()).build()).output_data(Bytes::new().pack()),
        x => {
            let first = if x == "exact" { occupied } else { occupied - 1 };
            b = b.output(out(first, lock())).output_data(Bytes::new().pack());
            b = b.output(out(outsum - first, lock())).output_data(Bytes::new().pack());
        }
    }
    b.witness(Bytes::from(w.salt.to_le_bytes().to_vec()).pack()).build()
}

struct AnyHeader;
impl ckb_types::core::cell::HeaderChecker for AnyHeader {
    fn check_valid(&self, _block_hash: &Byte32) -> Result<(), ckb_types::core::error::OutPointError> {
        Ok(())
    }
}

/// A block on `n`'s tip carrying `txs` after the cellbase.  Epoch, reward, DAO field and chain root come from the
/// production calculators.  The body is resolved PERMISSIVELY for the DAO calculator (any header dep, no double-spend
/// tracking across the block; a transaction whose cells cannot be found at all is left out of the DAO sum), so that
/// the block's only flaw is the probe's: the verdict must come from the verifiers, not from a wrong DAO field.
fn block_with(n: &Node, txs: &[TransactionView], ts: u64, nonce: u64) -> BlockView {
    use ckb_store::ChainStore;
    use ckb_types::core::cell::{resolve_transaction, BlockCellProvider, OverlayCellProvider};
    use ckb_types::core::BlockBuilder;
    let base = assemble(n, &BlockSpec { ts, nonce, ..Default::default() }).expect("empty block");
    if txs.is_empty() {
        return base;
    }
    let snap = n.shared.cloned_snapshot();
    let tip = snap.tip_header().clone();
    let mut all = base.transactions();
    all.extend(txs.iter().cloned());
    let draft = BlockBuilder::default().transactions(all.clone()).build();
    let mut rtxs = vec![];
    if let Ok(bcp) = BlockCellProvider::new(&draft) {
        let cp = OverlayCellProvider::new(&bcp, snap.as_ref());
        for t in all.iter().cloned() {
            let mut seen = std::collections::HashSet::new();
            if let Ok(r) = resolve_transaction(t, &mut seen, &cp, &AnyHeader) {
                rtxs.push(r);
            }
        }
    } else {
        // duplicate transaction hashes in the body: only the cellbase counts
        let mut seen = std::collections::HashSet::new();
        rtxs.push(resolve_transaction(all[0].clone(), &mut seen, snap.as_ref(), &AnyHeader).expect("cellbase"));
    }
    let dao = ckb_dao::DaoCalculator::new(snap.consensus(), &snap.borrow_as_data_loader()).dao_field(rtxs.iter(), &tip).unwrap_or_else(|_| base.header().dao());
    base.as_advanced_builder().set_transactions(all).dao(dao).build()
}

fn submit_block(n: &Node, b: &BlockView) -> (bool, String) {
    use ckb_verification::HeaderVerifier;
    use ckb_verification_traits::Verifier;
    let snap = n.shared.cloned_snapshot();
    if let Err(e) = HeaderVerifier::new(snap.as_ref(), snap.consensus()).verify(&b.header()) {
        return (false, format!("HeaderErr({e})"));
    }
    let r = n.chain.chain_controller().blocking_process_block_with_switch(Arc::new(b.clone()), Switch::DISABLE_TWO_PHASE_COMMIT);
    (n.tip().1 == b.hash(), r.err().map(|e| e.to_string()).unwrap_or_default())
}

fn pool_test(n: &Node, tx: &TransactionView) -> (bool, String) {
    match n.shared.tx_pool_controller().test_accept_tx(tx.clone()) {
        Ok(Ok(_)) => (true, String::new()),
        Ok(Err(e)) => (false, e.to_string()),
        Err(e) => (false, format!("controller: {e}")),
    }
}
fn pool_submit(n: &Node, tx: &TransactionView) -> (bool, String) {
    match n.shared.tx_pool_controller().submit_local_tx(tx.clone()) {
        Ok(Ok(_)) => (true, String::new()),
        Ok(Err(e)) => (false, e.to_string()),
        Err(e) => (false, format!("controller: {e}")),
    }
}
fn pool_remove(n: &Node, tx: &TransactionView) {
    let _ = n.shared.tx_pool_controller().remove_local_tx(tx.hash());
}
fn pool_len(n: &Node) -> usize {
    let i = n.shared.tx_pool_controller().get_tx_pool_info().unwrap();
    i.pending_size + i.proposed_size + i.orphan_size
}

/// judge one probe on a (block node, pool node) pair whose tips are the current prefix
fn judge(w: &mut World, nb: &Node, np: &Node, pr: &AProbe, ts: u64) -> serde_json::Value {
    let tx = probe_tx(w, &pr.tx);
    let e = w.helper_e.clone();
    // ---- in a block
    let body: Vec<TransactionView> = match pr.pre.as_str() {
        "E" => vec![e.clone(), tx.clone()],
        "E-after" => vec![tx.clone(), e.clone()],
        _ => vec![tx.clone()],
    };
    let tip = nb.tip().1;
    w.salt += 1;
    let b = block_with(nb, &body, ts, w.salt);
    let (attached, berr) = submit_block(nb, &b);
    let mut unchanged = true;
    if attached {
        nb.truncate_to(&tip).expect("truncate");
    } else {
        unchanged = nb.tip().1 == tip;
    }
    // ---- in the pool
    let before = pool_len(np);
    if pr.pre == "E" {
        let r = pool_submit(np, &e);
        assert!(r.0, "helper E refused by the pool: {}", r.1);
    }
    let (t_ok, t_err) = pool_test(np, &tx);
    let (s_ok, s_err) = pool_submit(np, &tx);
    pool_remove(np, &tx);
    if pr.pre == "E" {
        pool_remove(np, &e);
    }
    let after = pool_len(np);
    json!({"block": attached, "block_err": berr, "block_unchanged": unchanged, "test_accept": t_ok, "test_err": t_err,
           "submit": s_ok, "submit_err": s_err, "pool_clean": before == after})
}

fn run_ctx(ci: usize, ctx: &ACtx, seed: u64) {
    let p = &ctx.params;
    // cost of one always-success script group
    let c0 = {
        let params = Params { epoch_len: p.l, window: (p.wclose, p.wfar), genesis_cells: 8, median_time_block_count: p.k, ..Default::default() };
        let c = consensus(&params);
        let n = Node::start(&NodeCfg { assembler: false, ..NodeCfg::temp(&c) });
        let t = spend(&c, &[genesis_cell(&c, 4)], 50_000 * CKB, 1, 1000, 0);
        n.shared.tx_pool_controller().test_accept_tx(t).expect("pool").expect("accepted").cycles
    };
    let q = p.maxcycles.div_ceil(p.groupcycles);
    let real_cycles = q * c0 - (q * p.groupcycles - p.maxcycles);
    let params = Params {
        epoch_len: p.l,
        window: (p.wclose, p.wfar),
        genesis_cells: 8,
        median_time_block_count: p.k,
        cellbase_maturity: EpochNumberWithFraction::new(0, p.maturity, p.l),
        max_block_cycles: Some(real_cycles),
        ..Default::default()
    };
    let mut c = consensus(&params);
    if p.rfc0028 {
        c.hardfork_switch = ckb_types::core::hardfork::HardForks::new_dev();
    }
    let ft = ckb_systemtime::faketime();
    ft.set_faketime(GENESIS_TS + 1_000_000_000);
    let pool_cfg = TxPoolConfig { min_fee_rate: FeeRate::from_u64(0), min_rbf_rate: FeeRate::from_u64(0), ..Default::default() };
    let start = || Node::start(&NodeCfg { assembler: false, tx_pool: Some(pool_cfg.clone()), ..NodeCfg::temp(&c) });
    // straight nodes (block judge / pool judge) and detour nodes
    let (sb, sp, db, dp) = (start(), start(), start(), start());
    let mut w = build_world(&c);
    let n = ctx.ts.len();
    // a side block known to every node: sibling of block 1, delivered after block 1
    let mut rng = ckbv::util::Rng::new(seed * 31 + ci as u64);
    let detours: Vec<usize> = { let a = 1 + rng.below(2) as usize; let b = a + 4 + rng.below(2) as usize; vec![a, b] };
    let mut detour_until = 0usize; // detour nodes are inside a detour while m < detour_until
    let mut pending_main: Vec<BlockView> = vec![];
    for m in 0..=n {
        let ts_probe = GENESIS_TS + 1000 * (ctx.ts.iter().take(m).rev().take(p.k).cloned().max().unwrap_or(0) + 1);
        let d_in_sync = m >= detour_until;
        // ---- probes
        for (pi, pr) in ctx.probes[m].iter().enumerate() {
            let s = judge(&mut w, &sb, &sp, pr, ts_probe);
            let d = if d_in_sync { Some(judge(&mut w, &db, &dp, pr, ts_probe)) } else { None };
            emit(json!({"probe": {"ctx": ci, "m": m, "i": pi, "S": s, "D": d}}));
        }
        if m == n {
            // ---- staged probes: block n+1 proposes their ids, block n+2 is empty; the pool sees them at stage Gap, then Proposed
            if !ctx.staged.is_empty() {
                let txs: Vec<TransactionView> = ctx.staged.iter().map(|sp_| probe_tx(&mut w, &sp_.tx)).collect();
                let last_ts = GENESIS_TS + 1000 * ctx.ts.iter().cloned().max().unwrap_or(0);
                let mut results: Vec<serde_json::Value> = vec![serde_json::Value::Null; txs.len()];
                for (round, stage) in ["gap", "proposed"].iter().enumerate() {
                    w.salt += 1;
                    let spec = BlockSpec {
                        proposals: if round == 0 {
                            // the same transaction can be a probe of both stages: one id
                            let mut ids: Vec<packed::ProposalShortId> = vec![];
                            for t in &txs {
                                if !ids.contains(&t.proposal_short_id()) {
                                    ids.push(t.proposal_short_id());
                                }
                            }
                            ids
                        } else {
                            vec![]
                        },
                        ts: last_ts + 2000 * (round as u64 + 1),
                        nonce: w.salt,
                        ..Default::default()
                    };
                    let blk = assemble(&sp, &spec).expect("staged block");
                    let (ok, er) = submit_block(&sp, &blk);
                    assert!(ok && sp.wait_pool_synced(), "staged block refused: {er}");
                    for (i, st) in ctx.staged.iter().enumerate() {
                        if st.stage == *stage {
                            let (t_ok, t_err) = pool_test(&sp, &txs[i]);
                            let (s_ok, s_err) = pool_submit(&sp, &txs[i]);
                            let status = sp.shared.tx_pool_controller().get_tx_status(txs[i].hash()).ok().and_then(|r| r.ok()).map(|r| format!("{:?}", r.0)).unwrap_or_default();
                            pool_remove(&sp, &txs[i]);
                            results[i] = json!({"stage": stage, "test_accept": t_ok, "test_err": t_err, "submit": s_ok, "submit_err": s_err, "status": status});
                        }
                    }
                }
                emit(json!({"staged": {"ctx": ci, "results": results}}));
            }
            break;
        }
        // ---- next context block: palette transactions scheduled at height m+1, in palette order
        let names = ["X", "Y", "DG", "DEP", "F", "T"];
        let body: Vec<TransactionView> =
            names.iter().filter(|nm| ctx.sched.iter().any(|s| &s.name == *nm && s.h == m as u64 + 1)).map(|nm| w.palette[*nm].clone()).collect();
        w.salt += 1;
        let blk = block_with(&sb, &body, GENESIS_TS + 1000 * ctx.ts[m], w.salt);
        let (a1, e1) = submit_block(&sb, &blk);
        emit(json!({"context_block": {"ctx": ci, "m": m + 1, "attached": a1, "err": e1}}));
        if !a1 {
            return;
        }
        let (a2, _) = submit_block(&sp, &blk);
        assert!(a2 && sp.wait_pool_synced());
        w.chain.push(blk.clone());
        if let Some(o) = blk.transactions()[0].outputs().get(0) {
            let cap: u64 = o.capacity().unpack();
            w.cells.insert(format!("cb{}", m + 1), CellInfo { op: OutPoint::new(blk.transactions()[0].hash(), 0), cap });
        }
        // ---- detour nodes: either follow, or first wander off on a branch that spends the probes' cells
        if detours.contains(&m) && m + 3 <= n {
            w.salt += 1;
            let a1 = block_with(&db, &[w.detour_z.clone()], GENESIS_TS + 1000 * ctx.ts[m], w.salt);
            let (ok1, er1) = submit_block(&db, &a1);
            w.salt += 1;
            let a2 = block_with(&db, &[], GENESIS_TS + 1000 * ctx.ts[m] + 1000, w.salt);
            let (ok2, er2) = submit_block(&db, &a2);
            for b in [&a1, &a2] {
                let _ = submit_block(&dp, b);
            }
            emit(json!({"detour": {"ctx": ci, "at": m, "attached": [ok1, ok2], "err": [er1, er2]}}));
            detour_until = m + 3;
            pending_main.clear();
        }
        for node in [&db, &dp] {
            let _ = submit_block(node, &blk);
        }
        if m + 1 == detour_until {
            // the main chain is now longer than the detour: both detour nodes must have come back
            let back = db.tip().1 == blk.hash() && dp.tip().1 == blk.hash();
            assert!(dp.wait_pool_synced());
            // the detached detour transaction is put back into the pool by the reorg: the pool CONTENT is part of the
            // context, so take it out again
            pool_remove(&dp, &w.detour_z);
            emit(json!({"detour_end": {"ctx": ci, "m": m + 1, "back_on_main": back, "pool_len": pool_len(&dp)}}));
            if !back {
                detour_until = usize::MAX;
            }
        } else {
            assert!(dp.wait_pool_synced());
        }
        if m == 0 {
            // the side block for header-dep probes: a sibling of block 1 (equal work, arrives second: stored, not attached)
            let bn = builder_node(&c, &[]);
            let side = assemble(&bn, &BlockSpec { nonce: 999, ts: GENESIS_TS + 1000 * ctx.ts[0], ..Default::default() }).unwrap();
            drop(bn);
            for node in [&sb, &sp, &db, &dp] {
                let _ = node.chain.chain_controller().blocking_process_block_with_switch(Arc::new(side.clone()), Switch::DISABLE_TWO_PHASE_COMMIT);
                assert!(node.tip().1 == blk.hash());
            }
            w.side = Some(side);
        }
    }
}

fn main() {
    let args: Vec<String> = std::env::args().collect();
    match args.get(1).map(|s| s.as_str()) {
        Some("run") => {
            let input = opt(&args, "--in").expect("--in");
            let seed = opt_u64(&args, "--seed", 1);
            let only = opt(&args, "--only").map(|s| s.parse::<usize>().unwrap());
            let text = std::fs::read_to_string(input).expect("read input");
            let mut done = 0;
            for (ci, line) in text.lines().filter(|l| !l.trim().is_empty()).enumerate() {
                if only.map(|o| o != ci).unwrap_or(false) {
                    continue;
                }
                let ctx: ACtx = serde_json::from_str(line).expect("context");
                run_ctx(ci, &ctx, seed);
                done += 1;
            }
            emit(json!({"summary": {"contexts": done}}));
            std::io::stdout().flush().unwrap();
            std::process::exit(0);
        }
        _ => {
            eprintln!("usage: c04 run --in <ctxs.ndjson> [--seed S] [--only i]");
            std::process::exit(2);
        }
    }
}
