//! C15 — binding of spec/Molecule.tla + Hashes.tla (+ the generated CkbSchema.tla) to the real packed types,
//! views and JSON-RPC types.
//!
//! `c15 values --in <ndjson>`: every record is a value enumerated by TLC (MC_C15) with the encoding and the hash
//! terms the specification assigns to it.  For each record the real code must agree:
//!   enc      the entity built FIELD BY FIELD through the generated builders has exactly the spec's bytes
//!   decode   from_slice / from_compatible_slice (entity and reader API) accept the bytes and every getter reads
//!            back the value; types with an appended field are compatible-only encodings of their older version
//!   hash     every calc_* / *View::hash() equals the spec's hash term evaluated with the real blake2b, and the cached
//!            hashes of the views equal recomputation
//!   moved    w.r.t. the base value of the type, exactly the hashes the spec says move do move
//!   json     packed -> jsonrpc type -> JSON text -> jsonrpc type -> packed is the identity, and the JSON text is a
//!            fixed point (JSON -> packed -> JSON)
//!   builder  the mutated value's view obtained FROM THE BASE VALUE'S VIEW through as_advanced_builder() + the setter(s) of the
//!            differing field(s) (set / extend / push forms; field list from the schema) + build()/build_unchecked() carries no
//!            stale cached hash (tx hash, witness hash, block hash, tx/uncle hash vectors, roots)
//!   view     into_view / view getters / JSON views agree with the packed data (on self-consistent blocks for the
//!            conversions that normalise the header)
#[path = "../molgen.rs"]
mod molgen;

use ckb_jsonrpc_types as j;
use ckb_types::{core, packed, prelude::*};
use ckbv::util::opt;
use serde_json::{Value, json};
use std::collections::HashMap;
use std::io::Write;
use std::panic::{AssertUnwindSafe, catch_unwind};

type R = Result<(), String>;

fn bytes_of(v: &Value) -> Vec<u8> {
    v.as_array().expect("byte list").iter().map(|x| x.as_u64().expect("byte") as u8).collect()
}

/// evaluates a hash term of Hashes.tla with the real blake2b (ckb personalisation); None: "absent"
fn eval_term(t: &Value) -> Option<Vec<u8>> {
    match t["op"].as_str().expect("op") {
        "B" => Some(bytes_of(&t["bytes"])),
        "Z" => Some(vec![0u8; 32]),
        "absent" => None,
        "H" => {
            let mut h = ckb_hash::new_blake2b();
            for a in t["args"].as_array().expect("args") {
                h.update(&eval_term(a).expect("argument present"));
            }
            let mut out = [0u8; 32];
            h.finalize(&mut out);
            Some(out.to_vec())
        }
        other => panic!("unknown term op {other}"),
    }
}

fn b32(x: &packed::Byte32) -> Vec<u8> {
    x.as_slice().to_vec()
}
fn same(what: &str, a: &packed::Byte32, b: &packed::Byte32) -> R {
    if a.as_slice() == b.as_slice() { Ok(()) } else { Err(format!("{what}: cached/alternative hash differs from recomputation")) }
}

fn block_of(ty: &str, bytes: &[u8]) -> packed::Block {
    if ty == "BlockV1" { packed::BlockV1::from_slice(bytes).expect("BlockV1").as_v0() } else { packed::Block::from_slice(bytes).expect("Block") }
}

/// the real hashes of a value, by the names Hashes.tla uses
fn real_hashes(ty: &str, bytes: &[u8]) -> Result<Vec<(String, Vec<u8>)>, String> {
    let mut out: Vec<(String, Vec<u8>)> = vec![];
    let mut put = |n: &str, h: packed::Byte32| out.push((n.to_string(), b32(&h)));
    match ty {
        "Script" => put("script_hash", packed::Script::from_slice(bytes).unwrap().calc_script_hash()),
        "CellOutput" => put("lock_hash", packed::CellOutput::from_slice(bytes).unwrap().calc_lock_hash()),
        "RawTransaction" => put("tx_hash", packed::RawTransaction::from_slice(bytes).unwrap().calc_tx_hash()),
        "Transaction" => {
            let tx = packed::Transaction::from_slice(bytes).unwrap();
            let v = tx.clone().into_view();
            same("Transaction.hash", &v.hash(), &tx.calc_tx_hash())?;
            same("Transaction.witness_hash", &v.witness_hash(), &tx.calc_witness_hash())?;
            same("Transaction.raw.calc_tx_hash", &tx.raw().calc_tx_hash(), &tx.calc_tx_hash())?;
            put("tx_hash", v.hash());
            put("witness_hash", v.witness_hash());
        }
        "RawHeader" => put("pow_hash", packed::RawHeader::from_slice(bytes).unwrap().calc_pow_hash()),
        "Header" => {
            let h = packed::Header::from_slice(bytes).unwrap();
            same("Header.hash", &h.clone().into_view().hash(), &h.calc_header_hash())?;
            put("pow_hash", h.calc_pow_hash());
            put("header_hash", h.calc_header_hash());
        }
        "UncleBlock" => {
            let u = packed::UncleBlock::from_slice(bytes).unwrap();
            let v = u.clone().into_view();
            same("UncleBlock.hash", &v.hash(), &u.calc_header_hash())?;
            same("UncleBlock.proposals_hash", &v.calc_proposals_hash(), &u.calc_proposals_hash())?;
            put("header_hash", v.hash());
            put("proposals_hash", u.calc_proposals_hash());
        }
        "UncleBlockVec" => put("uncles_hash", packed::UncleBlockVec::from_slice(bytes).unwrap().calc_uncles_hash()),
        "ProposalShortIdVec" => put("proposals_hash", packed::ProposalShortIdVec::from_slice(bytes).unwrap().calc_proposals_hash()),
        "Block" | "BlockV1" => {
            let b = block_of(ty, bytes);
            let v = b.clone().into_view_without_reset_header();
            if v.data().as_slice() != b.as_slice() {
                return Err("into_view_without_reset_header changed the block".into());
            }
            same("Block.hash", &v.hash(), &b.calc_header_hash())?;
            same("Block.header().hash", &v.header().hash(), &b.header().calc_header_hash())?;
            same("Block.calc_proposals_hash", &v.calc_proposals_hash(), &b.calc_proposals_hash())?;
            same("Block.calc_uncles_hash", &v.calc_uncles_hash(), &b.calc_uncles_hash())?;
            same("Block.calc_extra_hash", &v.calc_extra_hash().extra_hash(), &b.calc_extra_hash().extra_hash())?;
            same("ExtraHashView.uncles_hash", &v.calc_extra_hash().uncles_hash(), &b.calc_uncles_hash())?;
            put("header_hash", v.hash());
            put("proposals_hash", v.calc_proposals_hash());
            put("uncles_hash", v.calc_uncles_hash());
            put("extra_hash", v.calc_extra_hash().extra_hash());
            match (v.calc_extension_hash(), v.calc_extra_hash().extension_hash()) {
                (Some(a), Some(b)) => {
                    same("extension_hash", &a, &b)?;
                    put("extension_hash", a)
                }
                (None, None) => {}
                _ => return Err("extension hash present in one accessor only".into()),
            }
            put("raw_transactions_root", v.calc_raw_transactions_root());
            put("witnesses_root", v.calc_witnesses_root());
            put("transactions_root", v.calc_transactions_root());
            let txs = v.transactions();
            if txs.len() != v.tx_hashes().len() || txs.len() != v.tx_witness_hashes().len() || txs.len() != b.transactions().len() {
                return Err("tx hash vectors have the wrong length".into());
            }
            let calc_h = b.calc_tx_hashes();
            let calc_w = b.calc_tx_witness_hashes();
            for (i, tx) in txs.iter().enumerate() {
                same("BlockView.tx_hashes", &tx.hash(), &v.tx_hashes()[i])?;
                same("Block.calc_tx_hashes", &tx.hash(), &calc_h[i])?;
                same("tx.calc_tx_hash", &tx.hash(), &tx.data().calc_tx_hash())?;
                same("BlockView.tx_witness_hashes", &tx.witness_hash(), &v.tx_witness_hashes()[i])?;
                same("Block.calc_tx_witness_hashes", &tx.witness_hash(), &calc_w[i])?;
                same("BlockView.transaction(i)", &v.transaction(i).unwrap().hash(), &tx.hash())?;
                put(&format!("tx_hash_{}", i + 1), tx.hash());
            }
            for (i, tx) in txs.iter().enumerate() {
                put(&format!("witness_hash_{}", i + 1), tx.witness_hash());
            }
            let uh = v.uncle_hashes();
            if uh.len() != b.uncles().len() {
                return Err("uncle_hashes has the wrong length".into());
            }
            for (i, u) in v.uncles().into_iter().enumerate() {
                same("uncle hash", &u.hash(), &uh.get(i).unwrap())?;
                same("uncle calc", &u.hash(), &b.uncles().get(i).unwrap().calc_header_hash())?;
                put(&format!("uncle_hash_{}", i + 1), u.hash());
            }
            // the normalising conversion: header roots := what the body hashes to, nothing else changes
            let n = b.clone().into_view();
            let want_raw = b.header().raw().as_builder().transactions_root(v.calc_transactions_root()).proposals_hash(v.calc_proposals_hash())
                .extra_hash(v.calc_extra_hash().extra_hash()).build();
            if n.data().header().raw().as_slice() != want_raw.as_slice() || n.data().header().nonce().as_slice() != b.header().nonce().as_slice() {
                return Err("into_view(): header is not the original header with the three roots recomputed".into());
            }
            if n.data().uncles().as_slice() != b.uncles().as_slice() || n.data().transactions().as_slice() != b.transactions().as_slice()
                || n.data().proposals().as_slice() != b.proposals().as_slice() || n.extension().map(|e| e.as_slice().to_vec()) != b.extension().map(|e| e.as_slice().to_vec()) {
                return Err("into_view(): body changed".into());
            }
            same("into_view().hash", &n.hash(), &n.data().header().calc_header_hash())?;
            // on a self-consistent block the conversion is the identity
            let again = n.data().into_view();
            if again.data().as_slice() != n.data().as_slice() || again.hash() != n.hash() {
                return Err("into_view() is not the identity on a self-consistent block".into());
            }
            let reset = b.clone().reset_header();
            if reset.as_slice() != n.data().as_slice() {
                return Err("reset_header() differs from into_view().data()".into());
            }
        }
        "CompactBlock" => put("header_hash", packed::CompactBlock::from_slice(bytes).unwrap().calc_header_hash()),
        "CompactBlockV1" => put("header_hash", packed::CompactBlockV1::from_slice(bytes).unwrap().as_v0().calc_header_hash()),
        "RawAlert" => put("alert_hash", packed::RawAlert::from_slice(bytes).unwrap().calc_alert_hash()),
        "Alert" => put("alert_hash", packed::Alert::from_slice(bytes).unwrap().calc_alert_hash()),
        "HeaderDigest" => put("mmr_hash", packed::HeaderDigest::from_slice(bytes).unwrap().calc_mmr_hash()),
        "Bytes" => put("raw_data_hash", packed::Bytes::from_slice(bytes).unwrap().calc_raw_data_hash()),
        _ => {}
    }
    Ok(out)
}

// ---------------------------------------------------------------------------------------------- JSON
fn script_ok(s: &packed::Script) -> bool {
    core::ScriptHashType::try_from(s.hash_type()).is_ok()
}
fn output_ok(o: &packed::CellOutput) -> bool {
    script_ok(&o.lock()) && o.type_().to_opt().map(|t| script_ok(&t)).unwrap_or(true)
}
fn dep_ok(d: &packed::CellDep) -> bool {
    core::DepType::try_from(d.dep_type()).is_ok()
}
fn tx_ok(t: &packed::Transaction) -> bool {
    t.raw().outputs().into_iter().all(|o| output_ok(&o)) && t.raw().cell_deps().into_iter().all(|d| dep_ok(&d))
}
fn ascii(b: &packed::Bytes) -> bool {
    b.raw_data().iter().all(|x| *x < 128)
}

macro_rules! json_rt {
    ($jt:ty, $pt:ty, $e:expr) => {{
        let e: $pt = $e;
        let js: $jt = e.clone().into();
        let t1 = serde_json::to_string(&js).map_err(|x| x.to_string())?;
        let back: $jt = serde_json::from_str(&t1).map_err(|x| format!("json text does not parse back: {x}"))?;
        let p2: $pt = back.into();
        if p2.as_slice() != e.as_slice() {
            return Err(format!("{}: packed -> json -> packed changed the value (json {})", stringify!($pt), t1));
        }
        let js2: $jt = p2.into();
        let t2 = serde_json::to_string(&js2).map_err(|x| x.to_string())?;
        if t1 != t2 {
            return Err(format!("{}: json -> packed -> json changed the text", stringify!($pt)));
        }
        t1
    }};
}

/// Ok(true): round trips checked; Ok(false): the type has no JSON form / the value is not representable (invalid enum byte)
fn json_checks(ty: &str, bytes: &[u8]) -> Result<bool, String> {
    match ty {
        "Script" => {
            let e = packed::Script::from_slice(bytes).unwrap();
            if !script_ok(&e) {
                return Ok(false);
            }
            let t = json_rt!(j::Script, packed::Script, e.clone());
            let v: Value = serde_json::from_str(&t).unwrap();
            // the JSON text shows the fields themselves (0x-hex)
            if v["code_hash"] != json!(format!("0x{}", hex(e.code_hash().as_slice()))) || v["args"] != json!(format!("0x{}", hex(&e.args().raw_data()))) {
                return Err("Script json fields do not show the packed fields".into());
            }
        }
        "OutPoint" => {
            let e = packed::OutPoint::from_slice(bytes).unwrap();
            let t = json_rt!(j::OutPoint, packed::OutPoint, e.clone());
            let v: Value = serde_json::from_str(&t).unwrap();
            let idx: u32 = e.index().into();
            if v["tx_hash"] != json!(format!("0x{}", hex(e.tx_hash().as_slice()))) || v["index"] != json!(format!("{:#x}", idx)) {
                return Err("OutPoint json fields do not show the packed fields".into());
            }
        }
        "CellInput" => {
            let e = packed::CellInput::from_slice(bytes).unwrap();
            let t = json_rt!(j::CellInput, packed::CellInput, e.clone());
            let v: Value = serde_json::from_str(&t).unwrap();
            let since: u64 = e.since().into();
            if v["since"] != json!(format!("{:#x}", since)) {
                return Err("CellInput.since json differs".into());
            }
        }
        "CellOutput" => {
            let e = packed::CellOutput::from_slice(bytes).unwrap();
            if !output_ok(&e) {
                return Ok(false);
            }
            let t = json_rt!(j::CellOutput, packed::CellOutput, e.clone());
            let v: Value = serde_json::from_str(&t).unwrap();
            let cap: u64 = e.capacity().into();
            if v["capacity"] != json!(format!("{:#x}", cap)) || v["type"].is_null() != e.type_().is_none() {
                return Err("CellOutput json fields do not show the packed fields".into());
            }
        }
        "CellDep" => {
            let e = packed::CellDep::from_slice(bytes).unwrap();
            if !dep_ok(&e) {
                return Ok(false);
            }
            json_rt!(j::CellDep, packed::CellDep, e);
        }
        "Transaction" => {
            let e = packed::Transaction::from_slice(bytes).unwrap();
            if !tx_ok(&e) {
                return Ok(false);
            }
            json_rt!(j::Transaction, packed::Transaction, e.clone());
            let view = e.clone().into_view();
            let jv: j::TransactionView = view.clone().into();
            let txt = serde_json::to_string(&jv).map_err(|x| x.to_string())?;
            let back: j::TransactionView = serde_json::from_str(&txt).map_err(|x| x.to_string())?;
            let hash: packed::Byte32 = back.hash.clone().into();
            let p: packed::Transaction = back.inner.into();
            if p.as_slice() != e.as_slice() || hash != view.hash() {
                return Err("TransactionView json round trip changed data or hash".into());
            }
        }
        "Header" => {
            let e = packed::Header::from_slice(bytes).unwrap();
            json_rt!(j::Header, packed::Header, e.clone());
            let view = e.clone().into_view();
            let jv: j::HeaderView = view.clone().into();
            let back: j::HeaderView = serde_json::from_str(&serde_json::to_string(&jv).map_err(|x| x.to_string())?).map_err(|x| x.to_string())?;
            let hash: packed::Byte32 = back.hash.clone().into();
            let cv: core::HeaderView = back.into();
            if cv.data().as_slice() != e.as_slice() || cv.hash() != view.hash() || hash != view.hash() {
                return Err("HeaderView json round trip changed data or hash".into());
            }
            // view getters show the packed fields
            let raw = e.raw();
            let ok = cv.version() == Into::<u32>::into(raw.version()) && cv.compact_target() == Into::<u32>::into(raw.compact_target())
                && cv.timestamp() == Into::<u64>::into(raw.timestamp()) && cv.number() == Into::<u64>::into(raw.number())
                && cv.epoch().full_value() == Into::<u64>::into(raw.epoch()) && cv.parent_hash() == raw.parent_hash()
                && cv.transactions_root() == raw.transactions_root() && cv.proposals_hash() == raw.proposals_hash()
                && cv.extra_hash() == raw.extra_hash() && cv.dao() == raw.dao() && cv.nonce() == Into::<u128>::into(e.nonce());
            if !ok {
                return Err("HeaderView getters differ from the packed fields".into());
            }
        }
        "UncleBlock" => {
            let e = packed::UncleBlock::from_slice(bytes).unwrap();
            json_rt!(j::UncleBlock, packed::UncleBlock, e.clone());
            let view = e.clone().into_view();
            let jv: j::UncleBlockView = view.clone().into();
            let back: j::UncleBlockView = serde_json::from_str(&serde_json::to_string(&jv).map_err(|x| x.to_string())?).map_err(|x| x.to_string())?;
            let hash: packed::Byte32 = back.header.hash.clone().into();
            if hash != view.hash() {
                return Err("UncleBlockView json hash differs".into());
            }
        }
        "Block" | "BlockV1" => {
            let e = block_of(ty, bytes);
            if !e.transactions().into_iter().all(|t| tx_ok(&t)) {
                return Ok(false);
            }
            json_rt!(j::Block, packed::Block, e.clone());
            // views: stated on the self-consistent block (the conversions normalise the header roots)
            let view = e.clone().into_view();
            let jv: j::BlockView = view.clone().into();
            let txt = serde_json::to_string(&jv).map_err(|x| x.to_string())?;
            let back: j::BlockView = serde_json::from_str(&txt).map_err(|x| x.to_string())?;
            let cv: core::BlockView = back.into();
            if cv.data().as_slice() != view.data().as_slice() || cv.hash() != view.hash() {
                return Err("BlockView json round trip changed data or hash (self-consistent block)".into());
            }
            if cv.tx_hashes() != view.tx_hashes() || cv.tx_witness_hashes() != view.tx_witness_hashes() || cv.uncle_hashes().as_slice() != view.uncle_hashes().as_slice() {
                return Err("BlockView json round trip changed cached hashes".into());
            }
        }
        "Alert" => {
            let e = packed::Alert::from_slice(bytes).unwrap();
            let raw = e.raw();
            if !ascii(&raw.message()) || !raw.min_version().to_opt().map(|b| ascii(&b)).unwrap_or(true) || !raw.max_version().to_opt().map(|b| ascii(&b)).unwrap_or(true) {
                return Ok(false);
            }
            json_rt!(j::Alert, packed::Alert, e);
        }
        "Byte32" => {
            json_rt!(j::Byte32, packed::Byte32, packed::Byte32::from_slice(bytes).unwrap());
        }
        "Bytes" => {
            json_rt!(j::JsonBytes, packed::Bytes, packed::Bytes::from_slice(bytes).unwrap());
        }
        "ProposalShortId" => {
            json_rt!(j::ProposalShortId, packed::ProposalShortId, packed::ProposalShortId::from_slice(bytes).unwrap());
        }
        "Uint32" => {
            let e = packed::Uint32::from_slice(bytes).unwrap();
            let n: u32 = e.clone().into();
            let js: j::Uint32 = n.into();
            let t = serde_json::to_string(&js).unwrap();
            let back: j::Uint32 = serde_json::from_str(&t).map_err(|x| x.to_string())?;
            let p: packed::Uint32 = back.value().into();
            if p.as_slice() != e.as_slice() || t != format!("\"{:#x}\"", n) || n.to_le_bytes() != bytes {
                return Err(format!("Uint32 json round trip: {t}"));
            }
        }
        "Uint64" => {
            let e = packed::Uint64::from_slice(bytes).unwrap();
            let n: u64 = e.clone().into();
            let js: j::Uint64 = n.into();
            let t = serde_json::to_string(&js).unwrap();
            let back: j::Uint64 = serde_json::from_str(&t).map_err(|x| x.to_string())?;
            let p: packed::Uint64 = back.value().into();
            if p.as_slice() != e.as_slice() || t != format!("\"{:#x}\"", n) || n.to_le_bytes() != bytes {
                return Err(format!("Uint64 json round trip: {t}"));
            }
        }
        "Uint128" => {
            let e = packed::Uint128::from_slice(bytes).unwrap();
            let n: u128 = e.clone().into();
            let js: j::Uint128 = n.into();
            let t = serde_json::to_string(&js).unwrap();
            let back: j::Uint128 = serde_json::from_str(&t).map_err(|x| x.to_string())?;
            let p: packed::Uint128 = back.value().into();
            if p.as_slice() != e.as_slice() || t != format!("\"{:#x}\"", n) || n.to_le_bytes() != bytes {
                return Err(format!("Uint128 json round trip: {t}"));
            }
        }
        _ => return Ok(false),
    }
    Ok(true)
}


// ---------------------------------------------------------------------------------------------- view -> builder -> view
// The mutated value's view is obtained from the BASE value's view through as_advanced_builder() + the setter(s) of the
// field(s) that differ + build(); every cached hash of the result must equal recomputation from data().  The field
// lists come from the schema (molgen::field_names): a field the advanced builder has no setter for is reported.

fn same_bytes(a: &[u8], b: &[u8]) -> bool {
    a == b
}

/// every way the advanced builder offers to give a vector field its new content
#[derive(Clone, Copy, Debug, PartialEq)]
enum VecForm {
    Set,
    Extend,
    Push,
}
const FORMS: [VecForm; 3] = [VecForm::Set, VecForm::Extend, VecForm::Push];

macro_rules! vec_field {
    ($b:expr, $form:expr, $items:expr, $set:ident, $extend:ident, $push:ident) => {{
        let items: Vec<_> = $items;
        match $form {
            VecForm::Set => $b.$set(items),
            VecForm::Extend => $b.$set(vec![]).$extend(items),
            VecForm::Push => {
                let mut b = $b.$set(vec![]);
                for x in items {
                    b = b.$push(x);
                }
                b
            }
        }
    }};
}

fn check_tx_view(what: &str, v: &core::TransactionView, want: &packed::Transaction) -> R {
    if !same_bytes(v.data().as_slice(), want.as_slice()) {
        return Err(format!("{what}: the built transaction is not the mutated value"));
    }
    if v.hash() != v.data().calc_tx_hash() {
        return Err(format!("{what}: TransactionView.hash() is stale (differs from data().calc_tx_hash())"));
    }
    if v.witness_hash() != v.data().calc_witness_hash() {
        return Err(format!("{what}: TransactionView.witness_hash() is stale"));
    }
    Ok(())
}

/// base view -> builder -> setters of the differing fields -> view, in every vector form
fn tx_via_builder(base: &core::TransactionView, want: &packed::Transaction) -> Result<core::TransactionView, String> {
    let (b, w) = (base.data(), want.clone());
    let mut last = None;
    for form in FORMS {
        let mut bld = base.as_advanced_builder();
        let mut touched = 0;
        for f in molgen::field_names("RawTransaction").unwrap().iter().chain(molgen::field_names("Transaction").unwrap().iter()) {
            match *f {
                "raw" => {}
                "version" => if b.raw().version().as_slice() != w.raw().version().as_slice() { bld = bld.version(w.raw().version()); touched += 1 },
                "cell_deps" => if b.raw().cell_deps().as_slice() != w.raw().cell_deps().as_slice() { bld = vec_field!(bld, form, w.raw().cell_deps().into_iter().collect(), set_cell_deps, cell_deps, cell_dep); touched += 1 },
                "header_deps" => if b.raw().header_deps().as_slice() != w.raw().header_deps().as_slice() { bld = vec_field!(bld, form, w.raw().header_deps().into_iter().collect(), set_header_deps, header_deps, header_dep); touched += 1 },
                "inputs" => if b.raw().inputs().as_slice() != w.raw().inputs().as_slice() { bld = vec_field!(bld, form, w.raw().inputs().into_iter().collect(), set_inputs, inputs, input); touched += 1 },
                "outputs" => if b.raw().outputs().as_slice() != w.raw().outputs().as_slice() { bld = vec_field!(bld, form, w.raw().outputs().into_iter().collect(), set_outputs, outputs, output); touched += 1 },
                "outputs_data" => if b.raw().outputs_data().as_slice() != w.raw().outputs_data().as_slice() { bld = vec_field!(bld, form, w.raw().outputs_data().into_iter().collect(), set_outputs_data, outputs_data, output_data); touched += 1 },
                "witnesses" => if b.witnesses().as_slice() != w.witnesses().as_slice() { bld = vec_field!(bld, form, w.witnesses().into_iter().collect(), set_witnesses, witnesses, witness); touched += 1 },
                other => return Err(format!("TransactionBuilder: no setter known for schema field `{other}`")),
            }
        }
        let v = bld.build();
        check_tx_view(&format!("as_advanced_builder + {touched} setter(s) ({form:?})"), &v, want)?;
        last = Some(v);
    }
    Ok(last.unwrap())
}

fn header_via_builder(base: &core::HeaderView, want: &packed::Header) -> Result<core::HeaderView, String> {
    let (b, w) = (base.data(), want.clone());
    let mut bld = base.as_advanced_builder();
    for f in molgen::field_names("RawHeader").unwrap().iter().chain(molgen::field_names("Header").unwrap().iter()) {
        macro_rules! raw_field {
            ($name:ident) => {
                if b.raw().$name().as_slice() != w.raw().$name().as_slice() {
                    bld = bld.$name(w.raw().$name());
                }
            };
        }
        match *f {
            "raw" => {}
            "version" => raw_field!(version),
            "compact_target" => raw_field!(compact_target),
            "timestamp" => raw_field!(timestamp),
            "number" => raw_field!(number),
            "epoch" => raw_field!(epoch),
            "parent_hash" => raw_field!(parent_hash),
            "transactions_root" => raw_field!(transactions_root),
            "proposals_hash" => raw_field!(proposals_hash),
            "extra_hash" => raw_field!(extra_hash),
            "dao" => raw_field!(dao),
            "nonce" => if b.nonce().as_slice() != w.nonce().as_slice() { bld = bld.nonce(w.nonce()) },
            other => return Err(format!("HeaderBuilder: no setter known for schema field `{other}`")),
        }
    }
    let v = bld.build();
    if !same_bytes(v.data().as_slice(), want.as_slice()) {
        return Err("HeaderBuilder: the built header is not the mutated value".into());
    }
    if v.hash() != v.data().calc_header_hash() {
        return Err("HeaderView.hash() is stale after as_advanced_builder + setter + build".into());
    }
    Ok(v)
}

fn check_block_view(what: &str, v: &core::BlockView, want: &packed::Block) -> R {
    if !same_bytes(v.data().as_slice(), want.as_slice()) {
        return Err(format!("{what}: the built block is not the expected value"));
    }
    let fresh = want.clone().into_view_without_reset_header();
    if v.hash() != fresh.hash() || v.hash() != v.data().calc_header_hash() {
        return Err(format!("{what}: BlockView.hash() is stale"));
    }
    if v.tx_hashes() != fresh.tx_hashes() || v.tx_hashes() != &v.data().calc_tx_hashes()[..] {
        return Err(format!("{what}: BlockView.tx_hashes() is stale"));
    }
    if v.tx_witness_hashes() != fresh.tx_witness_hashes() {
        return Err(format!("{what}: BlockView.tx_witness_hashes() is stale"));
    }
    if v.uncle_hashes().as_slice() != fresh.uncle_hashes().as_slice() {
        return Err(format!("{what}: BlockView.uncle_hashes() is stale"));
    }
    if v.calc_transactions_root() != fresh.calc_transactions_root() || v.calc_extra_hash().extra_hash() != fresh.calc_extra_hash().extra_hash()
        || v.calc_proposals_hash() != fresh.calc_proposals_hash() || v.calc_uncles_hash() != fresh.calc_uncles_hash() {
        return Err(format!("{what}: roots computed from the view's caches differ from recomputation"));
    }
    for (i, t) in v.transactions().iter().enumerate() {
        if t.hash() != t.data().calc_tx_hash() || t.witness_hash() != t.data().calc_witness_hash() {
            return Err(format!("{what}: transaction {i} of the view carries a stale hash"));
        }
    }
    for (i, u) in v.uncles().into_iter().enumerate() {
        if u.hash() != u.data().calc_header_hash() {
            return Err(format!("{what}: uncle {i} of the view carries a stale hash"));
        }
    }
    Ok(())
}

fn block_via_builder(base: &packed::Block, want: &packed::Block) -> R {
    let bv = base.clone().into_view_without_reset_header();
    let base_txs = bv.transactions();
    for form in FORMS {
        let mut bld = bv.as_advanced_builder();
        for f in molgen::field_names("BlockV1").unwrap() {
            match *f {
                "header" => {
                    let (bh, wh) = (base.header(), want.header());
                    for hf in molgen::field_names("RawHeader").unwrap().iter().chain(molgen::field_names("Header").unwrap().iter()) {
                        macro_rules! raw_field {
                            ($name:ident) => {
                                if bh.raw().$name().as_slice() != wh.raw().$name().as_slice() {
                                    bld = bld.$name(wh.raw().$name());
                                }
                            };
                        }
                        match *hf {
                            "raw" => {}
                            "version" => raw_field!(version),
                            "compact_target" => raw_field!(compact_target),
                            "timestamp" => raw_field!(timestamp),
                            "number" => raw_field!(number),
                            "epoch" => raw_field!(epoch),
                            "parent_hash" => raw_field!(parent_hash),
                            "transactions_root" => raw_field!(transactions_root),
                            "proposals_hash" => raw_field!(proposals_hash),
                            "extra_hash" => raw_field!(extra_hash),
                            "dao" => raw_field!(dao),
                            "nonce" => if bh.nonce().as_slice() != wh.nonce().as_slice() { bld = bld.nonce(wh.nonce()) },
                            other => return Err(format!("BlockBuilder: no setter known for header field `{other}`")),
                        }
                    }
                }
                "uncles" => if base.uncles().as_slice() != want.uncles().as_slice() {
                    // an uncle view is what BlockView::as_uncle() yields for a block with that header and those proposals
                    let mut us = vec![];
                    for u in want.uncles().into_iter() {
                        let hv = header_via_builder(&base.header().into_view(), &u.header())?;
                        let uv = core::BlockBuilder::default().header(hv).set_proposals(u.proposals().into_iter().collect()).build_unchecked().as_uncle();
                        if !same_bytes(uv.data().as_slice(), u.as_slice()) || uv.hash() != u.calc_header_hash() {
                            return Err("as_uncle(): uncle view differs from the packed uncle / stale hash".into());
                        }
                        us.push(uv);
                    }
                    bld = vec_field!(bld, form, us, set_uncles, uncles, uncle);
                },
                "transactions" => if base.transactions().as_slice() != want.transactions().as_slice() {
                    let mut ts = vec![];
                    for (i, t) in want.transactions().into_iter().enumerate() {
                        // each transaction view is derived from the base block's view of that position where there is one
                        let tv = match base_txs.get(i) {
                            Some(bt) => tx_via_builder(bt, &t)?,
                            None => t.into_view(),
                        };
                        ts.push(tv);
                    }
                    bld = vec_field!(bld, form, ts, set_transactions, transactions, transaction);
                },
                "proposals" => if base.proposals().as_slice() != want.proposals().as_slice() {
                    bld = vec_field!(bld, form, want.proposals().into_iter().collect(), set_proposals, proposals, proposal);
                },
                "extension" => if base.extension().map(|e| e.as_slice().to_vec()) != want.extension().map(|e| e.as_slice().to_vec()) {
                    bld = bld.extension(want.extension());
                },
                other => return Err(format!("BlockBuilder: no setter known for schema field `{other}`")),
            }
        }
        let unchecked = bld.clone().build_unchecked();
        check_block_view(&format!("as_advanced_builder + setters + build_unchecked ({form:?})"), &unchecked, want)?;
        let checked = bld.build();
        check_block_view(&format!("as_advanced_builder + setters + build ({form:?})"), &checked, &want.clone().reset_header())?;
    }
    Ok(())
}

/// HeaderBuilder::build() debug-asserts compact_target > 0 and a well-formed epoch (except for number 0): such headers are
/// outside the builder's domain (a documented precondition, not a hash-cache question)
fn header_buildable(h: &packed::Header) -> bool {
    let raw = h.raw();
    let ct: u32 = raw.compact_target().into();
    let number: u64 = raw.number().into();
    let epoch: core::EpochNumberWithFraction = raw.epoch().into();
    ct > 0 && (number == 0 || epoch.is_well_formed())
}
fn block_buildable(b: &packed::Block) -> bool {
    header_buildable(&b.header()) && b.uncles().into_iter().all(|u| header_buildable(&u.header()))
}

/// Ok(Some(true)): checked; Ok(Some(false)): a header outside HeaderBuilder's domain; Ok(None): the type has no advanced builder
fn builder_checks(ty: &str, base: &[u8], var: &[u8]) -> Result<Option<bool>, String> {
    let ok = match ty {
        "Header" => header_buildable(&packed::Header::from_slice(var).unwrap()),
        "UncleBlock" => header_buildable(&packed::UncleBlock::from_slice(var).unwrap().header()),
        "Block" | "BlockV1" => block_buildable(&block_of(ty, var)) && block_buildable(&block_of(ty, base)),
        _ => true,
    };
    if !ok {
        return Ok(Some(false));
    }
    match ty {
        "Transaction" => {
            let b = packed::Transaction::from_slice(base).unwrap().into_view();
            tx_via_builder(&b, &packed::Transaction::from_slice(var).unwrap())?;
        }
        "Header" => {
            let b = packed::Header::from_slice(base).unwrap().into_view();
            header_via_builder(&b, &packed::Header::from_slice(var).unwrap())?;
        }
        "UncleBlock" => {
            let b = packed::UncleBlock::from_slice(base).unwrap();
            let w = packed::UncleBlock::from_slice(var).unwrap();
            let hv = header_via_builder(&b.header().into_view(), &w.header())?;
            let uv = core::BlockBuilder::default().header(hv).set_proposals(w.proposals().into_iter().collect()).build_unchecked().as_uncle();
            if !same_bytes(uv.data().as_slice(), w.as_slice()) || uv.hash() != w.calc_header_hash() || uv.header().hash() != w.header().calc_header_hash() {
                return Err("UncleBlockView from BlockBuilder + as_uncle(): data or cached hash differ".into());
            }
        }
        "Block" | "BlockV1" => block_via_builder(&block_of(ty, base), &block_of(ty, var))?,
        _ => return Ok(None),
    }
    Ok(Some(true))
}

fn hex(b: &[u8]) -> String {
    b.iter().map(|x| format!("{:02x}", x)).collect()
}

fn guarded<T>(f: impl FnOnce() -> Result<T, String>) -> Result<T, String> {
    match catch_unwind(AssertUnwindSafe(f)) {
        Ok(r) => r,
        Err(p) => Err(format!(
            "PANIC: {}",
            p.downcast_ref::<String>().cloned().or_else(|| p.downcast_ref::<&str>().map(|s| s.to_string())).unwrap_or_default()
        )),
    }
}

struct Tally {
    records: u64,
    json_checked: u64,
    json_skipped_invalid_enum: u64,
    hash_terms: u64,
    moved_pairs: u64,
    moved_nonempty: u64,
    older: u64,
    builder_paths: u64,
    builder_skipped_header_precondition: u64,
    mismatches: u64,
}

fn one(rec: &Value, base: &mut HashMap<String, Vec<(String, Vec<u8>)>>, base_enc: &mut HashMap<String, Vec<u8>>, t: &mut Tally, report: &mut dyn FnMut(&str, String)) {
    let ty = rec["ty"].as_str().expect("ty").to_string();
    let k = rec["k"].as_u64().expect("k");
    let v = &rec["v"];
    let enc = bytes_of(&rec["enc"]);
    // enc: built field by field
    let built = guarded(|| molgen::build(&ty, v).ok_or_else(|| format!("unknown type {ty}")));
    match &built {
        Ok(b) if *b == enc => {}
        Ok(b) => report("enc", format!("as_slice() differs from Enc: real {} spec {}", hex(b), hex(&enc))),
        Err(e) => report("enc", e.clone()),
    }
    // decode: strict and compatible, entity and reader API, every getter
    for compat in [false, true] {
        for reader in [false, true] {
            let r = guarded(|| {
                let d = if reader { molgen::decode_reader(&ty, &enc, compat) } else { molgen::decode(&ty, &enc, compat) };
                d.ok_or_else(|| format!("unknown type {ty}"))
            });
            match r {
                Ok(Ok(back)) if back == *v => {}
                Ok(Ok(back)) => report("decode", format!("compatible={compat} reader={reader}: getters read back {back}")),
                Ok(Err(e)) => report("decode", format!("compatible={compat} reader={reader}: canonical encoding rejected: {e}")),
                Err(e) => report("decode", format!("compatible={compat} reader={reader}: {e}")),
            }
        }
    }
    for o in rec["older"].as_array().expect("older") {
        let o = o.as_str().unwrap();
        t.older += 1;
        let strict = molgen::verify(o, &enc, false).expect("type");
        let comp = molgen::verify(o, &enc, true).expect("type");
        if strict || !comp {
            report("older", format!("as {o}: strict={strict} (spec false) compatible={comp} (spec true)"));
        }
    }
    // hashes
    let terms = rec["hashes"].as_array().expect("hashes");
    let real = guarded(|| real_hashes(&ty, &enc));
    match real {
        Err(e) => report("hash", e),
        Ok(real) => {
            let mut spec: Vec<(String, Vec<u8>)> = vec![];
            for p in terms {
                if let Some(h) = eval_term(&p[1]) {
                    spec.push((p[0].as_str().unwrap().to_string(), h));
                }
            }
            t.hash_terms += spec.len() as u64;
            let rm: HashMap<_, _> = real.iter().cloned().collect();
            let sm: HashMap<_, _> = spec.iter().cloned().collect();
            for (n, h) in &spec {
                match rm.get(n) {
                    Some(r) if r == h => {}
                    Some(r) => report(&format!("hash/{n}"), format!("real {} spec {}", hex(r), hex(h))),
                    None => report(&format!("hash/{n}"), "the real code has no such hash for this value".into()),
                }
            }
            for (n, _) in &real {
                if !sm.contains_key(n) {
                    report(&format!("hash/{n}"), "the specification has no such hash for this value".into());
                }
            }
            if k == 1 {
                base.insert(ty.clone(), real.clone());
            } else if !terms.is_empty() {
                if let Some(b) = base.get(&ty) {
                    let bm: HashMap<_, _> = b.iter().cloned().collect();
                    let mut moved: Vec<String> = vec![];
                    for n in bm.keys().chain(rm.keys()) {
                        if bm.get(n) != rm.get(n) && !moved.contains(n) {
                            moved.push(n.clone());
                        }
                    }
                    moved.sort();
                    let mut want: Vec<String> = rec["moved"].as_array().expect("moved").iter().map(|x| x.as_str().unwrap().to_string()).collect();
                    want.sort();
                    t.moved_pairs += 1;
                    if !want.is_empty() {
                        t.moved_nonempty += 1;
                    }
                    if moved != want {
                        report("moved", format!("path {}: hashes that moved {:?}, the commitment table says {:?}", rec["path"], moved, want));
                    }
                } else {
                    report("moved", "no base value seen for this type".into());
                }
            }
        }
    }
    // view -> advanced builder -> setter(s) -> view, from the base value of the type
    if k == 1 {
        base_enc.insert(ty.clone(), enc.clone());
    }
    if let Some(b) = base_enc.get(&ty) {
        match guarded(|| builder_checks(&ty, b, &enc)) {
            Ok(Some(true)) => t.builder_paths += 1,
            Ok(Some(false)) => t.builder_skipped_header_precondition += 1,
            Ok(None) => {}
            Err(e) => report("builder", e),
        }
    }
    // json + views
    match guarded(|| json_checks(&ty, &enc)) {
        Ok(true) => t.json_checked += 1,
        Ok(false) => {
            if matches!(ty.as_str(), "Script" | "CellOutput" | "CellDep" | "Transaction" | "Block" | "BlockV1" | "Alert") {
                t.json_skipped_invalid_enum += 1
            }
        }
        Err(e) => report("json", e),
    }
}

fn values(args: &[String]) {
    let input = opt(args, "--in").expect("--in");
    let text = std::fs::read_to_string(input).expect("read input");
    let mut base = HashMap::new();
    let mut base_enc = HashMap::new();
    let mut t = Tally { records: 0, json_checked: 0, json_skipped_invalid_enum: 0, hash_terms: 0, moved_pairs: 0, moved_nonempty: 0, older: 0, builder_paths: 0, builder_skipped_header_precondition: 0, mismatches: 0 };
    let out = std::io::stdout();
    std::panic::set_hook(Box::new(|_| {}));
    for line in text.lines() {
        if line.trim().is_empty() {
            continue;
        }
        let rec: Value = serde_json::from_str(line).expect("record");
        t.records += 1;
        let mut found: Vec<(String, String)> = vec![];
        {
            let mut report = |kind: &str, detail: String| found.push((kind.to_string(), detail));
            one(&rec, &mut base, &mut base_enc, &mut t, &mut report);
        }
        for (kind, detail) in found {
            t.mismatches += 1;
            let mut o = out.lock();
            let _ = writeln!(o, "{}", json!({"mismatch": {"ty": rec["ty"], "k": rec["k"], "path": rec["path"], "kind": kind, "detail": detail}}));
        }
    }
    println!(
        "{}",
        json!({"summary": {"records": t.records, "json_checked": t.json_checked, "json_skipped_invalid_enum": t.json_skipped_invalid_enum,
            "hash_terms": t.hash_terms, "moved_pairs": t.moved_pairs, "moved_nonempty": t.moved_nonempty, "older": t.older, "builder_paths": t.builder_paths, "builder_skipped_header_precondition": t.builder_skipped_header_precondition, "mismatches": t.mismatches}})
    );
}

fn main() {
    let args: Vec<String> = std::env::args().collect();
    let rest = &args[2.min(args.len())..];
    match args.get(1).map(|s| s.as_str()) {
        Some("values") => values(rest),
        _ => {
            eprintln!("usage: c15 values --in <ndjson>");
            std::process::exit(2);
        }
    }
}
