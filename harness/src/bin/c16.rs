//! C16 — bytes from peers can be rejected but never crash the node or forge a block.
//!
//! `c16 buffers --in <csv> --types a,b,c`   every byte string of the exhaustive small-buffer model (MC_MolBuf) with the
//!     specification's strict/compatible verdict per small real type: the real verdicts must agree (strict: equal;
//!     compatible: a well-formed string must be accepted), every accepted string is walked through every generated
//!     getter (entity and reader API) under catch_unwind, strict-accepted strings are rebuilt field by field into the
//!     same bytes.
//! `c16 mutations --in <ndjson>`            valid encodings of the protocol messages and their single-word corruptions /
//!     truncations / extensions with the specification's verdicts: same comparison, then for every accepted buffer the
//!     deep battery: getters, into_view, hash functions, context-free verifiers.
//! `c16 reconstruct --in <ndjson>`          compact-block reconstruction cases of CompactBlock.tla on the real
//!     Relayer::reconstruct_block + CompactBlockVerifier / BlockTransactionsVerifier / BlockUnclesVerifier.
#[path = "../molgen.rs"]
mod molgen;
#[path = "../c16_relay.rs"]
mod relay;

use ckb_types::{packed, prelude::*};
use ckbv::util::{flag, opt};
use serde_json::{Value, json};
use std::io::Write;
use std::panic::{AssertUnwindSafe, catch_unwind};

fn panic_text(p: Box<dyn std::any::Any + Send>) -> String {
    p.downcast_ref::<String>().cloned().or_else(|| p.downcast_ref::<&str>().map(|s| s.to_string())).unwrap_or_else(|| "panic".into())
}
pub fn guarded<T>(f: impl FnOnce() -> T) -> Result<T, String> {
    catch_unwind(AssertUnwindSafe(f)).map_err(panic_text)
}
fn hex(b: &[u8]) -> String {
    b.iter().map(|x| format!("{:02x}", x)).collect()
}

/// one (type, buffer) judged against the specification's verdict code (strict + 2 * compatible)
/// returns the list of (kind, detail) findings and whether something was accepted
fn judge(ty: &str, buf: &[u8], code: u64, strict_only: bool, deep: bool) -> (Vec<(String, String)>, bool, bool) {
    let mut found = vec![];
    let spec_strict = code % 2 == 1;
    let spec_compat = code >= 2;
    let real_strict = match guarded(|| molgen::verify(ty, buf, false).expect("type")) {
        Ok(v) => v,
        Err(p) => {
            found.push(("panic/verify-strict".to_string(), p));
            return (found, false, false);
        }
    };
    if real_strict != spec_strict {
        found.push((
            if real_strict { "strict-accepts-malformed" } else { "strict-rejects-wellformed" }.to_string(),
            format!("from_slice verdict {real_strict}, specification {spec_strict}"),
        ));
    }
    let mut real_compat = false;
    if !strict_only {
        real_compat = match guarded(|| molgen::verify(ty, buf, true).expect("type")) {
            Ok(v) => v,
            Err(p) => {
                found.push(("panic/verify-compatible".to_string(), p));
                return (found, real_strict, false);
            }
        };
        if spec_compat && !real_compat {
            found.push(("compatible-rejects-wellformed".to_string(), "from_compatible_slice rejects a well-formed encoding".into()));
        }
        if real_strict && !real_compat {
            found.push(("compatible-stricter-than-strict".to_string(), "accepted strictly but not compatibly".into()));
        }
    }
    // every getter on every accepted reading
    for (compat, accepted) in [(false, real_strict), (true, real_compat)] {
        if !accepted {
            continue;
        }
        for reader in [false, true] {
            let r = guarded(|| if reader { molgen::decode_reader(ty, buf, compat) } else { molgen::decode(ty, buf, compat) });
            match r {
                Err(p) => found.push((format!("panic/getters-{}", if compat { "compatible" } else { "strict" }), format!("reader_api={reader}: {p}"))),
                Ok(Some(Ok(val))) => {
                    if !compat && !reader {
                        // canonicity on the real code: rebuilding field by field reproduces the bytes
                        match guarded(|| molgen::build(ty, &val)) {
                            Ok(Some(b)) if b == buf => {}
                            Ok(Some(b)) => found.push(("noncanonical-accepted".to_string(), format!("rebuilt {} from accepted {}", hex(&b), hex(buf)))),
                            Ok(None) => {}
                            Err(p) => found.push(("panic/rebuild".to_string(), p)),
                        }
                    }
                }
                Ok(Some(Err(e))) => found.push(("verify-decode-disagree".to_string(), format!("verify accepted but decoding failed: {e}"))),
                Ok(None) => {}
            }
        }
        if deep {
            if let Err(p) = guarded(|| relay::deep_battery(ty, buf, compat)) {
                found.push((format!("panic/deep-{}", if compat { "compatible" } else { "strict" }), p));
            }
        }
    }
    (found, real_strict, real_compat)
}

fn parse_tuple(s: &str) -> Vec<u64> {
    s.trim().trim_start_matches("<<").trim_end_matches(">>").split(',').filter_map(|x| x.trim().parse().ok()).collect()
}

fn buffers(args: &[String]) {
    let input = opt(args, "--in").expect("--in");
    let types: Vec<String> = opt(args, "--types").expect("--types").split(',').map(|s| s.to_string()).collect();
    let strict_only = flag(args, "--strict-only");
    let text = std::fs::read_to_string(input).expect("read input");
    std::panic::set_hook(Box::new(|_| {}));
    let out = std::io::stdout();
    let (mut n, mut bad, mut pairs, mut lenient) = (0u64, 0u64, 0u64, 0u64);
    let mut acc_strict = vec![0u64; types.len()];
    let mut acc_compat_only = vec![0u64; types.len()];
    for line in text.lines() {
        let Some((b, c)) = line.split_once(';') else { continue };
        let buf: Vec<u8> = parse_tuple(b).into_iter().map(|x| x as u8).collect();
        let codes = parse_tuple(c);
        assert_eq!(codes.len(), types.len(), "verdict codes per type");
        n += 1;
        for (i, ty) in types.iter().enumerate() {
            pairs += 1;
            let (found, rs, rc) = judge(ty, &buf, codes[i], strict_only, false);
            if rs {
                acc_strict[i] += 1;
            }
            if rc && !rs {
                acc_compat_only[i] += 1;
            }
            if rc && codes[i] < 2 {
                lenient += 1;
            }
            for (kind, detail) in found {
                bad += 1;
                let mut o = out.lock();
                let _ = writeln!(o, "{}", json!({"mismatch": {"ty": ty, "kind": kind, "detail": detail, "buf": buf, "code": codes[i]}}));
            }
        }
    }
    println!(
        "{}",
        json!({"summary": {"buffers": n, "pairs": pairs, "mismatches": bad, "compat_lenient": lenient,
            "accepted_strict": types.iter().cloned().zip(acc_strict).collect::<std::collections::BTreeMap<_, _>>(),
            "accepted_compat_only": types.iter().cloned().zip(acc_compat_only).collect::<std::collections::BTreeMap<_, _>>()}})
    );
}

fn mutations(args: &[String]) {
    let input = opt(args, "--in").expect("--in");
    let text = std::fs::read_to_string(input).expect("read input");
    std::panic::set_hook(Box::new(|_| {}));
    let out = std::io::stdout();
    let (mut n, mut bad, mut acc_s, mut acc_c, mut lenient) = (0u64, 0u64, 0u64, 0u64, 0u64);
    for line in text.lines() {
        if line.trim().is_empty() {
            continue;
        }
        let rec: Value = serde_json::from_str(line).expect("record");
        let ty = rec["ty"].as_str().unwrap();
        let buf: Vec<u8> = rec["buf"].as_array().unwrap().iter().map(|x| x.as_u64().unwrap() as u8).collect();
        let code = rec["code"].as_u64().unwrap();
        n += 1;
        let (found, rs, rc) = judge(ty, &buf, code, false, true);
        if rs {
            acc_s += 1;
        }
        if rc {
            acc_c += 1;
        }
        if rc && code < 2 {
            lenient += 1;
        }
        for (kind, detail) in found {
            bad += 1;
            let mut o = out.lock();
            let _ = writeln!(o, "{}", json!({"mismatch": {"ty": ty, "id": rec["id"], "kind": kind, "detail": detail, "mut": rec["mut"]}}));
        }
    }
    println!("{}", json!({"summary": {"buffers": n, "mismatches": bad, "accepted_strict": acc_s, "accepted_compatible": acc_c, "compat_lenient": lenient}}));
}

fn main() {
    let args: Vec<String> = std::env::args().collect();
    let rest = &args[2.min(args.len())..];
    match args.get(1).map(|s| s.as_str()) {
        Some("buffers") => buffers(rest),
        Some("mutations") => mutations(rest),
        Some("reconstruct") => relay::reconstruct(rest),
        _ => {
            eprintln!("usage: c16 buffers|mutations|reconstruct ...");
            std::process::exit(2);
        }
    }
    let _ = packed::Byte32::zero().as_slice();
    std::process::exit(0);
}
