//! C14 — differential binding of spec/Caches.tla: every complete history exported by TLC (MC_Caches, EmitHist) is
//! executed on three real nodes
//!   A  default cache sizes, cold;  E  every read cache independently off / one entry / default (drawn from the history id);
//!   B  every StoreConfig cache size 0 and the tx-verification cache emptied before every step (the cache-free node);
//!   C  default sizes, warm: every transaction variant was submitted to the pool before the history (and removed again,
//!      the verification cache keeps the results) and every query is issued twice;
//! and after every step the verdict, the recorded cycles / fees (pool entry, BlockExt) and the full query vector of
//! every block delivered so far (kept or rejected-and-deleted), the transactions and their cells are printed. The python
//! side compares each log with the cache-free expectation of the spec and the three logs with each other.
//!
//! World: m1..m4 (tx0 creates a code cell holding `exec_caller_from_witness`, a cell E locked by it, a cell S); W spends E
//! and runs the program in its witness: variant wa = `exec_callee` (passes), wb = `always_failure` (fails) — same tx hash,
//! different witness hash; S spends S-cell with since = absolute block number 6. Branches X / Y from m4.
use ckb_app_config::StoreConfig;
use ckb_store::ChainStore;
use ckb_types::core::{BlockView, Capacity, DepType, ScriptHashType, TransactionBuilder, TransactionView};
use ckb_types::packed::{self, Byte32, CellDep, CellInput, CellOutput, OutPoint};
use ckb_types::prelude::*;
use ckb_types::bytes::Bytes;
use ckbv::fixture::*;
use ckbv::util::{opt, opt_u64};
use serde_json::{json, Map, Value};
use std::collections::{BTreeMap, HashMap};
use std::hash::Hasher;
use std::panic::{catch_unwind, AssertUnwindSafe};

const CKB: u64 = 100_000_000;

struct World {
    c: ckb_chain_spec::consensus::Consensus,
    prefix: Vec<BlockView>,
    tx0: TransactionView,
    wa: TransactionView,
    wb: TransactionView,
    s: TransactionView,
    /// spends output 0 of the cellbase of block 6 with since = 0 (cellbase maturity = 4 blocks: mature from height 10)
    m: TransactionView,
    /// (branch, contents of the valid blocks below, content) -> block
    memo: HashMap<(String, Vec<String>, String), BlockView>,
}

fn testdata(name: &str) -> Bytes {
    Bytes::from(std::fs::read(format!("/repo/script/testdata/{name}")).unwrap_or_else(|e| panic!("testdata {name}: {e}")))
}

impl World {
    fn new() -> World {
        // window (2,4): cellbases carry an output from block 6 on; cellbase maturity 4/1000 epoch = 4 blocks.
        // The specification's heights 5, 6, 7 are the real heights 9, 10, 11 (prefix m1..m8), SinceAt 6 = height 10.
        let p = Params {
            epoch_len: 1000,
            window: (2, 4),
            genesis_cells: 4,
            cellbase_maturity: ckb_types::core::EpochNumberWithFraction::new(0, 4, 1000),
            ..Default::default()
        };
        let mut c = consensus(&p);
        // every hard fork active from epoch 0 (script version selection is then context-independent; exec needs VM 1)
        c.hardfork_switch = ckb_types::core::hardfork::HardForks::new_dev();
        let caller = testdata("exec_caller_from_witness");
        let code_hash = CellOutput::calc_data_hash(&caller);
        let e_lock = packed::Script::new_builder().code_hash(code_hash).hash_type(ScriptHashType::Data1).build();
        let cap = |n: u64| Capacity::shannons(n * CKB);
        let tx0 = TransactionBuilder::default()
            .cell_dep(always_success_dep(&c))
            .input(CellInput::new(genesis_cell(&c, 0), 0))
            .output(CellOutput::new_builder().capacity(cap(3000)).lock(lock()).build())
            .output_data(caller)
            .output(CellOutput::new_builder().capacity(cap(1000)).lock(e_lock).build())
            .output_data(Bytes::new())
            .output(CellOutput::new_builder().capacity(cap(1000)).lock(lock()).build())
            .output_data(Bytes::new())
            .output(CellOutput::new_builder().capacity(cap(44_999)).lock(lock()).build())
            .output_data(Bytes::new())
            .build();
        let w = |witness: Bytes| {
            TransactionBuilder::default()
                .cell_dep(CellDep::new_builder().out_point(OutPoint::new(tx0.hash(), 0)).dep_type(DepType::Code).build())
                .input(CellInput::new(OutPoint::new(tx0.hash(), 1), 0))
                .output(CellOutput::new_builder().capacity(cap(999)).lock(lock()).build())
                .output_data(Bytes::new())
                .witness(witness.pack())
                .build()
        };
        let wa = w(testdata("exec_callee"));
        let wb = w(testdata("always_failure"));
        assert_eq!(wa.hash(), wb.hash());
        assert_ne!(wa.witness_hash(), wb.witness_hash());
        let s = TransactionBuilder::default()
            .cell_dep(always_success_dep(&c))
            .input(CellInput::new(OutPoint::new(tx0.hash(), 2), 10)) // absolute block number 10
            .output(CellOutput::new_builder().capacity(cap(998)).lock(lock()).build())
            .output_data(Bytes::new())
            .build();
        let g = Node::start(&NodeCfg { assembler: false, ..NodeCfg::temp(&c) });
        let mut prefix = vec![];
        let mut m: Option<TransactionView> = None;
        for h in 1..=8u64 {
            let mut sp = BlockSpec { nonce: h, ..Default::default() };
            match h {
                1 => sp.proposals = vec![tx0.proposal_short_id()],
                3 => sp.commits = vec![tx0.clone()],
                7 => sp.proposals = vec![wa.proposal_short_id(), s.proposal_short_id(), m.as_ref().unwrap().proposal_short_id()],
                _ => {}
            }
            let b = assemble(&g, &sp).expect("assemble prefix");
            g.process(&b).expect("prefix block");
            if h == 6 {
                let cb = b.transactions()[0].clone();
                assert!(!cb.outputs().is_empty(), "cellbase of block 6 has no output");
                let cbcap: u64 = cb.outputs().get(0).unwrap().capacity().unpack();
                m = Some(spend(&c, &[OutPoint::new(cb.hash(), 0)], cbcap, 1, 900, 0));
            }
            prefix.push(b);
        }
        let m = m.unwrap();
        drop(g);
        World { c, prefix, tx0, wa, wb, s, m, memo: HashMap::new() }
    }

    fn tx(&self, v: &str) -> &TransactionView {
        match v {
            "wa" => &self.wa,
            "wb" => &self.wb,
            "s" => &self.s,
            "m" => &self.m,
            _ => panic!("variant {v}"),
        }
    }

    /// block of branch `g` on top of the valid blocks with contents `below`, committing `content`
    fn block(&mut self, g: &str, below: &[String], content: &str) -> BlockView {
        let key = (g.to_string(), below.to_vec(), content.to_string());
        if let Some(b) = self.memo.get(&key) {
            return b.clone();
        }
        // one builder node per valid prefix: build all four candidate children at once, then drop it
        let mut anc = self.prefix.clone();
        for i in 0..below.len() {
            anc.push(self.memo[&(g.to_string(), below[..i].to_vec(), below[i].clone())].clone());
        }
        // ancestors may be invalid-but-stored blocks (verification is deferred for a branch that is not longer)
        let m = Node::start(&NodeCfg { assembler: false, ..NodeCfg::temp(&self.c) });
        for b in &anc {
            m.process_unchecked(b).expect("builder node rejects an ancestor");
        }
        let base = if g == "X" { 100 } else { 200 };
        for c in ["none", "wa", "wb", "s", "m"] {
            let commits = if c == "none" { vec![] } else { vec![self.tx(c).clone()] };
            let spec = BlockSpec { commits, nonce: base + below.len() as u64, ..Default::default() };
            // a content whose input is already spent on this branch cannot even be assembled: commit it "raw" on a
            // block without it being resolvable is impossible, so such a block is represented by its verdict only
            if let Ok(b) = assemble(&m, &spec) {
                self.memo.insert((g.to_string(), below.to_vec(), c.to_string()), b);
            } else {
                // the input is already spent on this branch: the empty sibling with the transaction added by hand
                // (roots recomputed; the block fails at input resolution before anything else is looked at)
                let empty = self.memo[&(g.to_string(), below.to_vec(), "none".to_string())].clone();
                let b = empty.as_advanced_builder().transaction(self.tx(c).clone()).build();
                self.memo.insert((g.to_string(), below.to_vec(), c.to_string()), b);
            }
        }
        drop(m);
        self.memo.get(&key).cloned().unwrap_or_else(|| panic!("cannot assemble {key:?}"))
    }
}

/// Run `f`, then delete the RocksDB directories of the temp-db nodes it started and dropped: SharedBuilder::with_temp_db
/// keeps every database of the process under one never-dropped TempDir (`$TMPDIR/.tmpXXXX/db_<n>`, 75 MB of preallocated
/// WAL each), so they would pile up until the process ends. No node is alive between two calls.
fn with_tmp<T>(_tag: &str, f: impl FnOnce() -> T) -> T {
    let r = f();
    if let Ok(rd) = std::fs::read_dir(std::env::temp_dir()) {
        for e in rd.flatten() {
            if e.file_name().to_string_lossy().starts_with(".tmp") && e.path().is_dir() {
                if let Ok(inner) = std::fs::read_dir(e.path()) {
                    for d in inner.flatten() {
                        if d.file_name().to_string_lossy().starts_with("db_") {
                            let _ = std::fs::remove_dir_all(d.path());
                        }
                    }
                }
            }
        }
    }
    r
}

fn dig(bytes: &[u8]) -> String {
    let mut h = std::collections::hash_map::DefaultHasher::new();
    h.write(bytes);
    format!("{}:{:012x}", bytes.len(), h.finish() & 0xffff_ffff_ffff)
}
fn q(f: impl FnOnce() -> String) -> String {
    match catch_unwind(AssertUnwindSafe(f)) {
        Ok(s) => s,
        Err(_) => "PANIC".to_string(),
    }
}
fn opt_s<T>(o: Option<T>, f: impl FnOnce(T) -> String) -> String {
    match o {
        Some(x) => format!("Some({})", f(x)),
        None => "None".to_string(),
    }
}

fn block_answers<S: ChainStore>(st: &S, label: &str, h: &Byte32, out: &mut BTreeMap<String, String>) {
    let mut put = |g: &str, v: String| {
        out.insert(format!("{g}|{label}"), v);
    };
    put("block_exists", q(|| format!("{}", st.block_exists(h))));
    put("get_block_header", q(|| opt_s(st.get_block_header(h), |x| format!("{:x}", x.hash()))));
    put("get_block", q(|| opt_s(st.get_block(h), |b| format!("{:x}/{}", b.hash(), dig(b.data().as_slice())))));
    put("get_packed_block", q(|| opt_s(st.get_packed_block(h), |b| dig(b.as_slice()))));
    put("get_packed_block_header", q(|| opt_s(st.get_packed_block_header(h), |x| dig(x.as_slice()))));
    put("get_block_body", q(|| format!("{}", st.get_block_body(h).len())));
    put("get_block_txs_hashes", q(|| format!("{}", st.get_block_txs_hashes(h).len())));
    put("get_cellbase", q(|| opt_s(st.get_cellbase(h), |t| dig(t.data().as_slice()))));
    put("get_block_uncles", q(|| opt_s(st.get_block_uncles(h), |u| dig(u.data().as_slice()))));
    put("get_block_proposal_txs_ids", q(|| opt_s(st.get_block_proposal_txs_ids(h), |p| dig(p.as_slice()))));
    put("get_block_extension", q(|| opt_s(st.get_block_extension(h), |e| dig(e.as_slice()))));
    put("get_block_number", q(|| format!("{:?}", st.get_block_number(h))));
    put("is_main_chain", q(|| format!("{}", st.is_main_chain(h))));
    put(
        "get_block_ext",
        q(|| opt_s(st.get_block_ext(h), |e| format!("verified={:?} cycles={:?} fees={:?}", e.verified, e.cycles, e.txs_fees.iter().map(|f| f.as_u64()).collect::<Vec<_>>()))),
    );
}

fn observe(n: &Node, w: &World, delivered: &[(String, BlockView)]) -> BTreeMap<String, String> {
    let st = n.shared.store();
    let mut out = BTreeMap::new();
    for (i, b) in w.prefix.iter().enumerate() {
        block_answers(st, &format!("m{}", i + 1), &b.hash(), &mut out);
    }
    for (label, b) in delivered {
        block_answers(st, label, &b.hash(), &mut out);
    }
    let unknown: Byte32 = [0xABu8; 32].pack();
    block_answers(st, "absent", &unknown, &mut out);
    for (name, tx) in [("tx0", &w.tx0), ("W", &w.wa), ("S", &w.s), ("M", &w.m)] {
        let th = tx.hash();
        out.insert(
            format!("get_transaction|{name}"),
            q(|| opt_s(st.get_transaction(&th), |(t, bh)| format!("{:x}/{}/{:x}", bh, dig(t.data().as_slice()), t.witness_hash()))),
        );
        out.insert(format!("get_transaction_info|{name}"), q(|| opt_s(st.get_transaction_info(&th), |i| format!("{:x}/{}/{}", i.block_hash, i.block_number, i.index))));
        for o in 0..tx.outputs().len() {
            let op = OutPoint::new(th.clone(), o as u32);
            out.insert(format!("get_cell|{name}.{o}"), q(|| opt_s(st.get_cell(&op), |m| format!("{}/{}", dig(m.cell_output.as_slice()), m.data_bytes))));
            out.insert(format!("get_cell_data|{name}.{o}"), q(|| opt_s(st.get_cell_data(&op), |(d, h)| format!("{}/{:x}", dig(&d), h))));
            out.insert(format!("get_cell_data_hash|{name}.{o}"), q(|| opt_s(st.get_cell_data_hash(&op), |h| format!("{:x}", h))));
        }
    }
    let tip = n.tip();
    out.insert("tip|chain".into(), format!("{}/{:x}", tip.0, tip.1));
    // by-number answers of the canonical chain (number -> hash index, ancestor walk from the tip): a read cache in front of
    // them must follow every reorganisation, completed or abandoned
    let snap = n.shared.snapshot();
    for num in 0..=16u64 {
        out.insert(format!("get_block_hash|#{num}"), q(|| opt_s(st.get_block_hash(num), |h| format!("{:x}", h))));
        out.insert(format!("snapshot_get_block_hash|#{num}"), q(|| opt_s(snap.get_block_hash(num), |h| format!("{:x}", h))));
        out.insert(format!("get_ancestor|#{num}"), q(|| opt_s(snap.get_ancestor(&tip.1, num), |h| format!("{:x}", h.hash()))));
    }
    out
}

fn zero_cfg() -> StoreConfig {
    StoreConfig { header_cache_size: 0, cell_data_cache_size: 0, block_proposals_cache_size: 0, block_tx_hashes_cache_size: 0, block_uncles_cache_size: 0, block_extensions_cache_size: 0, freezer_enable: false }
}
fn one_cfg() -> StoreConfig {
    StoreConfig { header_cache_size: 1, cell_data_cache_size: 1, block_proposals_cache_size: 1, block_tx_hashes_cache_size: 1, block_uncles_cache_size: 1, block_extensions_cache_size: 1, freezer_enable: false }
}

/// mixed configuration: every read cache independently off / one entry / default size, drawn from the history id
fn mixed_cfg(hid: u64) -> StoreConfig {
    let d = StoreConfig::default();
    let pick = |i: u32, dflt: usize| -> usize {
        match (hid / 3u64.pow(i)) % 3 {
            0 => 0,
            1 => 1,
            _ => dflt,
        }
    };
    StoreConfig {
        header_cache_size: pick(0, d.header_cache_size),
        cell_data_cache_size: pick(1, d.cell_data_cache_size),
        block_proposals_cache_size: pick(2, d.block_proposals_cache_size),
        block_tx_hashes_cache_size: pick(3, d.block_tx_hashes_cache_size),
        block_uncles_cache_size: pick(4, d.block_uncles_cache_size),
        block_extensions_cache_size: pick(5, d.block_extensions_cache_size),
        freezer_enable: false,
    }
}

fn class_of(err: &str) -> &'static str {
    if err.contains("Immatur") {
        "immature"
    } else if err.contains("Dead") || err.contains("Unknown(") || err.contains("Unknown ") {
        "dead"
    } else if err.contains("Script") || err.contains("script") || err.contains("ValidationFailure") {
        "script"
    } else if err.contains("Duplicated") {
        "duplicate"
    } else {
        "other"
    }
}

fn pool_entry(n: &Node, tx: &TransactionView) -> String {
    match n.shared.tx_pool_controller().get_all_entry_info() {
        Ok(info) => {
            let e = info.pending.get(&tx.hash()).or_else(|| info.proposed.get(&tx.hash()));
            opt_s(e, |e| format!("cycles={} fee={} size={}", e.cycles, e.fee.as_u64(), e.size))
        }
        Err(e) => format!("ERR {e}"),
    }
}

fn clear_vcache(n: &Node) {
    n.shared.txs_verify_cache().blocking_write().clear();
}
fn vcache_len(n: &Node) -> usize {
    n.shared.txs_verify_cache().blocking_read().len()
}

/// run one history on one node kind; returns the log of the steps
fn run_history(w: &mut World, kind: &str, hist: &[Value], hid: u64) -> Value {
    let store = match kind {
        "B" => Some(zero_cfg()),
        "D" => Some(one_cfg()),
        "E" => Some(mixed_cfg(hid)),
        _ => None,
    };
    let n = Node::start(&NodeCfg { assembler: false, store, ..NodeCfg::temp(&w.c) });
    for b in &w.prefix.clone() {
        n.process(b).expect("prefix");
    }
    n.wait_pool_synced();
    let mut warm_hits = 0;
    if kind == "C" {
        for v in ["wa", "wb", "s", "m"] {
            let tx = w.tx(v).clone();
            if let Ok(Ok(_)) = n.shared.tx_pool_controller().submit_local_tx(tx.clone()) {
                let _ = n.shared.tx_pool_controller().remove_local_tx(tx.hash());
            }
        }
        warm_hits = vcache_len(&n);
    }
    let mut steps = vec![];
    let mut below: HashMap<String, Vec<String>> = HashMap::new();
    let mut delivered: Vec<(String, BlockView)> = vec![];
    steps.push(json!({"k": "init", "answers": to_json(&observe(&n, w, &delivered)), "vcache": vcache_len(&n)}));
    for st in hist {
        if kind == "B" {
            clear_vcache(&n);
        }
        let v = st["v"].as_str().unwrap().to_string();
        let mut rec = Map::new();
        rec.insert("k".into(), st["k"].clone());
        rec.insert("v".into(), json!(v));
        let vc_before = vcache_len(&n);
        rec.insert("m_cached".into(), json!(n.shared.txs_verify_cache().blocking_read().peek(&w.m.witness_hash()).is_some()));
        if st["k"] == "pool" {
            let tx = w.tx(&v).clone();
            let key_cached = n.shared.txs_verify_cache().blocking_read().peek(&tx.witness_hash()).is_some();
            let r = n.shared.tx_pool_controller().submit_local_tx(tx.clone());
            let (verdict, class, text) = match r {
                Ok(Ok(_)) => ("ok", "ok", String::new()),
                Ok(Err(e)) => ("reject", class_of(&format!("{e:?} {e}")), format!("{e}")),
                Err(e) => ("error", "other", format!("{e}")),
            };
            n.wait_pool_synced();
            rec.insert("verdict".into(), json!(verdict));
            rec.insert("class".into(), json!(class));
            rec.insert("text".into(), json!(text.chars().take(160).collect::<String>()));
            rec.insert("entry".into(), json!(pool_entry(&n, &tx)));
            rec.insert("vhit".into(), json!(key_cached));
        } else {
            let g = st["g"].as_str().unwrap().to_string();
            let h = st["h"].as_u64().unwrap();
            let bl = below.entry(g.clone()).or_default().clone();
            // the block as the specification describes it; a content that is dead on this branch cannot be assembled
            let exp = st["verdict"].as_str().unwrap();
            let block = catch_unwind(AssertUnwindSafe(|| w.block(&g, &bl, &v)));
            match block {
                Ok(b) => {
                    let key_cached = v != "none" && n.shared.txs_verify_cache().blocking_read().peek(&w.tx(&v).witness_hash()).is_some();
                    let r = n.process(&b);
                    n.quiesce();
                    n.wait_pool_synced();
                    let (verdict, class, text) = match &r {
                        Ok(_) => ("ok", "ok", String::new()),
                        Err(e) => ("reject", class_of(e), e.clone()),
                    };
                    rec.insert("verdict".into(), json!(verdict));
                    rec.insert("class".into(), json!(class));
                    rec.insert("text".into(), json!(text.chars().take(160).collect::<String>()));
                    rec.insert("vhit".into(), json!(key_cached));
                    let label = format!("{g}{h}{}", if r.is_ok() { "" } else { "!" });
                    delivered.push((label, b));
                    if r.is_ok() {
                        below.get_mut(&g).unwrap().push(v.clone());
                    }
                }
                Err(_) => {
                    // only legal when the spec says the content is dead on this branch
                    rec.insert("verdict".into(), json!(if exp == "dead" { "reject" } else { "unbuildable" }));
                    rec.insert("class".into(), json!(if exp == "dead" { "dead" } else { "unbuildable" }));
                    rec.insert("skipped".into(), json!(true));
                }
            }
        }
        let a1 = observe(&n, w, &delivered);
        if kind == "C" {
            let a2 = observe(&n, w, &delivered);
            rec.insert("second_query_equal".into(), json!(a1 == a2));
        }
        rec.insert("answers".into(), to_json(&a1));
        rec.insert("vcache_grew".into(), json!(vcache_len(&n) > vc_before));
        steps.push(Value::Object(rec));
    }
    drop(n);
    json!({"node": kind, "warm_entries": warm_hits, "steps": steps})
}

fn to_json(m: &BTreeMap<String, String>) -> Value {
    Value::Object(m.iter().map(|(k, v)| (k.clone(), Value::String(v.clone()))).collect::<Map<_, _>>())
}

/// `c14 replay --in <histories.ndjson> [--nodes ABC]`: one line per history: {"id":.., "hist":[...]}
fn replay(args: &[String]) {
    let ft = ckb_systemtime::faketime();
    ft.set_faketime(GENESIS_TS + 1000 * BLOCK_INTERVAL_MS);
    let input = opt(args, "--in").expect("--in");
    let nodes = opt(args, "--nodes").unwrap_or("ABC").to_string();
    let _ = opt_u64(args, "--seed", 1);
    let mut w = with_tmp("world", World::new);
    let text = std::fs::read_to_string(input).unwrap();
    let mut n = 0;
    for line in text.lines() {
        if line.trim().is_empty() {
            continue;
        }
        let rec: Value = serde_json::from_str(line).unwrap();
        let hist = rec["hist"].as_array().unwrap().clone();
        let mut logs = vec![];
        for kind in nodes.chars() {
            logs.push(with_tmp("hist", || run_history(&mut w, &kind.to_string(), &hist, rec["id"].as_u64().unwrap_or(n as u64))));
        }
        println!("{}", json!({"history": {"id": rec["id"], "hist": hist, "logs": logs}}));
        n += 1;
    }
    println!("{}", json!({"summary": {"histories": n, "nodes": nodes, "blocks_built": w.memo.len()}}));
    use std::io::Write;
    std::io::stdout().flush().unwrap();
    std::process::exit(0);
}

fn main() {
    let args: Vec<String> = std::env::args().collect();
    let rest = &args[2.min(args.len())..];
    match args.get(1).map(|s| s.as_str()) {
        Some("replay") => replay(rest),
        _ => {
            eprintln!("usage: c14 replay --in <histories.ndjson> [--nodes ABC]");
            std::process::exit(2);
        }
    }
}
