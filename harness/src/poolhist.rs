//! The reorg-heavy random history shared by the C12 and C13 bindings (see bin/c12.rs for the description); with
//! `probes` the world also requests block templates at many moments and has each judged (poolfix::probe_template).
use crate::poolfix::*;
use crate::util::{opt_u64, Rng};
use serde_json::{json, Value};

pub fn profile(p: u64) -> Scn {
    let mut s = Scn::default();
    if p == 4 {
        // tiny epochs (permanent difficulty): uncle candidates of one epoch meet templates of the next
        s.mine = true;
        s.window = (2, 4);
        s.epoch_len = 6;
        return s;
    }
    if p == 8 {
        // tiny epochs under REAL difficulty adjustment: a reorganisation across an epoch boundary derives another next epoch
        // (length, target) than the abandoned branch did; templates are taken right after it
        s.mine = true;
        s.window = (2, 4);
        s.epoch_len = 4;
        s.adjust = true;
        return s;
    }
    if p == 5 || p == 6 {
        // tight consensus limits: a block holds the cellbase and about three transactions (cycles: 3 x 537 <= 1700 < 4 x 537;
        // bytes: ~480 of header / cellbase / extension + 3-4 transactions), three proposals - templates are taken while the
        // pool holds more than fits, so the assembler's size / cycle / proposal accounting decides what goes in
        s.mine = true;
        s.window = (2, 4);
        // 5: the cycle limit binds (three transactions), 6: the byte limit binds (uncles take 228 bytes each)
        s.max_block_bytes = Some(if p == 5 { 2600 } else { 1500 });
        s.max_block_cycles = if p == 5 { Some(1700) } else { None };
        s.max_proposals = 3;
        s.genesis_cells = 16;
        return s;
    }
    if p == 7 {
        // proposal-bound: byte limit as in profile 6 but no proposal limit - waves of 6..9 fresh transactions arrive on one
        // tip (10 bytes per proposal) while the room the packaged transactions leave is < 230 bytes: the waves fit one by
        // one but not together.  (The limit must leave room for header + cellbase + extension + two uncles, ~940 bytes:
        // `update_blank` takes the uncle candidates unconditionally - with 525 bytes the node refused its own template;
        // not a finding: no consensus has a byte limit below one cellbase and two uncles.)
        s.mine = true;
        s.window = (2, 4);
        s.max_block_bytes = Some(1100);
        s.genesis_cells = 24;
        return s;
    }
    match p % 4 {
        0 => { s.mine = true; s.window = (2, 4); }
        1 => { s.mine = false; s.window = (2, 4); }
        2 => { s.mine = true; s.window = (2, 3); s.rbf = false; }
        _ => { s.mine = true; s.window = (3, 5); s.max_anc = 6; }
    }
    s
}

fn pick<T: Copy>(rng: &mut Rng, v: &[T]) -> Option<T> {
    if v.is_empty() { None } else { Some(v[rng.below(v.len() as u64) as usize]) }
}

fn random_tx(w: &mut World, rng: &mut Rng, avoid_known: bool) -> Option<usize> {
    let spendable = w.spendable();
    let all: Vec<usize> = (0..w.outs.len()).collect();
    let k = if rng.chance(4, 5) { 1 } else { 2 };
    let mut ins = vec![];
    for _ in 0..k {
        // transactions for the second thread (avoid_known) never spend what a pooled transaction spends: a replacement
        // that happens and is undone inside one notification could not be told apart from the reorg's own effect
        let o = if avoid_known || rng.chance(4, 5) { pick(rng, &spendable) } else { pick(rng, &all) };
        if let Some(o) = o {
            if !ins.contains(&o) {
                ins.push(o);
            }
        }
    }
    if ins.is_empty() {
        return None;
    }
    let mut deps = vec![];
    if rng.chance(1, 6) {
        if let Some(o) = pick(rng, &spendable) {
            if !ins.contains(&o) {
                deps.push(o);
            }
        }
    }
    let mut hdeps = vec![];
    if rng.chance(1, 6) && !w.chain.is_empty() {
        // prefer recent blocks: they are the ones a reorg detaches
        let n = w.chain.len();
        let lo = n.saturating_sub(3);
        hdeps.push(w.chain[lo + rng.below((n - lo) as u64) as usize]);
    }
    let n_out = rng.range(1, 3) as usize;
    let fee = rng.range(700, 9_000);
    w.new_tx(&ins, &deps, &hdeps, n_out, fee, rng)
}

/// A transaction spending exactly the inputs of `t` (a conflicting twin), not submitted.
fn twin_of(w: &mut World, t: usize, rng: &mut Rng) -> Option<usize> {
    let ins = w.txs[t].ins.clone();
    let fee = w.txs[t].fee + rng.range(20_000, 60_000);
    w.new_tx(&ins, &[], &[], 1, fee, rng)
}

/// Directed scenario: a transaction committed within the last three blocks gets a pooled child; the blocks down to
/// its commitment are replaced by a branch that (with_twin) commits a conflicting twin of it, or (otherwise) nothing.
pub fn directed_reorg(w: &mut World, rng: &mut Rng, nonce: u64, with_twin: bool) -> Result<Option<(usize, usize)>, String> {
    let n = w.chain.len();
    let mut cands = vec![];
    for back in 1..=3.min(n) {
        let bi = w.chain[n - back];
        for name in w.blocks[bi].commits.clone() {
            if let Some(t) = w.txs.iter().position(|x| x.name == name) {
                cands.push((back, t));
            }
        }
    }
    let Some((back, t)) = pick(rng, &cands) else { return Ok(None) };
    let out0 = w.txs[t].outs[0];
    // sometimes the same output is first READ (cell dep) by one pooled transaction and then SPENT by another: the re-added
    // transaction then has a dep-reader child and a spender child on one output
    if rng.chance(1, 2) && w.spendable().contains(&out0) {
        let other: Vec<usize> = w.spendable().into_iter().filter(|o| *o != out0).collect();
        if let Some(o) = pick(rng, &other) {
            if let Some(reader) = w.new_tx(&[o], &[out0], &[], 1, rng.range(800, 5000), rng) {
                let _ = w.submit(reader);
            }
        }
    }
    if let Some(child) = w.new_tx(&[out0], &[], &[], 1, rng.range(800, 5000), rng) {
        let _ = w.submit(child);
    }
    let close = w.scn.window.0 as usize;
    let len = (back + 1).max(close + 1);
    let mut contents: Vec<(Vec<usize>, Vec<usize>)> = vec![(vec![], vec![]); len];
    if with_twin {
        if let Some(x) = twin_of(w, t, rng) {
            contents[0].0 = vec![x];
            contents[close].1 = vec![x];
        }
    }
    w.reorg(back, &contents, nonce).map(Some)
}

/// Directed scenario: one cell is a cell DEP of a pooled transaction and an INPUT of another pooled transaction; then the
/// chain commits a third transaction spending that cell (proposed, and `w_close` blocks later committed, on the main
/// chain).  Both pooled transactions have to leave: the spender as a conflict, the other one because its dep is dead.
fn directed_dep_and_spend(w: &mut World, rng: &mut Rng, nonce: u64) -> Result<bool, String> {
    let sp = w.spendable();
    // the shared cell has to be live ON THE CHAIN (the third spender is committed by a block)
    let on_chain: Vec<usize> = {
        use ckb_store::ChainStore;
        let snap = w.node.shared.snapshot();
        sp.iter().copied().filter(|o| snap.get_cell(&w.outs[*o].op).is_some()).collect()
    };
    if sp.len() < 2 || on_chain.is_empty() {
        return Ok(false);
    }
    let x = on_chain[rng.below(on_chain.len() as u64) as usize];
    let Some(&other) = sp.iter().find(|o| **o != x) else { return Ok(false) };
    let Some(b) = w.new_tx(&[other], &[x], &[], 1, rng.range(900, 4000), rng) else { return Ok(false) };
    if w.submit(b).is_err() {
        return Ok(false);
    }
    let Some(a) = w.new_tx(&[x], &[], &[], 1, rng.range(900, 4000), rng) else { return Ok(false) };
    if w.submit(a).is_err() {
        return Ok(false);
    }
    let Some(t) = twin_of(w, a, rng) else { return Ok(false) };
    if w.attach(&[t], &[], nonce).is_err() {
        return Ok(false);
    }
    for k in 1..w.scn.window.0 {
        w.attach(&[], &[], nonce + k)?;
    }
    w.attach(&[], &[t], nonce + 50)?;
    Ok(true)
}

/// Directed scenario (dep groups): a dep-group cell G lists an output of a transaction M that is pooled, not committed
/// (G itself on the chain or pooled); U names G as a dep group.  U then depends on M exactly as if it named M's output
/// as a plain cell dep.  Afterwards, sometimes, M is removed (U has to leave with it).
pub fn directed_dep_group(w: &mut World, rng: &mut Rng, nonce: &mut u64, counts: &mut [u64; 4]) -> Result<(), String> {
    let sp = w.spendable();
    if sp.len() < 3 {
        return Ok(());
    }
    // the member: an output of a transaction that is pooled already, or of a fresh one submitted below
    let pooled = w.pooled();
    let old_member: Option<usize> = if rng.chance(1, 2) { pick(rng, &pooled).map(|t| w.txs[t].outs[0]) } else { None };
    let mut free: Vec<usize> = sp.iter().copied().filter(|o| Some(*o) != old_member).collect();
    let mut take = |rng: &mut Rng| -> Option<usize> { if free.is_empty() { None } else { Some(free.remove(rng.below(free.len() as u64) as usize)) } };
    let (m_out, fresh_m) = match old_member {
        Some(o) => (o, None),
        None => {
            let Some(i) = take(rng) else { return Ok(()) };
            let Some(m) = w.new_tx(&[i], &[], &[], 2, rng.range(900, 5_000), rng) else { return Ok(()) };
            (w.txs[m].outs[0], Some(m))
        }
    };
    let Some(gi) = take(rng) else { return Ok(()) };
    let mut members = vec![m_out];
    if rng.chance(1, 3) {
        // a second member that is an ordinary live cell
        if let Some(x) = take(rng) { members.push(x); }
    }
    let Some(g) = w.new_group_tx(&[gi], &members, rng.range(900, 5_000), rng) else { return Ok(()) };
    counts[0] += 1;
    let on_chain = rng.chance(1, 2);
    if on_chain {
        // G goes to the chain first: proposed, then committed w_close blocks later (hand-assembled blocks; M is not pooled yet
        // when it is fresh, so the blocks cannot take it along)
        *nonce += 1;
        if w.attach(&[g], &[], *nonce).is_err() { return Ok(()); }
        for _ in 1..w.scn.window.0 { *nonce += 1; w.attach(&[], &[], *nonce)?; }
        *nonce += 1;
        if w.attach(&[], &[g], *nonce).is_err() { return Ok(()); }
        counts[1] += 1;
    } else if w.submit(g).is_err() {
        return Ok(());
    }
    if let Some(m) = fresh_m {
        if w.submit(m).is_err() { return Ok(()); }
    }
    let Some(ui) = take(rng) else { return Ok(()) };
    let g_out = w.txs[g].outs[0];
    let Some(u) = w.new_tx_full(&[ui], &[], &[g_out], &[], &[], 1, rng.range(900, 5_000), rng) else { return Ok(()) };
    if w.submit(u).is_ok() {
        counts[2] += 1;
        if rng.chance(1, 3) {
            if let Some(mc) = w.outs[m_out].creator {
                if w.pooled().contains(&mc) {
                    w.remove(mc);
                    counts[3] += 1;
                }
            }
        }
    }
    Ok(())
}

pub fn reorg_history(args: &[String], probes: bool) -> Value {
    let seed = opt_u64(args, "--seed", 1);
    let steps = opt_u64(args, "--steps", 100);
    let pr = opt_u64(args, "--profile", seed);
    let scn = profile(pr);
    let mut rng = Rng::new(seed);
    let mut w = World::new(&scn, "");
    w.probe_templates = probes && scn.mine;
    w.probe_budget = opt_u64(args, "--probes", 30) as usize;
    let mut nonce = 100u64;
    let (mut n_reorg, mut n_detached, mut n_blocks, mut n_accept, mut n_reject, mut n_conc, mut n_commit_side, mut n_directed) = (0u64, 0u64, 0u64, 0u64, 0u64, 0u64, 0u64, 0u64);
    let mut err: Option<String> = None;
    let mut n_resubmit = 0u64;
    let mut n_dep_spend = 0u64;
    let mut dep_groups = [0u64; 4];
    // twins created for transactions that went to the main chain: candidates to be committed on a side branch
    let mut twins: Vec<usize> = vec![];
    if pr == 5 || pr == 6 || pr == 7 {
        // backlog: more independent transactions than two blocks can take
        for g in 0..9usize {
            let n_out = 1 + g % 3;
            if let Some(t) = w.new_tx(&[g], &[], &[], n_out, 1000 + 137 * g as u64, &mut rng) {
                if w.submit(t).is_ok() { n_accept += 1 } else { n_reject += 1 }
            }
        }
        // a chain a <- b <- c with strictly decreasing fee rates: packaged one by one, each with its not yet packaged ancestors
        let mut prev: Option<usize> = None;
        for (k, fee) in [9_000u64, 4_000, 900].iter().enumerate() {
            let ins = match prev { None => vec![9usize + k], Some(t) => vec![w.txs[t].outs[0]] };
            if let Some(t) = w.new_tx(&ins, &[], &[], 1, *fee, &mut rng) {
                if w.submit(t).is_ok() { n_accept += 1 } else { n_reject += 1 }
                prev = Some(t);
            }
        }
    }
    for _step in 0..steps {
        let r = rng.below(100);
        let res: Result<(), String> = (|| {
            // directed (tiny epochs): when the tip is one of the last two blocks of an epoch, replace it by a branch of
            // two blocks - the detached block becomes an uncle candidate of the old epoch - and take templates for the
            // first blocks of the new epoch
            let l = w.scn.epoch_len as usize;
            let n = w.chain.len();
            // the tip is one of the last two blocks of its epoch (read from the header: epoch lengths vary under adjustment)
            let near_end = { let e = w.node.shared.snapshot().tip_header().epoch(); e.index() + 2 >= e.length() };
            if w.probe_templates && l < 50 && n >= 2 && near_end && (pr == 8 || rng.chance(2, 3)) {
                nonce += 10;
                let contents = vec![(vec![], vec![]); 2];
                let (d, _) = w.reorg(1, &contents, nonce * 13)?;
                if d > 0 {
                    n_reorg += 1;
                    n_detached += d as u64;
                }
                w.probe_template("epoch-boundary", true);
                w.mine()?;
                w.probe_template("epoch-boundary", true);
                n_blocks += 1;
                return Ok(());
            }
            if pr == 7 && rng.chance(1, 3) {
                // directed (proposal-bound): a wave of fresh independent transactions on the current tip, a template after each
                for _ in 0..rng.range(1, 2) {
                    for _ in 0..rng.range(6, 9) {
                        if let Some(t) = random_tx(&mut w, &mut rng, true) {
                            if w.submit(t).is_ok() { n_accept += 1 } else { n_reject += 1 }
                        }
                    }
                    w.probe_template("after-wave", true);
                }
                return Ok(());
            }
            if pr >= 5 && pr <= 7 && rng.chance(1, 5) {
                // tight limits: keep the chain moving so that the backlog is proposed and committed
                w.mine()?;
                n_blocks += 1;
                return Ok(());
            }
            if (pr == 5 || pr == 6) && rng.chance(1, 4) {
                // directed (tight limits): an entry of stage Proposed leaves and comes back - it re-enters directly at stage
                // Proposed, which reaches the assembler through `update_transactions` (the incremental path: template kept,
                // transactions re-packaged next to the uncles and proposals already chosen)
                let info = w.ctl().get_all_entry_info().map_err(|e| e.to_string())?;
                let proposed: Vec<usize> = info.proposed.keys().filter_map(|h| w.tx_by_hash.get(h).copied()).collect();
                if let Some(t) = pick(&mut rng, &proposed) {
                    if w.remove(t) {
                        let _ = w.submit(t);
                        n_resubmit += 1;
                        w.probe_template("after-resubmit-proposed", true);
                        // the assembler is told asynchronously: look again once it had time to re-package
                        std::thread::sleep(std::time::Duration::from_millis(150));
                        w.probe_template("after-resubmit-proposed", true);
                    }
                    return Ok(());
                }
            }
            if pr <= 4 && rng.chance(1, 14) {
                nonce += 100;
                if directed_dep_and_spend(&mut w, &mut rng, nonce * 17)? {
                    n_dep_spend += 1;
                    n_blocks += 1 + w.scn.window.0;
                }
                return Ok(());
            }
            if pr <= 4 && rng.chance(1, 12) {
                // directed (dep groups): a dep-group user pooled next to the creator of a group member; then (mining nodes) the
                // node's own templates propose and commit the family - the user has to come after the member's creator
                let before = dep_groups[2];
                directed_dep_group(&mut w, &mut rng, &mut nonce, &mut dep_groups)?;
                if dep_groups[2] > before && w.scn.mine && rng.chance(2, 3) {
                    for _ in 0..=w.scn.window.0 {
                        w.probe_template("dep-group-family", true);
                        w.mine()?;
                        n_blocks += 1;
                    }
                }
                return Ok(());
            }
            if r < 40 {
                if let Some(t) = random_tx(&mut w, &mut rng, false) {
                    if w.submit(t).is_ok() {
                        n_accept += 1;
                        if rng.chance(1, 3) {
                            if let Some(x) = twin_of(&mut w, t, &mut rng) {
                                twins.push(x);
                            }
                        }
                    } else {
                        n_reject += 1
                    }
                }
            } else if r < 45 {
                let pooled = w.pooled();
                let cands: Vec<usize> = (0..w.txs.len()).filter(|i| !pooled.contains(i)).collect();
                if let Some(t) = pick(&mut rng, &cands) {
                    if w.submit(t).is_ok() { n_accept += 1 } else { n_reject += 1 }
                }
            } else if r < 48 {
                let pooled = w.pooled();
                if let Some(t) = pick(&mut rng, &pooled) {
                    w.remove(t);
                }
            } else if r < 70 {
                if w.scn.mine && rng.chance(3, 4) {
                    w.mine()?;
                } else {
                    // hand-assembled: propose some pooled transactions, commit nothing
                    let pooled = w.pooled();
                    let mut props = vec![];
                    for _ in 0..rng.range(0, 3) {
                        if let Some(t) = pick(&mut rng, &pooled) {
                            if !props.contains(&t) {
                                props.push(t);
                            }
                        }
                    }
                    nonce += 1;
                    let _ = w.attach(&props, &[], nonce);
                }
                n_blocks += 1;
            } else if r < 80 && !w.chain.is_empty() {
                nonce += 10;
                let twin = rng.chance(1, 2);
                if let Some((d, _)) = directed_reorg(&mut w, &mut rng, nonce * 11, twin)? {
                    if d > 0 {
                        n_reorg += 1;
                        n_detached += d as u64;
                        n_directed += 1;
                    }
                }
            } else if !w.chain.is_empty() {
                let maxd = 4.min(w.chain.len() as u64);
                let depth = rng.range(1, maxd) as usize;
                let close = w.scn.window.0 as usize;
                let len = (depth + rng.range(1, 2) as usize).max(if rng.chance(1, 2) { close + 1 } else { 0 });
                let mut contents: Vec<(Vec<usize>, Vec<usize>)> = vec![(vec![], vec![]); len];
                let kind = rng.below(4);
                if kind >= 1 && !w.txs.is_empty() {
                    // the branch proposes and (if it is long enough) commits: twins of main-chain / pooled
                    // transactions (conflicts), pooled transactions themselves, or any known transaction
                    let mut chosen = vec![];
                    for _ in 0..rng.range(1, 3) {
                        let c = if kind == 1 && !twins.is_empty() { pick(&mut rng, &twins) } else if kind == 2 { pick(&mut rng, &w.pooled()) } else { Some(rng.below(w.txs.len() as u64) as usize) };
                        if let Some(c) = c {
                            if !chosen.contains(&c) {
                                chosen.push(c);
                            }
                        }
                    }
                    chosen.sort();
                    let at = rng.below((len - close.min(len - 1)) as u64) as usize;
                    contents[at].0 = chosen.clone();
                    if at + close < len {
                        contents[at + close].1 = chosen;
                        n_commit_side += 1;
                    }
                }
                nonce += 10;
                // transactions submitted by a second thread while the branch is delivered
                let mut conc = vec![];
                if rng.chance(1, 3) {
                    for _ in 0..rng.range(1, 3) {
                        if let Some(t) = random_tx(&mut w, &mut rng, true) {
                            conc.push(t);
                        }
                    }
                }
                let handle = if conc.is_empty() { None } else {
                    let ctl = w.ctl().clone();
                    let views: Vec<_> = conc.iter().map(|&t| w.txs[t].view.clone()).collect();
                    n_conc += views.len() as u64;
                    Some(std::thread::spawn(move || {
                        for v in views {
                            std::thread::sleep(std::time::Duration::from_micros(300));
                            let _ = ctl.submit_local_tx(v);
                        }
                    }))
                };
                let r = w.reorg(depth, &contents, nonce * 7);
                if let Some(h) = handle {
                    let _ = h.join();
                    // whatever entered after the last dump shows up with the next event; make one now
                    w.emit("Idle", json!({}));
                }
                let (d, _a) = r?;
                if d > 0 {
                    n_reorg += 1;
                    n_detached += d as u64;
                }
            }
            Ok(())
        })();
        if let Err(e) = res {
            err = Some(e);
            break;
        }
        if w.stopped {
            break;
        }
    }
    let mut doc = w.finish_json();
    doc["summary"] = json!({"seed": seed, "profile": pr, "mine": scn.mine, "steps": steps, "events": w.events.len(), "txs": w.txs.len(), "accepted": n_accept,
        "rejected": n_reject, "blocks": n_blocks, "reorgs": n_reorg, "detached_blocks": n_detached, "concurrent_submits": n_conc,
        "side_branches_with_commits": n_commit_side, "directed_reorgs": n_directed, "resubmitted_proposed": n_resubmit, "dep_and_spend_committed": n_dep_spend, "dep_groups": dep_groups, "templates": w.n_templates, "boundary_templates": w.n_boundary_templates, "error": err});
    w.dispose();
    doc
}

