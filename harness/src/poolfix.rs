//! Shared fixture of the tx-pool bindings (C11, C12, C13): a *world* = one real node under test plus the
//! abstract dictionary of everything the history created (transactions `t<i>`, blocks `b<i>`, out-points
//! `[creator, index]` with genesis cells `["g", i]`).  Every operation goes through the real
//! `TxPoolController` / chain service; after every operation the pool is dumped (hook `verif_dump`, commit
//! "verif hook: tx-pool dump") and recorded as one ndjson event in abstract names, to be validated by TLC
//! against spec/Trace_TxPool.tla.
use crate::fixture::*;
use crate::util::Rng;
use ckb_app_config::TxPoolConfig;
use ckb_chain_spec::consensus::Consensus;
use ckb_store::ChainStore;
use ckb_types::core::{BlockView, Capacity, FeeRate, TransactionBuilder, TransactionView};
use ckb_types::packed::{Byte32, CellDep, CellInput, CellOutput, OutPoint};
use ckb_types::prelude::*;
use ckb_types::{bytes::Bytes, core::DepType};
use serde_json::{json, Value};
use std::collections::{HashMap, HashSet};

/// bumped on every recorded event; a watchdog (see `watchdog`) ends a process that stops making progress
pub static PROGRESS: std::sync::atomic::AtomicU64 = std::sync::atomic::AtomicU64::new(0);
pub static STAGE: std::sync::Mutex<String> = std::sync::Mutex::new(String::new());
pub fn stage(s: &str) {
    PROGRESS.fetch_add(1, std::sync::atomic::Ordering::SeqCst);
    if let Ok(mut g) = STAGE.lock() {
        *g = s.to_string();
    }
}
/// Exit with code 3 when nothing was recorded for `secs` seconds (a service of the node under test hangs).
pub fn watchdog(secs: u64) {
    std::thread::spawn(move || {
        let mut last = 0;
        let mut idle = 0;
        loop {
            std::thread::sleep(std::time::Duration::from_secs(5));
            let now = PROGRESS.load(std::sync::atomic::Ordering::SeqCst);
            if now == last { idle += 5 } else { idle = 0; last = now }
            if idle >= secs {
                eprintln!("WATCHDOG: no progress for {}s at stage '{}'", secs, STAGE.lock().map(|g| g.clone()).unwrap_or_default());
                std::process::exit(3);
            }
        }
    });
}

pub const CELL_CAP: u64 = 50_000 * 100_000_000;
pub const HOUR_MS: u64 = 3_600_000;

/// Scenario configuration (also logged in the Reset event = the specification's `conf`).
#[derive(Clone, Debug)]
pub struct Scn {
    pub max_anc: usize,
    /// bytes
    pub max_pool_size: usize,
    pub rbf: bool,
    /// node has a block assembler ("mine mode")
    pub mine: bool,
    pub window: (u64, u64),
    pub genesis_cells: usize,
    pub max_block_bytes: Option<u64>,
    pub max_block_cycles: Option<u64>,
    pub max_proposals: u64,
    pub epoch_len: u64,
    /// real difficulty adjustment (epoch lengths and targets follow the timestamps and uncle counts of each branch)
    pub adjust: bool,
}
impl Default for Scn {
    fn default() -> Self {
        Scn { max_anc: 25, max_pool_size: 180_000_000, rbf: true, mine: true, window: (2, 4), genesis_cells: 10, max_block_bytes: None, max_block_cycles: None, max_proposals: 1500, epoch_len: 1000, adjust: false }
    }
}
pub const MIN_FEE_RATE: u64 = 1000;
pub const MIN_RBF_RATE: u64 = 1500;

/// An out-point the history knows about.
#[derive(Clone, Debug)]
pub struct OutRec {
    pub op: OutPoint,
    pub cap: u64,
    /// abstract name: (creator, index); genesis cell i = ("g", i+1)
    pub name: (String, u32),
    /// creating tx (index into `txs`), None = genesis
    pub creator: Option<usize>,
    pub lock_variant: u8,
    /// dep-group cell: the out-points its data lists (indices into `outs`); empty for ordinary cells
    pub members: Vec<usize>,
}
#[derive(Clone, Debug)]
pub struct TxRec {
    pub name: String,
    pub view: TransactionView,
    pub ins: Vec<usize>,
    /// every out-point the transaction depends on without spending it: direct cell deps, dep-group cells and the
    /// members those groups list (what ResolvedTransaction::related_dep_out_points names)
    pub deps: Vec<usize>,
    /// the dep-group cells among `deps`
    pub gdeps: Vec<usize>,
    pub hdeps: Vec<usize>,
    pub outs: Vec<usize>,
    pub fee: u64,
    pub size: u64,
    /// first cycles value the pool reported (0 = never pooled)
    pub cycles: u64,
}
#[derive(Clone, Debug)]
pub struct BlkRec {
    pub name: String,
    pub view: BlockView,
    pub parent: Option<usize>,
    pub props: Vec<String>,
    pub commits: Vec<String>,
    pub unknown_commits: usize,
}

pub struct World {
    pub scn: Scn,
    pub c: Consensus,
    pub node: Node,
    pub prefix: String,
    pub outs: Vec<OutRec>,
    pub txs: Vec<TxRec>,
    pub tx_by_hash: HashMap<Byte32, usize>,
    pub tx_by_short: HashMap<ckb_types::packed::ProposalShortId, usize>,
    pub blocks: Vec<BlkRec>,
    pub blk_by_hash: HashMap<Byte32, usize>,
    /// main chain as the history drove it (indices into `blocks`, height 1..)
    pub chain: Vec<usize>,
    pub events: Vec<Value>,
    pub now: u64,
    pub last_dump: Option<Value>,
    pub salt: u64,
    pub expiry_ms: u64,
    pub tmp_before: HashSet<std::path::PathBuf>,
    /// names pooled at the last dump
    pub pool_names: Vec<String>,
    /// the history stopped being recorded (see emit_with)
    pub stopped: bool,
    pub stop_reason: Option<String>,
    /// C13: request and judge block templates at many moments
    pub probe_templates: bool,
    pub probe_budget: usize,
    pub n_templates: u64,
    pub probe_rng: Rng,
    /// (number, epoch number, hash) of every block that was detached from the main chain (uncle candidates)
    pub detached_log: Vec<(u64, u64, Byte32)>,
    /// anomalies to report with the next event
    pub pending_bad: Vec<String>,
    pub n_boundary_templates: u64,
}

fn lock_variant(v: u8) -> ckb_types::packed::Script {
    if v == 0 { lock() } else { lock().as_builder().args(Bytes::from(vec![v]).pack()).build() }
}

pub fn params_of(s: &Scn) -> Params {
    Params {
        epoch_len: s.epoch_len,
        window: s.window,
        genesis_cells: s.genesis_cells,
        max_block_bytes: s.max_block_bytes,
        max_block_cycles: s.max_block_cycles,
        max_block_proposals_limit: s.max_proposals,
        permanent_difficulty: !s.adjust,
        ..Default::default()
    }
}

pub fn pool_config(s: &Scn) -> TxPoolConfig {
    let mut tp = TxPoolConfig::default();
    tp.max_ancestors_count = s.max_anc;
    tp.max_tx_pool_size = s.max_pool_size;
    tp.min_fee_rate = FeeRate::from_u64(MIN_FEE_RATE);
    tp.min_rbf_rate = FeeRate::from_u64(if s.rbf { MIN_RBF_RATE } else { MIN_FEE_RATE });
    tp.expiry_hours = 1;
    tp
}

impl World {
    pub fn new(scn: &Scn, prefix: &str) -> World {
        let tmp_before = tmp_listing();
        // under real adjustment the genesis difficulty has to be large enough for a few seconds of epoch duration to move the target
        let c = if scn.adjust { consensus_with(&params_of(scn), ckb_types::utilities::difficulty_to_compact(ckb_types::U256::from(1_000_000u64))) } else { consensus(&params_of(scn)) };
        let node = Node::start(&NodeCfg { assembler: scn.mine, tx_pool: Some(pool_config(scn)), ..NodeCfg::temp(&c) });
        let outs = (0..scn.genesis_cells)
            .map(|i| OutRec { op: genesis_cell(&c, i), cap: CELL_CAP, name: ("g".to_string(), i as u32 + 1), creator: None, lock_variant: 0, members: vec![] })
            .collect();
        let mut w = World {
            scn: scn.clone(), c, node, prefix: prefix.to_string(), outs, txs: vec![], tx_by_hash: HashMap::new(), tx_by_short: HashMap::new(),
            blocks: vec![], blk_by_hash: HashMap::new(), chain: vec![], events: vec![], now: ckb_systemtime::unix_time_as_millis(),
            last_dump: None, salt: 0, expiry_ms: HOUR_MS, tmp_before, pool_names: vec![], stopped: false, stop_reason: None, probe_templates: false, probe_budget: 0, n_templates: 0, probe_rng: Rng::new(77), detached_log: vec![], n_boundary_templates: 0, pending_bad: vec![],
        };
        w.events.push(json!({"ev": "Reset", "conf": w.conf_json()}));
        w
    }

    pub fn conf_json(&self) -> Value {
        json!({"maxAnc": self.scn.max_anc, "maxSize": self.scn.max_pool_size.min(2_000_000_000), "rbf": self.scn.rbf,
               "rbfRate": MIN_RBF_RATE, "close": self.scn.window.0, "far": self.scn.window.1, "mine": self.scn.mine})
    }

    pub fn ctl(&self) -> &ckb_tx_pool::TxPoolController {
        self.node.shared.tx_pool_controller()
    }

    pub fn out_json(&self, o: usize) -> Value {
        json!([self.outs[o].name.0, self.outs[o].name.1])
    }

    // ------------------------------------------------------------------ transactions
    /// Create (not submit) a transaction spending `ins`, with cell deps `deps`, header deps on blocks `hdeps`,
    /// `n_out` outputs and fee `fee` shannons. Returns its index, or None when the capacities do not allow it.
    pub fn new_tx(&mut self, ins: &[usize], deps: &[usize], hdeps: &[usize], n_out: usize, fee: u64, rng: &mut Rng) -> Option<usize> {
        self.new_tx_full(ins, deps, &[], &[], hdeps, n_out, fee, rng)
    }

    /// A transaction whose first output is a dep-group cell listing `members` (its data is their OutPointVec).
    pub fn new_group_tx(&mut self, ins: &[usize], members: &[usize], fee: u64, rng: &mut Rng) -> Option<usize> {
        self.new_tx_full(ins, &[], &[], members, &[], 1, fee, rng)
    }

    /// `gdeps`: dep-group cells used with DepType::DepGroup; `group_members`: when not empty, output 0 becomes a dep-group cell.
    #[allow(clippy::too_many_arguments)]
    pub fn new_tx_full(&mut self, ins: &[usize], deps: &[usize], gdeps: &[usize], group_members: &[usize], hdeps: &[usize], n_out: usize, fee: u64, rng: &mut Rng) -> Option<usize> {
        let total: u64 = ins.iter().map(|&i| self.outs[i].cap).sum();
        let min_cell = 200 * 100_000_000u64;
        if total < fee + min_cell * n_out as u64 {
            return None;
        }
        let mut b = TransactionBuilder::default().cell_dep(always_success_dep(&self.c));
        for &d in deps {
            b = b.cell_dep(CellDep::new_builder().out_point(self.outs[d].op.clone()).dep_type(DepType::Code).build());
        }
        for &g in gdeps {
            b = b.cell_dep(CellDep::new_builder().out_point(self.outs[g].op.clone()).dep_type(DepType::DepGroup).build());
        }
        for &h in hdeps {
            b = b.header_dep(self.blocks[h].view.hash());
        }
        for &i in ins {
            b = b.input(CellInput::new(self.outs[i].op.clone(), 0));
        }
        let per = (total - fee) / n_out as u64;
        let mut caps = vec![];
        let mut variants = vec![];
        for k in 0..n_out {
            let cap = if k == 0 { total - fee - per * (n_out as u64 - 1) } else { per };
            let v = rng.below(3) as u8;
            let data = if k == 0 && !group_members.is_empty() {
                let v: Vec<OutPoint> = group_members.iter().map(|&m| self.outs[m].op.clone()).collect();
                ckb_types::packed::OutPointVec::new_builder().set(v).build().as_bytes()
            } else {
                Bytes::new()
            };
            b = b.output(CellOutput::new_builder().capacity(Capacity::shannons(cap)).lock(lock_variant(v)).build()).output_data(data.pack());
            caps.push(cap);
            variants.push(v);
        }
        self.salt += 1;
        b = b.witness(Bytes::from(self.salt.to_le_bytes().to_vec()).pack());
        let view = b.build();
        let idx = self.txs.len();
        let name = format!("{}t{}", self.prefix, idx + 1);
        let mut out_ids = vec![];
        for k in 0..n_out {
            out_ids.push(self.outs.len());
            self.outs.push(OutRec { op: OutPoint::new(view.hash(), k as u32), cap: caps[k], name: (name.clone(), k as u32), creator: Some(idx), lock_variant: variants[k], members: if k == 0 { group_members.to_vec() } else { vec![] } });
        }
        self.tx_by_hash.insert(view.hash(), idx);
        self.tx_by_short.insert(view.proposal_short_id(), idx);
        let size = view.data().serialized_size_in_block() as u64;
        let mut all_deps = deps.to_vec();
        for &g in gdeps {
            for d in std::iter::once(g).chain(self.outs[g].members.clone()) {
                if !all_deps.contains(&d) {
                    all_deps.push(d);
                }
            }
        }
        self.txs.push(TxRec { name, view, ins: ins.to_vec(), deps: all_deps, gdeps: gdeps.to_vec(), hdeps: hdeps.to_vec(), outs: out_ids, fee, size, cycles: 0 });
        Some(idx)
    }

    /// Forget the transaction created last (it must not have been submitted).
    pub fn pop_last_tx(&mut self) {
        if let Some(t) = self.txs.pop() {
            if let Some(&first) = t.outs.first() {
                self.outs.truncate(first);
            }
            self.tx_by_hash.remove(&t.view.hash());
            self.tx_by_short.remove(&t.view.proposal_short_id());
        }
    }

    /// A replacement candidate spending `ins` whose fee sits exactly `delta` shannons off the RBF boundary
    /// `base_sum + min_rbf_rate * size / 1000` (size = its own serialized size; built twice with the same shape).
    pub fn new_tx_rbf(&mut self, ins: &[usize], n_out: usize, base_sum: u64, delta: i64) -> Option<usize> {
        let probe = self.new_tx(ins, &[], &[], n_out, base_sum, &mut Rng::new(4242))?;
        let size = self.txs[probe].size;
        self.pop_last_tx();
        let fee = (base_sum + MIN_RBF_RATE * size / 1000) as i64 + delta;
        self.new_tx(ins, &[], &[], n_out, fee as u64, &mut Rng::new(4242))
    }

    /// Pooled descendants of pooled transaction `t` (spend or dep one of the family's outputs, or spend a cell a family
    /// member uses as a dep) - the harness' own recomputation, used only to aim directed scenarios.
    pub fn pool_descendants(&self, t: usize) -> Vec<usize> {
        let pooled = self.pooled();
        let mut fam = vec![t];
        loop {
            let mut grew = false;
            for &c in &pooled {
                if fam.contains(&c) {
                    continue;
                }
                let uses = |o: &usize| self.outs[*o].creator.map(|p| fam.contains(&p)).unwrap_or(false);
                let cellref = self.txs[c].ins.iter().any(|i| fam.iter().any(|&p| self.txs[p].deps.contains(i)));
                if self.txs[c].ins.iter().any(uses) || self.txs[c].deps.iter().any(uses) || cellref {
                    fam.push(c);
                    grew = true;
                }
            }
            if !grew {
                break;
            }
        }
        fam.remove(0);
        fam
    }

    pub fn tx_name(&self, h: &Byte32) -> String {
        self.tx_by_hash.get(h).map(|&i| self.txs[i].name.clone()).unwrap_or_else(|| format!("?{:x}", h))
    }

    /// Universe record: everything the spec needs to know about the transactions of this world.
    pub fn universe_json(&self) -> Value {
        let mut m = serde_json::Map::new();
        for t in &self.txs {
            m.insert(t.name.clone(), json!({
                "ins": t.ins.iter().map(|&o| self.out_json(o)).collect::<Vec<_>>(),
                "deps": t.deps.iter().map(|&o| self.out_json(o)).collect::<Vec<_>>(),
                "hdeps": t.hdeps.iter().map(|&b| self.blocks[b].name.clone()).collect::<Vec<_>>(),
                "fee": t.fee, "size": t.size, "cycles": t.cycles,
            }));
        }
        Value::Object(m)
    }

    // ------------------------------------------------------------------ pool observation
    /// Dump the pool through the hook, translate to abstract names, and return the observation fields.
    pub fn observe(&mut self) -> Value {
        let raw = self.ctl().verif_dump().expect("verif_dump");
        let d: Value = serde_json::from_str(&raw).expect("dump json");
        let mut bad: Vec<String> = vec![];
        let hname = |w: &World, s: &str, bad: &mut Vec<String>| -> String {
            match parse_hash(s).and_then(|h| w.tx_by_hash.get(&h).copied()) {
                Some(i) => w.txs[i].name.clone(),
                None => {
                    bad.push(format!("unknown-tx:{}", &s[..s.len().min(12)]));
                    format!("?{}", s)
                }
            }
        };
        let mut st = serde_json::Map::new();
        let mut book = serde_json::Map::new();
        let mut stamps = serde_json::Map::new();
        for e in d["entries"].as_array().unwrap() {
            let name = hname(self, e["hash"].as_str().unwrap(), &mut bad);
            if let Some(&i) = self.tx_by_hash.get(&parse_hash(e["hash"].as_str().unwrap()).unwrap_or_default()) {
                let (fee, size, cycles) = (e["fee"].as_u64().unwrap(), e["size"].as_u64().unwrap(), e["cycles"].as_u64().unwrap());
                if self.txs[i].cycles == 0 {
                    self.txs[i].cycles = cycles;
                }
                if fee != self.txs[i].fee || size != self.txs[i].size || cycles != self.txs[i].cycles {
                    bad.push(format!("own-weight:{}:fee {} size {} cycles {} expected {} {} {}", name, fee, size, cycles, self.txs[i].fee, self.txs[i].size, self.txs[i].cycles));
                }
            }
            if !e["has_links"].as_bool().unwrap_or(false) {
                bad.push(format!("entry-without-links:{}", name));
            }
            st.insert(name.clone(), e["status"].clone());
            let names = |w: &World, v: &Value, bad: &mut Vec<String>| -> Vec<String> {
                v.as_array().unwrap().iter().map(|x| {
                    let s = x.as_str().unwrap();
                    if s.starts_with('?') { bad.push(format!("link-to-non-entry:{}", s)); s.to_string() } else { hname(w, s, bad) }
                }).collect()
            };
            let par = names(self, &e["parents"], &mut bad);
            let chi = names(self, &e["children"], &mut bad);
            book.insert(name.clone(), json!({"par": par, "chi": chi, "anc": e["anc"], "desc": e["desc"]}));
            stamps.insert(name, e["timestamp"].clone());
        }
        for s in d["stray_links"].as_array().unwrap() {
            bad.push(format!("stray-link:{}", s.as_str().unwrap_or("")));
        }
        let opname = |w: &World, v: &Value, bad: &mut Vec<String>| -> Value {
            let h = v[0].as_str().unwrap();
            let idx = v[1].as_u64().unwrap() as u32;
            match parse_hash(h) {
                Some(hh) => {
                    if let Some(&i) = w.tx_by_hash.get(&hh) {
                        return json!([w.txs[i].name, idx]);
                    }
                    if let Some(o) = w.outs.iter().find(|o| o.creator.is_none() && o.op.tx_hash() == hh) {
                        return json!([o.name.0, o.name.1]);
                    }
                    bad.push(format!("edge-unknown-outpoint:{}", &h[..12]));
                    json!(["?", idx])
                }
                None => json!(["?", idx]),
            }
        };
        // the always-success code cell is a dep of every transaction and is not modelled
        let code_dep = always_success_dep(&self.c).out_point();
        let code_hash = format!("{:x}", code_dep.tx_hash());
        let mut ein = vec![];
        for x in d["inputs"].as_array().unwrap() {
            let o = opname(self, &x[0], &mut bad);
            let t = x[1].as_str().unwrap();
            let t = if t.starts_with('?') { bad.push(format!("edge-to-non-entry:{}", t)); t.to_string() } else { hname(self, t, &mut bad) };
            ein.push(json!([o, t]));
        }
        let mut edep = vec![];
        for x in d["deps"].as_array().unwrap() {
            if x[0][0].as_str() == Some(code_hash.as_str()) {
                continue;
            }
            let o = opname(self, &x[0], &mut bad);
            for t in x[1].as_array().unwrap() {
                let t = t.as_str().unwrap();
                let t = if t.starts_with('?') { bad.push(format!("edge-to-non-entry:{}", t)); t.to_string() } else { hname(self, t, &mut bad) };
                edep.push(json!([o, t]));
            }
        }
        let mut ehdr = vec![];
        for x in d["header_deps"].as_array().unwrap() {
            let t = x[0].as_str().unwrap();
            let t = if t.starts_with('?') { bad.push(format!("edge-to-non-entry:{}", t)); t.to_string() } else { hname(self, t, &mut bad) };
            for h in x[1].as_array().unwrap() {
                let b = parse_hash(h.as_str().unwrap()).and_then(|hh| self.blk_by_hash.get(&hh).copied());
                ehdr.push(json!([t, b.map(|i| self.blocks[i].name.clone()).unwrap_or("?".into())]));
            }
        }
        let tip = parse_hash(d["tip"].as_str().unwrap()).unwrap_or_default();
        let tipname = if tip == self.c.genesis_hash() { "genesis".to_string() } else { self.blk_by_hash.get(&tip).map(|&i| self.blocks[i].name.clone()).unwrap_or("?".into()) };
        let obs = json!({
            "st": Value::Object(st), "book": Value::Object(book),
            "cnt": {"pending": d["pending_count"], "gap": d["gap_count"], "proposed": d["proposed_count"], "size": d["total_tx_size"], "cycles": d["total_tx_cycles"]},
            "ein": ein, "edep": edep, "ehdr": ehdr, "bad": bad, "ptip": tipname,
        });
        self.last_dump = Some(json!({"stamps": Value::Object(stamps)}));
        obs
    }

    /// Names of pooled entries (per the last dump) whose timestamp makes them expirable at `now`.
    pub fn expirable(&self) -> Vec<String> {
        let now = ckb_systemtime::unix_time_as_millis();
        let mut v = vec![];
        if let Some(d) = &self.last_dump {
            for (k, ts) in d["stamps"].as_object().unwrap() {
                if self.expiry_ms + ts.as_u64().unwrap() < now {
                    v.push(k.clone());
                }
            }
        }
        v
    }

    /// The pool re-submits on its own transactions it had recorded as conflicts (process_rbf ->
    /// may_recovered_txs -> verify queue -> verify worker): wait until that queue is empty.
    pub fn wait_verify_queue(&self) {
        let mut zero = 0;
        for _ in 0..1000 {
            match self.ctl().get_tx_pool_info() {
                Ok(i) if i.verify_queue_size == 0 => {
                    zero += 1;
                    if zero >= 3 {
                        return;
                    }
                }
                _ => zero = 0,
            }
            std::thread::sleep(std::time::Duration::from_millis(2));
        }
    }

    /// `explained`: names the operation itself may have added to the pool.
    pub fn emit(&mut self, ev: &str, extra: Value) {
        self.emit_with(ev, extra, &[])
    }

    pub fn emit_with(&mut self, ev: &str, extra: Value, explained: &[String]) {
        if self.stopped {
            return;
        }
        stage(&format!("emit {} {}", ev, extra));
        self.wait_verify_queue();
        let before: HashSet<String> = self.pool_names.iter().cloned().collect();
        let mut obs = self.observe();
        if !self.pending_bad.is_empty() {
            let extra: Vec<Value> = self.pending_bad.drain(..).map(Value::String).collect();
            obs["bad"].as_array_mut().unwrap().extend(extra);
        }
        let after: Vec<String> = obs["st"].as_object().unwrap().keys().cloned().collect();
        // entries nobody asked for: recovered by the pool itself (parents first)
        let mut recovered: Vec<String> = after.iter().filter(|n| !before.contains(*n) && !explained.contains(n)).cloned().collect();
        recovered.sort_by_key(|n| obs["book"][n]["anc"][0].as_u64().unwrap_or(0));
        // a recovered transaction that replaced something (RBF inside the asynchronous submission) cannot be told
        // apart from the operation's own effect: the history ends here
        let gone: Vec<&String> = before.iter().filter(|n| !after.contains(n)).collect();
        let mut replaced = false;
        for r in &recovered {
            if let Some(&ri) = self.txs.iter().position(|t| &t.name == r).as_ref() {
                for g in &gone {
                    if let Some(gi) = self.txs.iter().position(|t| &t.name == *g) {
                        if self.txs[gi].ins.iter().any(|i| self.txs[ri].ins.contains(i)) {
                            replaced = true;
                        }
                        // ... or evicted a cell-ref parent to get under the ancestor limit
                        if self.txs[gi].deps.iter().any(|i| self.txs[ri].ins.contains(i)) {
                            replaced = true;
                        }
                    }
                }
            }
        }
        // likewise when anything left the pool in the same step under a small size limit (an eviction caused by the
        // recovered transaction cannot be told apart either)
        if !recovered.is_empty() && !gone.is_empty() && (ev != "Reorg" || self.scn.max_pool_size < 1_000_000) {
            replaced = true;
        }
        self.pool_names = after;
        if replaced {
            self.stopped = true;
            self.stop_reason = Some(format!("recovered transaction replaced a pooled one during {}", ev));
            return;
        }
        let mut v = json!({"ev": ev, "recovered": recovered});
        for src in [&extra, &obs] {
            if let (Some(m), Some(x)) = (v.as_object_mut(), src.as_object()) {
                for (k, val) in x {
                    m.insert(k.clone(), val.clone());
                }
            }
        }
        self.events.push(v);
        if self.probe_templates && self.probe_rng.chance(1, 3) {
            self.probe_template("after-operation", true);
        }
    }

    /// C13: take the template the node hands out right now, seal it unchanged, and let a judge node that holds exactly
    /// the chain up to the template's parent verify it.  Recorded as a `Template` event.
    pub fn probe_template(&mut self, moment: &str, may_settle: bool) {
        if !self.probe_templates || self.probe_budget == 0 || self.stopped {
            return;
        }
        let get = |w: &World| w.node.shared.get_block_template(None, None, None).ok().and_then(|r| r.ok());
        let Some(t1) = get(self) else { return };
        stage(&format!("template probe {}", moment));
        // settled = the pool did not change and the assembler hands out the same template again
        let mut settled = false;
        if may_settle {
            let names_before = self.pool_names.clone();
            let now: Vec<String> = { let o = self.observe(); o["st"].as_object().unwrap().keys().cloned().collect() };
            let same_pool = { let mut a = names_before.clone(); a.sort(); let mut b = now.clone(); b.sort(); a == b };
            if let Some(t2) = get(self) {
                settled = same_pool && t2.work_id == t1.work_id && t2.parent_hash == t1.parent_hash && t2.transactions.len() == t1.transactions.len() && t2.proposals.len() == t1.proposals.len();
            }
        }
        let parent: Byte32 = t1.parent_hash.clone().into();
        let block: ckb_types::packed::Block = t1.into();
        let blk = block.as_advanced_builder().build();
        // chain from genesis to the parent
        let mut path = vec![];
        let mut cur = self.blk_by_hash.get(&parent).copied();
        if cur.is_none() && parent != self.c.genesis_hash() {
            self.events.push(json!({"ev": "Template", "moment": moment, "parent": "?", "txs": [], "props": [], "judge": "unknown-parent", "bytes": 0, "cycles": 0,
                "maxBytes": 0, "maxCycles": 0, "maxProps": 0, "settled": false, "bad": ["template-on-unknown-parent"]}));
            return;
        }
        while let Some(i) = cur {
            path.push(self.blocks[i].view.clone());
            cur = self.blocks[i].parent;
        }
        path.reverse();
        self.probe_budget -= 1;
        self.n_templates += 1;
        let tmp_before = tmp_listing();
        let judge = builder_node(&self.c, &path);
        let verdict = match judge.submit_like_miner(&blk) {
            Ok(true) => "ok".to_string(),
            Ok(false) => "not-new".to_string(),
            Err(e) => format!("err: {}", e.chars().take(160).collect::<String>()),
        };
        let on_tip = judge.tip().1 == blk.hash();
        if drop_bounded(judge) {
            tmp_sweep(&tmp_before);
        }
        self.template_event(moment, &blk, parent, verdict, on_tip, settled);
    }

    /// One `Template` event: content in abstract names, sizes, the verdict of whoever judged the sealed block.
    pub fn template_event(&mut self, moment: &str, blk: &BlockView, parent: Byte32, verdict: String, on_tip: bool, settled: bool) {
        let mut bad: Vec<String> = vec![];
        let mut txs = vec![];
        let mut cycles = 0u64;
        for t in blk.transactions().iter().skip(1) {
            match self.tx_by_hash.get(&t.hash()) {
                Some(&i) => { txs.push(self.txs[i].name.clone()); cycles += self.txs[i].cycles; }
                None => bad.push(format!("template-tx-unknown:{:x}", t.hash())),
            }
        }
        let props: Vec<String> = blk.data().proposals().into_iter().map(|id| self.tx_by_short.get(&id).map(|&i| self.txs[i].name.clone()).unwrap_or("?".into())).collect();
        let pname = if parent == self.c.genesis_hash() { "genesis".to_string() } else { self.blocks[self.blk_by_hash[&parent]].name.clone() };
        let verdict = if verdict == "ok" && !on_tip { "accepted-but-not-tip".to_string() } else { verdict };
        // named case: uncle candidates of the previous epoch are alive while the template opens / continues a new epoch
        let snap = self.node.shared.snapshot();
        let boundary = self.detached_log.iter().any(|(n, e, h)| e + 1 == blk.epoch().number() && blk.number() - n <= 6 && !snap.is_main_chain(h));
        if boundary {
            self.n_boundary_templates += 1;
        }
        self.events.push(json!({"ev": "Template", "moment": moment, "parent": pname, "txs": txs, "props": props, "uncles": blk.uncles().data().len(),
            "judge": verdict, "bytes": blk.data().serialized_size_without_uncle_proposals(), "cycles": cycles,
            "maxBytes": self.c.max_block_bytes(), "maxCycles": self.c.max_block_cycles(), "maxProps": self.c.max_block_proposals_limit(),
            "settled": settled, "boundary": boundary, "epoch": blk.epoch().number(), "bad": bad}));
    }

    pub fn pooled(&self) -> Vec<usize> {
        let info = self.ctl().get_all_entry_info().unwrap();
        info.pending.keys().chain(info.proposed.keys()).filter_map(|h| self.tx_by_hash.get(h).copied()).collect()
    }

    // ------------------------------------------------------------------ operations
    pub fn submit(&mut self, t: usize) -> Result<(), String> {
        // a panic inside the pool's task drops the responder: the request fails as a whole.  That is data (the
        // specification has no such outcome), not a tool error.
        let r = match self.ctl().submit_local_tx(self.txs[t].view.clone()) {
            Ok(r) => r.map_err(|e| e.to_string()),
            Err(e) => {
                self.pending_bad.push(format!("pool-panic:submit:{}", e.to_string().chars().take(60).collect::<String>()));
                Err("PANIC".to_string())
            }
        };
        let cls = match &r {
            Ok(()) => "ok".to_string(),
            Err(e) => e.split(|c: char| !c.is_alphanumeric()).next().unwrap_or("").to_string(),
        };
        let name = self.txs[t].name.clone();
        self.emit_with("Submit", json!({"t": name.clone(), "ok": r.is_ok(), "why": cls}), &[name]);
        r
    }

    pub fn remove(&mut self, t: usize) -> bool {
        let r = self.ctl().remove_local_tx(self.txs[t].view.hash()).unwrap();
        let name = self.txs[t].name.clone();
        self.emit("Remove", json!({"t": name, "ok": r}));
        r
    }

    pub fn advance(&mut self, ms: u64) {
        self.now += ms;
        let g = ckb_systemtime::faketime();
        g.set_faketime(self.now);
        std::mem::forget(g); // dropping the guard would switch faketime off
    }

    fn register_block(&mut self, b: &BlockView) -> usize {
        if let Some(&i) = self.blk_by_hash.get(&b.hash()) {
            return i;
        }
        let parent = self.blk_by_hash.get(&b.parent_hash()).copied();
        let mut props: Vec<String> = b.union_proposal_ids().iter().filter_map(|id| self.tx_by_short.get(id).map(|&i| self.txs[i].name.clone())).collect();
        props.sort();
        let mut unknown = 0;
        let commits: Vec<String> = b.transactions().iter().skip(1).filter_map(|t| match self.tx_by_hash.get(&t.hash()) {
            Some(&i) => Some(self.txs[i].name.clone()),
            None => { unknown += 1; None }
        }).collect();
        let idx = self.blocks.len();
        let name = format!("{}b{}", self.prefix, idx + 1);
        self.blocks.push(BlkRec { name, view: b.clone(), parent, props, commits, unknown_commits: unknown });
        self.blk_by_hash.insert(b.hash(), idx);
        idx
    }

    pub fn blk_json(&self, i: usize) -> Value {
        let b = &self.blocks[i];
        json!({"id": b.name, "props": b.props, "commits": b.commits})
    }

    /// After the node processed blocks: bring `self.chain` in line with the node's main chain and emit one
    /// `Reorg` event (detached count, attached blocks) once the pool has caught up.
    pub fn sync_chain(&mut self, expirable: Vec<String>) -> Result<(usize, usize), String> {
        if !self.node.quiesce() {
            return Err("chain did not quiesce".into());
        }
        if !self.node.wait_pool_synced() {
            return Err("pool did not catch up with the chain tip".into());
        }
        let snap = self.node.shared.snapshot();
        let tip_n = snap.tip_number() as usize;
        // find the fork point
        let mut keep = self.chain.len().min(tip_n);
        while keep > 0 {
            let h = snap.get_block_hash(keep as u64).unwrap();
            if self.blocks[self.chain[keep - 1]].view.hash() == h {
                break;
            }
            keep -= 1;
        }
        let detached = self.chain.len() - keep;
        let mut attached = vec![];
        for n in keep + 1..=tip_n {
            let h = snap.get_block_hash(n as u64).unwrap();
            let i = match self.blk_by_hash.get(&h) {
                Some(&i) => i,
                None => {
                    let b = snap.get_block(&h).unwrap();
                    self.register_block(&b)
                }
            };
            attached.push(i);
        }
        if detached == 0 && attached.is_empty() {
            return Ok((0, 0));
        }
        let old_tail: Vec<usize> = self.chain[keep..].to_vec();
        for &i in &old_tail {
            let v = &self.blocks[i].view;
            self.detached_log.push((v.number(), v.epoch().number(), v.hash()));
        }
        self.chain.truncate(keep);
        self.chain.extend(attached.iter().cloned());
        let att: Vec<Value> = attached.iter().map(|&i| self.blk_json(i)).collect();
        let mut back: Vec<String> = vec![];
        for &i in &old_tail {
            back.extend(self.blocks[i].commits.iter().cloned());
        }
        self.emit_with("Reorg", json!({"detach": detached, "attach": att, "expirable": expirable}), &back);
        Ok((detached, attached.len()))
    }

    /// Process one block on the node under test and account for the resulting chain change.
    pub fn feed(&mut self, b: &BlockView) -> Result<(usize, usize), String> {
        stage(&format!("feed block {}", b.number()));
        self.register_block(b);
        let exp = self.expirable();
        let r = self.node.process(b);
        if let Err(e) = &r {
            return Err(format!("block rejected: {}", e));
        }
        // C13: the chain has the block, the pool may not have processed the notification yet
        if self.probe_templates && self.probe_rng.chance(1, 2) {
            self.probe_template("after-block-before-pool-sync", false);
        }
        self.sync_chain(exp)
    }

    /// Mine the node's own template.
    pub fn mine(&mut self) -> Result<BlockView, String> {
        let b = self.node.mine(0);
        match self.feed(&b) {
            Ok(_) => Ok(b),
            Err(e) => {
                // the node refused the block sealed from ITS OWN template: that is what C13 forbids - recorded as a template
                // judged by the node itself (the history ends here: the world's chain no longer follows)
                if e.starts_with("block rejected") && self.blk_by_hash.contains_key(&b.parent_hash()) | (b.parent_hash() == self.c.genesis_hash()) {
                    self.n_templates += 1;
                    self.template_event("self-mined", &b, b.parent_hash(), format!("err: {}", e.chars().take(160).collect::<String>()), false, false);
                }
                Err(e)
            }
        }
    }

    /// Assemble a block with chosen proposals and commits on the node's tip and process it.
    pub fn attach(&mut self, props: &[usize], commits: &[usize], nonce: u64) -> Result<BlockView, String> {
        let spec = BlockSpec {
            commits: commits.iter().map(|&t| self.txs[t].view.clone()).collect(),
            proposals: props.iter().map(|&t| self.txs[t].view.proposal_short_id()).collect(),
            nonce,
            ..Default::default()
        };
        let b = assemble(&self.node, &spec)?;
        self.feed(&b).map(|_| b)
    }

    /// Build a side branch forking `depth` blocks below the tip, `len` blocks long, block i carrying
    /// `content(i)` = (proposals, commits); deliver it. Returns (detached, attached) of the resulting switch.
    pub fn reorg(&mut self, depth: usize, contents: &[(Vec<usize>, Vec<usize>)], nonce: u64) -> Result<(usize, usize), String> {
        let keep = self.chain.len() - depth.min(self.chain.len());
        let anc: Vec<BlockView> = self.chain[..keep].iter().map(|&i| self.blocks[i].view.clone()).collect();
        stage("reorg: builder node");
        let tmp_before = tmp_listing();
        let m = builder_node(&self.c, &anc);
        let mut side = vec![];
        for (k, (props, commits)) in contents.iter().enumerate() {
            // under real difficulty adjustment the side branch keeps its own clock: the epoch it derives at the next boundary
            // (length, target) then differs from the main chain's
            let ts = if self.scn.adjust { m.shared.snapshot().tip_header().timestamp() + BLOCK_INTERVAL_MS + 1000 * ((nonce + k as u64) % 5 + 1) } else { 0 };
            let spec = BlockSpec {
                commits: commits.iter().map(|&t| self.txs[t].view.clone()).collect(),
                proposals: props.iter().map(|&t| self.txs[t].view.proposal_short_id()).collect(),
                nonce: nonce + k as u64,
                ts,
                ..Default::default()
            };
            let b = match assemble(&m, &spec) {
                Ok(b) => b,
                Err(_) => assemble(&m, &BlockSpec { nonce: nonce + k as u64, ts, ..Default::default() })?,
            };
            if m.process(&b).is_err() {
                // content not valid on that branch: fall back to an empty block
                let e = assemble(&m, &BlockSpec { nonce: nonce + 1000 + k as u64, ts, ..Default::default() })?;
                m.process(&e).map_err(|e| format!("builder rejects empty block: {e}"))?;
                side.push(e);
            } else {
                side.push(b);
            }
        }
        stage("reorg: drop builder");
        if drop_bounded(m) {
            tmp_sweep(&tmp_before);
        }
        let mut tot = (0, 0);
        for b in &side {
            let (d, a) = self.feed(b)?;
            tot.0 += d;
            tot.1 += a;
        }
        Ok(tot)
    }

    /// Drop the node and remove what it left in $TMPDIR.
    pub fn dispose(self) {
        stage("dispose");
        let before = self.tmp_before.clone();
        if drop_bounded(self) {
            tmp_sweep(&before);
        }
    }

    /// All recorded events, preceded by nothing (the python side merges universes).
    pub fn finish_json(&self) -> Value {
        json!({"stopped": self.stop_reason, "universe": self.universe_json(), "genesis": self.outs.iter().filter(|o| o.creator.is_none()).map(|o| json!([o.name.0, o.name.1])).collect::<Vec<_>>(), "events": self.events})
    }

    /// Outputs that look spendable right now (creator pooled or committed on the main chain, not spent by
    /// a pooled or committed transaction) — only a generator heuristic.
    pub fn spendable(&self) -> Vec<usize> {
        let pooled: HashSet<usize> = self.pooled().into_iter().collect();
        let snap = self.node.shared.snapshot();
        let mut spent: HashSet<usize> = HashSet::new();
        for (i, t) in self.txs.iter().enumerate() {
            if pooled.contains(&i) || snap.transaction_exists(&t.view.hash()) {
                spent.extend(t.ins.iter().cloned());
            }
        }
        (0..self.outs.len())
            .filter(|o| !spent.contains(o))
            .filter(|&o| match self.outs[o].creator {
                None => true,
                Some(c) => pooled.contains(&c) || snap.transaction_exists(&self.txs[c].view.hash()),
            })
            .collect()
    }
}

/// Paths below $TMPDIR that nodes create: top-level entries (sled header-map directories `ckb-tmp-*`, network
/// directories) and the per-node `db_<n>` directories inside the process-wide base directory `.tmp*` of
/// `SharedBuilder::with_temp_db` (~75 MB each; they stay behind even when the node is dropped).
pub fn tmp_listing() -> HashSet<std::path::PathBuf> {
    let mut v = HashSet::new();
    if let Ok(d) = std::fs::read_dir(std::env::temp_dir()) {
        for e in d.flatten() {
            let p = e.path();
            if e.file_name().to_string_lossy().starts_with(".tmp") {
                if let Ok(dd) = std::fs::read_dir(&p) {
                    v.extend(dd.flatten().map(|x| x.path()));
                }
            }
            v.insert(p);
        }
    }
    v
}
/// Remove every such path that is not in `before` (call only after the nodes created since then are dropped; the
/// harness process owns its TMPDIR and creates nodes from one thread).
pub fn tmp_sweep(before: &HashSet<std::path::PathBuf>) {
    for p in tmp_listing() {
        let base = p.file_name().map(|n| n.to_string_lossy().starts_with(".tmp")).unwrap_or(false);
        if !before.contains(&p) && !base {
            if p.is_dir() { let _ = std::fs::remove_dir_all(&p); } else { let _ = std::fs::remove_file(&p); }
        }
    }
}

/// Drop a node (or a world) on a helper thread; a drop that hangs (service shutdown order) is abandoned after 5 s.
/// Returns whether the drop completed.
pub fn drop_bounded<T: Send + 'static>(x: T) -> bool {
    let (tx, rx) = std::sync::mpsc::channel();
    std::thread::spawn(move || {
        drop(x);
        let _ = tx.send(());
    });
    rx.recv_timeout(std::time::Duration::from_secs(5)).is_ok()
}

pub fn parse_hash(s: &str) -> Option<Byte32> {
    if s.len() != 64 {
        return None;
    }
    let mut b = [0u8; 32];
    for i in 0..32 {
        b[i] = u8::from_str_radix(&s[2 * i..2 * i + 2], 16).ok()?;
    }
    Some(b.pack())
}
