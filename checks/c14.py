"""C14 — caches never change a verdict or an answer.

1. TLC exhaustively checks Caches.tla: the cache-free semantics and the node with caches (verification cache keyed by
   witness hash with the coded hit path, store read caches dropped on delete) over every history of the slot schedule
   (pool, pool, X5, X6, pool, Y5, Y6, Y7; contents none / wa / wb / s; cold and warm start); CacheTransparent must hold,
   and must be violated by each broken variant (key by tx hash, skip time-relative checks on a hit, stale read caches).
2. Differential R: complete histories exported by TLC are executed on three real nodes (A default caches cold, B all
   cache sizes 0 + verification cache emptied before every step, C warm + every query twice); every node's log must
   agree with the spec's cache-free expectation (verdict, failure class, which blocks exist afterwards) and the logs
   must agree with each other on every verdict, pool entry (cycles, fee), BlockExt and query answer.
"""
import json
import os
import random
from concurrent.futures import ThreadPoolExecutor

import vcheck as V

PID = "C14"
BUGS = ["bug_key", "bug_key_warm", "bug_time", "bug_stale", "bug_maturity"]


def export_histories(c):
    res = V.tlc(PID, "MC_Caches", "MC_Caches_cold.cfg", workers=4, timeout=900)
    if res["violated"]:
        c.violation("model/" + res["violated"], "Caches.tla violates %s (cold start)" % res["violated"],
                    {"kind": "model", "cfg": "MC_Caches_cold.cfg", "tlc_tail": res["out"][-3000:]})
    V.require_coverage(res, ["Next"], "MC_Caches_cold.cfg")
    c.add_tlc(res, "MC_Caches_cold.cfg")
    hs = V.tlc_json_lines(res["out"], "HIST")
    if len(hs) < 1000:
        raise V.ToolError("too few histories exported: %d" % len(hs))
    return hs


def features(h):
    f = set()
    seen_ok = set()
    for e in h:
        if e["k"] == "block" and e["verdict"] != "ok":
            f.add("rejected-block")
            f.add("rejected-" + e["verdict"])
        if e["k"] == "block" and e["verdict"] == "immature":
            # the unverified blocks of the branch whose verification just failed
            later = [x["v"] for x in h if x["k"] == "block" and x["g"] == e["g"] and x["h"] <= e["h"]]
            if "s" in seen_ok and "s" in later:
                f.add("immature-after-s-verified")
            if "m" in seen_ok and "m" in later:
                f.add("immature-after-m-verified")
        if e["verdict"] == "ok" and e["v"] in ("wa", "s", "m") and (e["k"] == "pool" or e["cyc"] == "verified"):
            seen_ok.add(e["v"])
        if e["v"] == "wb" and "wa" in seen_ok:
            f.add("wb-after-wa-verified")
        if e["k"] == "block" and e["g"] == "Y" and e["h"] == 7 and e["verdict"] == "ok":
            f.add("reorg")
        if e["k"] == "pool" and e["verdict"] == "ok":
            f.add("pool-accept")
    return f


def pick(hs, n, rnd):
    """seeded sample that covers every feature several times"""
    idx = list(range(len(hs)))
    rnd.shuffle(idx)
    chosen, need = [], {}
    for f in ["immature-after-m-verified", "immature-after-s-verified", "wb-after-wa-verified", "reorg", "rejected-script", "rejected-dead",
              "rejected-immature", "pool-accept"]:
        need[f] = max(2, n // 8)
    for i in idx:
        fs = features(hs[i])
        useful = [f for f in fs if need.get(f, 0) > 0]
        if useful and len(chosen) < n:
            chosen.append(i)
            for f in fs:
                if f in need:
                    need[f] -= 1
    for i in idx:
        if len(chosen) >= n:
            break
        if i not in chosen:
            chosen.append(i)
    return chosen


def replay_chunk(args):
    k, items, nodes = args
    path = os.path.join(V.workdir(PID), "hist_%d.ndjson" % k)
    with open(path, "w") as f:
        for i, h in items:
            f.write(json.dumps({"id": i, "hist": h}) + "\n")
    rc, out = V.ckbv("c14", ["replay", "--in", path, "--nodes", nodes], timeout=3300)
    lines = V.parse_ndjson(out)
    summ = [x for x in lines if "summary" in x]
    if rc != 0 or not summ:
        V.log(out[-3000:])
        raise V.ToolError("c14 replay failed rc=%d" % rc)
    return [x["history"] for x in lines if "history" in x]


def target_kind(label):
    if label.endswith("!"):
        return "deleted-block-in-cache"
    if label == "absent":
        return "unknown-hash"
    if label[0] in "XY" or label[0] == "m":
        return "stored-block"
    if label == "chain":
        return "chain"
    if label.startswith("#"):
        return "by-number"
    return "transaction-or-cell"


def judge(c, H, stats):
    """one history on its nodes: spec expectation per node, then differential against the cache-free node B"""
    hid, hist, logs = H["id"], H["hist"], {l["node"]: l for l in H["logs"]}
    viol = {}

    def report(key, text, detail):
        viol.setdefault(key, []).append((text, detail))

    for node, log in logs.items():
        steps = log["steps"][1:]
        for n, (e, st) in enumerate(zip(hist, steps)):
            want = "ok" if e["verdict"] == "ok" else "reject"
            if st["verdict"] != want or (e["k"] == "block" and want == "reject" and st["class"] != e["verdict"]):
                report("verdict-vs-spec/%s/%s" % (e["k"], e["v"]),
                       "node %s step %d %s %s: spec %s, node %s/%s (%s)" % (node, n + 1, e["k"], e["v"], e["verdict"], st["verdict"], st["class"], st.get("text", "")[:80]),
                       {"node": node, "step": n + 1})
            stats["steps"] += 1
            if st.get("vhit"):
                stats["vcache_hits_" + node] = stats.get("vcache_hits_" + node, 0) + 1
                if st["class"] == "immature":
                    stats["immature_on_hit"] += 1
            if st.get("m_cached") and st["class"] == "immature" and "CellbaseImmaturity" in st.get("text", ""):
                stats["cellbase_maturity_rechecked_with_cached_tx"] += 1
            if e["k"] == "block" and not st.get("skipped"):
                label = "%s%d%s" % (e["g"], e["h"], "" if want == "ok" else "!")
                a = st["answers"]
                exists = a.get("block_exists|" + label)
                if want == "reject":
                    stats["rejected_blocks"] += 1
                    # a rejected block is deleted: every getter answers as for an unknown hash
                    for key, val in a.items():
                        g, t = key.split("|")
                        if t == label and g not in ("get_block_ext",) and val != a.get(g + "|absent"):
                            report("query-divergence/deleted-block-in-cache/" + g,
                                   "node %s: %s of the rejected and deleted block %s answers %s (an unknown hash: %s)" % (node, g, label, val[:50], a.get(g + "|absent")),
                                   {"node": node, "step": n + 1})
                elif exists != "true":
                    report("query-vs-spec/kept-block-missing", "node %s: block %s kept by the spec is missing" % (node, label), {"node": node, "step": n + 1})
            if node == "C" and st.get("second_query_equal") is False:
                report("query-divergence/second-query-differs", "node C step %d: the same query vector issued twice differs" % (n + 1), {"step": n + 1})
    ref = logs.get("B")
    if ref:
        for node, log in logs.items():
            if node == "B":
                continue
            for n, (sr, sn) in enumerate(zip(ref["steps"], log["steps"])):
                e = hist[n - 1] if n > 0 else {"k": "init", "v": "-"}
                for fld in ("verdict", "class"):
                    if sr.get(fld) != sn.get(fld):
                        report("verdict-divergence/%s/%s" % (e["k"], e["v"]),
                               "step %d %s %s: node B %s/%s, node %s %s/%s" % (n, e["k"], e["v"], sr.get("verdict"), sr.get("class"), node, sn.get("verdict"), sn.get("class")),
                               {"node": node, "step": n})
                        break
                if sr.get("entry") != sn.get("entry"):
                    report("recorded-divergence/pool-entry", "step %d: pool entry on B %s, on %s %s" % (n, sr.get("entry"), node, sn.get("entry")), {"node": node, "step": n})
                ar, an = sr["answers"], sn["answers"]
                for key in sorted(set(ar) | set(an)):
                    stats["answers"] += 1
                    if ar.get(key) != an.get(key):
                        g, t = key.split("|")
                        kind = target_kind(t)
                        k2 = "recorded-divergence/block-ext" if g == "get_block_ext" and kind != "deleted-block-in-cache" else "query-divergence/%s/%s" % (kind, g)
                        report(k2, "step %d: %s of %s: cache-free node B %s, node %s %s" % (n, g, t, str(ar.get(key))[:60], node, str(an.get(key))[:60]),
                               {"node": node, "step": n})
    for key, items in sorted(viol.items()):
        c.violation(key, "%s  [%d such observations in history %s]" % (items[0][0], len(items), hid),
                    {"kind": "history", "id": hid, "hist": hist, "first": [d for _, d in items[:5]], "count": len(items)})
    return len(viol)


def run_histories(c, items, nodes, par):
    chunks = [(k, items[k::par], nodes) for k in range(par) if items[k::par]]
    with ThreadPoolExecutor(max_workers=par) as ex:
        res = list(ex.map(replay_chunk, chunks))
    stats = {"steps": 0, "answers": 0, "rejected_blocks": 0, "immature_on_hit": 0, "cellbase_maturity_rechecked_with_cached_tx": 0}
    bad = 0
    for hs in res:
        for H in hs:
            bad += 1 if judge(c, H, stats) else 0
            fs = features(H["hist"])
            c.case({"hist": H["hist"]}, bool(fs & {"immature-after-s-verified", "immature-after-m-verified", "wb-after-wa-verified", "rejected-block"}))
            c.add("traces_validated_against_impl", len(H["logs"]))
            if len(c.cov["samples"]) < 3:
                c.sample({"history": H["hist"], "node_A_verdicts": [[s.get("verdict"), s.get("class"), s.get("vhit")] for s in H["logs"][0]["steps"][1:]]})
    stats["histories_with_violations"] = bad
    return stats


def run(tier):
    c = V.Check(PID, "model_checking", tier)
    c.rule = ("cases = complete histories of the slot schedule exported by TLC and replayed on real nodes A/B/C; non-trivial = "
              "the history contains a rejected (stored then deleted) block, a failing witness variant after the passing one was "
              "verified, or an immature commit after the since-transaction was verified")
    c.assumptions = [
        "all hard forks active from epoch 0 (script version selection is context-independent)",
        "genesis system cells are never spent (the process-global SYSTEM_CELL cache is not exercised)",
        "the cache-free node is approximated by all StoreConfig cache sizes 0 plus emptying the tx-verification cache before every step",
        "replay covers a seeded, feature-covering sample of the histories TLC enumerates exhaustively",
        "pool verdicts are compared as accept / reject with the spec and as reject classes between the nodes",
    ]
    hs = export_histories(c)
    res = V.tlc(PID, "MC_Caches", "MC_Caches_warm.cfg", workers=4, timeout=900)
    if res["violated"]:
        c.violation("model/" + res["violated"], "Caches.tla violates %s (warm start)" % res["violated"],
                    {"kind": "model", "cfg": "MC_Caches_warm.cfg", "tlc_tail": res["out"][-3000:]})
    c.add_tlc(res, "MC_Caches_warm.cfg")
    c.set("exhaustive", True)
    rej = {}
    for b in BUGS:
        r = V.tlc(PID, "MC_Caches", "MC_Caches_%s.cfg" % b, workers=4, timeout=600)
        if r["violated"] != "CacheTransparent":
            raise V.ToolError("oracle self-test failed: %s does not violate CacheTransparent" % b)
        rej[b] = r["violated"]
    c.set("selftest_broken_caches_rejected_by", rej)
    n, par, nodes = (28, 4, "ABCE") if tier == "quick" else (120, 4, "ABCDE")
    rnd = random.Random(V.seed())
    chosen = pick(hs, n, rnd)
    V.build_harness("c14")
    # directed: a LONG abandoned reorganisation.  Branch X (7 empty blocks) is the main chain; branch Y (7 empty blocks, stored
    # unverified: never heavier) gets an eighth block that commits a transaction outside its proposal window (an invalid block): the node verifies Y5..Y12 in
    # one database transaction - the reward rule of the later Y blocks reads the number index THROUGH that transaction, which
    # names Y blocks - and abandons it at Y12.  Every by-number answer must still name branch X.
    longfork = ([{"k": "block", "g": "X", "h": 5 + i, "v": "none", "verdict": "ok", "cyc": "none"} for i in range(7)]
                + [{"k": "block", "g": "Y", "h": 5 + i, "v": "none", "verdict": "ok", "cyc": "none"} for i in range(7)]
                + [{"k": "block", "g": "Y", "h": 12, "v": "wb", "verdict": "other", "cyc": "none"}]
                + [{"k": "block", "g": "X", "h": 12, "v": "none", "verdict": "ok", "cyc": "none"}])
    stats = run_histories(c, [(i, hs[i]) for i in chosen] + [(len(hs), longfork)], nodes, par)
    stats["histories_exported"] = len(hs)
    stats["histories_replayed"] = len(chosen)
    c.set("replay", stats)
    # a vacuity alarm never hides a violation that was found
    if not c.violations and (stats.get("vcache_hits_A", 0) < 1 or stats.get("vcache_hits_C", 0) < 1 or stats["rejected_blocks"] < 1
            or stats["immature_on_hit"] < 1 or stats["cellbase_maturity_rechecked_with_cached_tx"] < 1
            or stats.get("vcache_hits_B", 0) != 0):
        raise V.ToolError("vacuous replay: %s" % stats)
    return c.finish()


def replay(path, tier):
    c = V.Check(PID, "model_checking", tier)
    r = json.load(open(path))
    p = r["payload"]
    if p["kind"] == "model":
        res = V.tlc(PID, "MC_Caches", p["cfg"], workers=4)
        if res["violated"]:
            c.violation("model/" + res["violated"], "model violation", p)
    else:
        V.build_harness("c14")
        run_histories(c, [(p["id"], p["hist"])], "ABCDE", 1)
    return 1 if c.violations else 0
