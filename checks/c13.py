"""C13 — every block template handed to miners would be accepted by the node itself.

1. TLC (MC_PoolReorg + Template.tla): in every reachable state of the pool/chain model (submissions, blocks, reorgs,
   asynchronous notification processing) EVERY ancestor-closed selection of proposed entries is committable on the
   pool's chain view (TemplateSound) - so an ancestor-closed, proposed-only template is valid whatever heuristic
   picks it.  Self-test: with conflict removal switched off a proposed transaction with a dead input stays pooled and the claim must fail.
2. T: the C12 histories run on nodes with a block assembler (harness c13); at many moments - after an operation, and
   right after a block reached the chain service while the pool has not processed the notification yet -
   get_block_template is called, the template is sealed unchanged and a JUDGE node synchronised exactly to the
   template's parent (builder node fed the path from genesis) verifies it like a miner's submission (HeaderVerifier +
   chain service).  Every template becomes a Template event validated by Trace_TxPool.tla!TemplateValid: judge
   accepted, byte / cycle / proposal limits, content committable on the chain up to its parent in the given order
   (proposed in the window, not committed, parents first, no conflicts, deps not yet spent, header deps on chain), and
   - when the template is settled on the current tip - no transaction without all of its in-pool ancestors.
"""
import concurrent.futures as cf
import json
import os
import re
import threading

import vcheck as V
import c11 as C11

PID = "C13"
ACTIONS = ["Submit", "NodeAttach", "NodeReorg", "PoolProcess"]
INVARIANTS = ["NoAnomaly", "TemplateValid"]
_LOCK = threading.Lock()


def signature(ev, violated):
    if violated is None:
        return "not-a-behaviour/%s" % ev["ev"]
    if violated == "NoAnomaly":
        return "anomaly/%s" % ev["bad"][0].split(":")[0]
    if ev["ev"] == "Template":
        if ev["judge"] != "ok":
            return "template-rejected/%s/%s" % (ev["moment"], re.sub(r"[^A-Za-z]+", "-", ev["judge"])[:60])
        if ev["bytes"] > ev["maxBytes"] or ev["cycles"] > ev["maxCycles"] or len(ev["props"]) > ev["maxProps"]:
            return "template-over-limit/%s" % ev["moment"]
        return "template-content/%s" % ev["moment"]
    return "%s/%s" % (violated, ev["ev"])


def validate(c, tag, doc, meta):
    wd = V.workdir(PID, "traces")
    path = os.path.join(wd, tag + ".ndjson")
    cfg = os.path.join(wd, tag + ".cfg")
    C11.trace_cfg(cfg, INVARIANTS)
    events = doc["events"]
    for e in events:
        if e["ev"] == "Template":                     # TLC integers are 32 bit; max_block_cycles is 3.5e9
            for k in ("maxCycles", "maxBytes", "cycles", "bytes"):
                e[k] = min(e[k], 2 * 10 ** 9)
    C11.write_trace(path, doc["universe"], doc["genesis"], [events])
    ok, res = V.validate_trace(PID, "Trace_TxPool", cfg, path, tag="tr_" + tag, timeout=900)
    if ok:
        return True, len(events)
    m = re.search(r'<<\s*"TRACE-REJECTED",\s*(\d+),', res["out"])
    if m:
        d = int(m.group(1))
    elif res["violated"] and res["generated"]:
        d = res["generated"]
    else:
        V.log(res["out"][-3000:])
        raise V.ToolError("trace validation of %s ended without a verdict" % tag)
    at = d - 1 if res["violated"] else d
    idx = max(0, min(at - 2, len(events) - 1))
    frag = events[:idx + 1]
    key = signature(frag[-1], res["violated"])
    if res["violated"] is None and frag[-1]["ev"] != "Template":
        # the pool's own step is C11 / C12 business (their checks report it); C13 judges templates only
        V.log("[C13] history %s leaves TxPool.tla at event %d (%s): templates after it are not judged" % (tag, idx + 1, frag[-1]["ev"]))
        return False, idx
    with _LOCK:
        c.violation(key, "history %s: event %d (%s) %s" % (tag, idx + 1, frag[-1]["ev"],
                    ("violates " + res["violated"]) if res["violated"] else "is not a step the spec allows"),
                    {"kind": "trace", "universe": doc["universe"], "genesis": doc["genesis"], "events": frag, "meta": meta,
                     "violated": res["violated"], "tlc_tail": res["out"][-1200:]})
    return False, idx


def run_random(seed, steps, profile, n):
    wd = V.workdir(PID, "hist")
    out = os.path.join(wd, "random_%d.json" % n)
    args = ["random", "--seed", seed, "--steps", steps, "--profile", profile, "--probes", 40, "--out", out]
    rc, o = V.ckbv("c13", args, timeout=1700)
    if rc == 3 and "WATCHDOG" in o:
        # a service of the node under test stopped responding (the harness' watchdog: no progress for 180 s).  A hang that
        # REPEATS at the same stage of the same seeded history is data, not tool trouble
        st1 = re.findall(r"WATCHDOG: no progress for \d+s at stage '([^']*)'", o)
        rc, o = V.ckbv("c13", args, timeout=1700)
        st2 = re.findall(r"WATCHDOG: no progress for \d+s at stage '([^']*)'", o)
        if rc == 3 and st1 and st1 == st2:
            return {"hang": {"seed": seed, "steps": steps, "profile": profile, "stage": st1[-1]}}
    if rc != 0 or not os.path.exists(out):
        V.log(o[-3000:])
        raise V.ToolError("c13 random failed rc=%d" % rc)
    return json.loads(open(out).readline())


def phase_mc(c, tier):
    cfgs = ["MC_PoolReorg_quickgap.cfg"] if tier == "quick" else ["MC_PoolReorg_quickgap.cfg", "MC_PoolReorg_quick.cfg", "MC_PoolReorg_fullgap.cfg"]
    for cfg in cfgs:
        res = V.tlc(PID, "MC_PoolReorg", cfg, workers=4, timeout=1700, xmx="8g", coverage=(cfg != "MC_PoolReorg_fullgap.cfg"))
        if res["violated"]:
            c.violation("model/" + res["violated"], "MC_PoolReorg violates %s in %s" % (res["violated"], cfg),
                        {"kind": "model", "cfg": cfg, "tlc_tail": res["out"][-3000:]})
        if res["coverage"]:
            V.require_coverage(res, ACTIONS, cfg)
        c.add_tlc(res, cfg)
    c.set("exhaustive", True)
    r = V.tlc(PID, "MC_PoolReorg", "MC_PoolReorg_mut_keep_conflicts_t.cfg", workers=4, timeout=1200, coverage=False)
    if r["violated"] != "TemplateSound":
        raise V.ToolError("oracle self-test failed: conflicts kept -> %s" % r["violated"])
    c.set("selftest_conflicts_kept_rejected_by", r["violated"])


def run(tier):
    c = V.Check(PID, "model_checking", tier)
    c.rule = ("cases = block templates taken from a real node during reorg-heavy histories, each sealed and verified by a judge "
              "node synchronised to the template's parent, and checked by TLC against TemplateValid; non-trivial = the template "
              "commits at least one transaction, or carries an uncle, or was taken before the pool had processed a block")
    c.assumptions = [
        "the judge node = a fresh node fed the path genesis..parent, then HeaderVerifier + ChainController::blocking_process_block on the sealed template (the verdict is the oracle for reward / DAO / epoch / target / chain root / uncle rules)",
        "the template is sealed unchanged (its own timestamp, dummy PoW)",
        "AncestorClosed is demanded only of templates on the current tip that the assembler hands out unchanged twice around a pool dump",
        "bytes_limit / proposals_limit / max_version arguments of get_block_template are not varied (the service ignores them)",
    ]
    V.build_harness("c13")
    nh, steps = (8, 50) if tier == "quick" else (36, 100)
    # 8 = tiny epochs under REAL difficulty adjustment (a reorganisation across an epoch boundary derives another next epoch);
    # 4 = tiny epochs: uncle candidates meet the next epoch's templates; 5 / 6 / 7 = tight cycle / byte / byte-by-proposals limits with a backlog
    profiles = [4, 5, 0, 2, 3, 6, 7, 8] if tier == "quick" else [4, 5, 0, 6, 2, 7, 3, 8]
    with cf.ThreadPoolExecutor(max_workers=1) as bg:
        fut = bg.submit(phase_mc, c, tier)
        seeds = [(V.seed() * 1000 + i, steps, profiles[i % len(profiles)], i) for i in range(nh)]
        with cf.ThreadPoolExecutor(max_workers=6) as ex:
            docs = list(ex.map(lambda a: run_random(*a), seeds))
        for d in [x for x in docs if "hang" in x]:
            h = d["hang"]
            c.violation("hang/%s" % re.sub(r"[^a-z]+", "-", h["stage"].lower()).strip("-"),
                        "history seed %s profile %s: the node under test stopped responding (no progress for 180 s, twice, at stage '%s')" % (
                            h["seed"], h["profile"], h["stage"]), {"kind": "hang", "args": h})
        docs = [x for x in docs if "hang" not in x]
        judged = 0
        with cf.ThreadPoolExecutor(max_workers=8) as ex:
            results = list(ex.map(lambda x: validate(c, "random_%d" % x[0], x[1], {"source": "random", "args": x[1]["summary"]}), list(enumerate(docs))))
        tot = {"templates": 0, "judged_ok": 0, "with_commits": 0, "with_uncles": 0, "before_pool_sync": 0, "settled": 0, "on_stale_parent": 0,
               "max_commits": 0, "reorgs": 0, "histories": len(docs),
               "with_uncle_candidates_right_after_epoch_boundary": 0, "uncles_included_after_boundary": 0,
               "at_cycle_limit": 0, "at_byte_limit": 0, "at_proposal_limit": 0, "at_byte_limit_with_uncles": 0,
               "at_byte_limit_by_proposals": 0}
        for (ok, nev), d in zip(results, docs):
            # the named vacuity case is about what the histories produced, whether or not a violation cut them short
            tot["with_uncle_candidates_right_after_epoch_boundary"] += sum(1 for e in d["events"] if e["ev"] == "Template" and e.get("boundary"))
            evs = d["events"][:nev] if not ok else d["events"]
            tips = []
            for e in evs:
                if e["ev"] == "Reorg":
                    tips = e["attach"][-1]["id"]
                if e["ev"] != "Template":
                    continue
                tot["templates"] += 1
                tot["judged_ok"] += e["judge"] == "ok"
                tot["with_commits"] += bool(e["txs"])
                tot["with_uncles"] += e.get("uncles", 0) > 0
                tot["before_pool_sync"] += e["moment"] != "after-operation"
                tot["settled"] += bool(e["settled"])
                tot["on_stale_parent"] += (e["parent"] != tips and e["parent"] != "genesis")
                tot["max_commits"] = max(tot["max_commits"], len(e["txs"]))
                tot["uncles_included_after_boundary"] += bool(e.get("boundary")) and e.get("uncles", 0) > 0
                # named case: the template is FULL - one more (smallest) transaction / proposal would break a consensus limit
                tot["at_cycle_limit"] += bool(e["txs"]) and e["cycles"] + 537 > e["maxCycles"]
                tot["at_byte_limit"] += bool(e["txs"]) and e["bytes"] + 230 > e["maxBytes"]
                tot["at_byte_limit_with_uncles"] += bool(e["txs"]) and e["bytes"] + 230 > e["maxBytes"] and e.get("uncles", 0) > 0
                tot["at_proposal_limit"] += len(e["props"]) == e["maxProps"]
                tot["at_byte_limit_by_proposals"] += len(e["props"]) >= 4 and e["bytes"] + 10 > e["maxBytes"]
                c.case({"h": d["summary"]["seed"], "parent": e["parent"], "txs": e["txs"], "props": e["props"], "m": e["moment"]},
                       bool(e["txs"]) or e.get("uncles", 0) > 0 or e["moment"] != "after-operation")
            tot["reorgs"] += d["summary"]["reorgs"]
        fut.result()
    c.add("traces_validated_against_impl", tot["templates"])
    tot["boundary_templates_under_adjustment"] = sum(d["summary"].get("boundary_templates", 0) for d in docs if d["summary"].get("profile") == 8)
    tot["dep_group_families_in_histories"] = sum(d["summary"].get("dep_groups", [0, 0, 0, 0])[2] for d in docs)
    tot["templates_while_a_dep_group_family_is_pooled"] = sum(1 for d in docs for e in d["events"] if e["ev"] == "Template" and e["moment"] == "dep-group-family")
    c.set("templates", tot)
    if c.violations:                       # a violation outranks the vacuity guards (cut histories count fewer templates)
        return c.finish()
    # a history never ends early on the unchanged tree: a fixture error is not silently dropped (a refusal of the node's own
    # template is a Template event of moment "self-mined" and was judged above)
    ended = [(d["summary"]["seed"], d["summary"]["error"]) for d in docs if d["summary"]["error"]]
    if ended:
        raise V.ToolError("histories ended by a fixture error: %s" % ended[:3])
    if tot["templates"] < 5 * nh or tot["with_commits"] == 0 or tot["before_pool_sync"] == 0 or tot["reorgs"] == 0:
        raise V.ToolError("vacuous run: %s" % tot)
    # named vacuity case: "template with uncle candidates right after an epoch boundary"
    if tot["with_uncle_candidates_right_after_epoch_boundary"] < 3:
        raise V.ToolError("vacuous: no template was taken with uncle candidates of the previous epoch alive: %s" % tot)
    if tot["boundary_templates_under_adjustment"] < 3:
        raise V.ToolError("vacuous: no template was taken around an epoch boundary under real difficulty adjustment: %s" % tot)
    # named vacuity case: "template filled up to a consensus limit while the pool holds more"
    if tot["at_cycle_limit"] < 2 or tot["at_proposal_limit"] < 2 or tot["at_byte_limit"] < 1:
        raise V.ToolError("vacuous: no template was taken at the cycle / proposal / byte limit: %s" % tot)
    for d in docs[:2]:
        for e in d["events"]:
            if e["ev"] == "Template" and e["txs"]:
                c.sample({"template": {k: e[k] for k in e if k != "bad"}})
                break
    return c.finish()


def replay(path, tier):
    c = V.Check(PID, "model_checking", tier)
    r = json.load(open(path))
    p = r["payload"]
    if p["kind"] == "model":
        res = V.tlc(PID, "MC_PoolReorg", p["cfg"], workers=8)
        if res["violated"]:
            c.violation("model/" + res["violated"], "model violation", p)
        return 1 if c.violations else 0
    if p["kind"] == "hang":
        a = p["args"]
        V.build_harness("c13")
        d = run_random(a["seed"], a["steps"], a["profile"], 9999)
        if "hang" in d:
            c.violation("hang/replayed", "the node under test stops responding again at stage '%s'" % d["hang"]["stage"], p)
        return 1 if c.violations else 0
    validate(c, "replayed", {"universe": p["universe"], "genesis": p["genesis"], "events": p["events"]}, p.get("meta"))
    m = p.get("meta") or {}
    if m.get("source") == "random":
        a = m["args"]
        V.build_harness("c13")
        d = run_random(a["seed"], a["steps"], a["profile"], 9999)
        validate(c, "rerun", d, m)
    return 1 if c.violations else 0
