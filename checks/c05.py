"""C05 — script verdict and cycle count do not depend on how execution is chunked.

1. TLC checks ScriptChunk.tla exhaustively on abstract cost profiles (all limits x <= 3-4 chunks x all budgets x
   pause instants): ChunkInvariance, BudgetExact, Accounting; the two transcribed deviations of the code
   (complete ignoring the suspended group, signal path resetting the budget) must be rejected (oracle self-test).
2. R (exact): the suspension profile of small real transactions is MEASURED (bisection over resumable_verify(L)),
   TLC enumerates every history over that profile (limits around every distance between two suspension points,
   budgets around the cost) and each history is replayed on the real TransactionScriptsVerifier: the state after
   every call (group, completed cycles, cycles inside the group) and the final result must equal the model's.
3. T (opaque): multi-VM / big programs: reference verify(MAX); chunk schedules = TLC-generated partition shapes
   scaled to the real cost, cuts aimed at every scheduler-iteration boundary (+-1, middle), swept step sizes;
   budgets cost-1 / cost / cost+1 for verify and complete; the signal path under seeded Suspend/Resume scripts.
   Every call is logged and the whole log is validated by TLC against Trace_ScriptChunk.tla.
4. VmScheduler.tla: multi-VM scheduler over spawn_dag-class programs (see run_vmsched).
"""
import json
import os
import random
import re

import vcheck as V

PID = "C05"
BIG = 2_000_000_000          # "unlimited" inside TLC (32-bit ints); u64::MAX on the real side
U64 = 2 ** 64 - 1
CHUNK_ACTIONS = ["MCChunk", "MCBudget", "MCSigStart", "MCSigSeg", "MCSigStop"]

# programs whose suspension profile is small enough to be measured exactly
EXACT = ["as:0", "as:2", "as3", "typeid", "exec:1", "exec:2", "exec_witness:2"]
# opaque programs (multi-VM, exec chains, failures); second field: heavy (thorough tier / fewer schedules)
OPAQUE_QUICK = ["cases:1", "cases:3", "cases:5", "cases:6", "cases:7", "cases:9", "cases:2", "cases:4", "cases:12",
                "cases:13", "strcat", "spawn_exec", "current_cycles", "io:128:1", "fail:0", "fail:2", "mix:1", "mix:2",
                "mix:5", "exec:1", "saturate"]
OPAQUE_THOROUGH = ["cases:%d" % i for i in range(1, 20)] + [
    "strcat", "strcat_wrap", "spawn_exec", "current_cycles", "spawn_cycles", "spawn_times", "io:128:1", "io:1152:0",
    "fail:0", "fail:1", "fail:2", "mix:1", "mix:2", "mix:5", "mix:9", "exec:1", "exec:2", "exec_witness:1",
    "saturate", "create17", "recursive", "fuzzing:1", "fuzzing:2", "fuzzing:3"]


# ------------------------------------------------------------------------------------------------
# harness plumbing
# ------------------------------------------------------------------------------------------------

def harness(jobs, tag, timeout=1500):
    wd = V.workdir(PID)
    path = os.path.join(wd, "jobs_%s.ndjson" % tag)
    with open(path, "w") as f:
        for n, j in enumerate(jobs):
            j["id"] = n
            f.write(json.dumps(j) + "\n")
    rc, out = V.ckbv("c05", ["jobs", "--in", path], timeout=timeout)
    recs = V.parse_ndjson(out)
    summ = [x for x in recs if "summary" in x]
    if rc != 0 or not summ or summ[0]["summary"]["jobs"] != len(jobs):
        V.log(out[-3000:])
        raise V.ToolError("c05 jobs (%s) failed rc=%d" % (tag, rc))
    byid = {r["id"]: r for r in recs if "id" in r}
    if len(byid) != len(jobs):
        raise V.ToolError("c05 jobs (%s): %d records for %d jobs" % (tag, len(byid), len(jobs)))
    for r in byid.values():
        if "error" in r:
            raise V.ToolError("c05 job error: %s" % r)
    return [byid[n] for n in range(len(jobs))]


def lim_real(l):
    return U64 if l >= BIG else l


def lim_tla(l):
    return BIG if l >= BIG else l


class Codes:
    """failure class string <-> small integer for TLC"""

    def __init__(self):
        self.ids = {}

    def of(self, cls):
        return self.ids.setdefault(cls, len(self.ids) + 1)


def final_event(fin, codes):
    """(res, fields) of a final result json of the harness"""
    if fin["kind"] == "ok":
        return {"res": "done", "cycles": fin["cycles"]}
    if fin["class"] == "exceeded":
        return {"res": "exceeded"}
    if fin["class"] == "interrupts":
        return {"res": "interrupts"}
    return {"res": "fail", "code": codes.of(fin["class"])}


def same_final(a, b):
    if a["kind"] != b["kind"]:
        return False
    if a["kind"] == "ok":
        return a["cycles"] == b["cycles"]
    return a["class"] == b["class"]


# ------------------------------------------------------------------------------------------------
# 2. exact binding
# ------------------------------------------------------------------------------------------------

def groups_from_profile(points, costs):
    """Charges [c, need] of every group from the measured step function (see ScriptChunk.tla)."""
    n = len(costs)
    ch = [[] for _ in range(n)]
    before = [sum(costs[:i]) for i in range(n + 1)]
    cur, g, ab = 1, 0, 0

    def clamp(x, hi):
        return max(0, min(x, hi))

    for pt in points:
        tcur = pt["cur"] if pt["cur"] != 0 else n + 1
        if pt["cur"] != 0 and pt["done"] != before[pt["cur"] - 1]:
            return None, "point %s: completed cycles differ from the sum of the group costs %s" % (pt, costs)
        while cur < tcur:
            c = costs[cur - 1] - g
            if c > 0:
                ch[cur - 1].append({"c": c, "need": clamp(pt["first"] - ab, c)})
            ab += c
            cur, g = cur + 1, 0
        if pt["cur"] != 0 and pt["gcons"] > g:
            c = pt["gcons"] - g
            ch[cur - 1].append({"c": c, "need": clamp(pt["first"] - ab, c)})
            ab += c
            g = pt["gcons"]
    if cur != n + 1:
        return None, "profile does not reach the end: %s" % points
    return [{"ch": ch[i], "exit": 0, "opaque": False} for i in range(n)], None


def exact_binding(c, progs, tier, rng):
    recs = harness([{"prog": p, "mode": "profile"} for p in progs] + [{"prog": p, "mode": "ref"} for p in progs], "profile")
    nprog = len(progs)
    total_hist, total_calls = 0, 0
    for n, p in enumerate(progs):
        prof, ref = recs[n]["profile"], recs[nprog + n]
        if "error" in prof:
            raise V.ToolError("profile of %s: %s" % (p, prof))
        costs = [g["cycles"] for g in ref["groups"]]
        groups, err = groups_from_profile(prof["points"], costs)
        if err:
            c.violation("accounting/profile/%s" % p, err, {"kind": "profile", "prog": p, "profile": prof})
            continue
        cost = prof["cost"]
        pos = sorted({0, cost} | {pt["done"] + pt["gcons"] for pt in prof["points"] if pt["cur"] != 0})
        firsts = sorted({pt["first"] for pt in prof["points"]})
        lims = set()
        for i, a in enumerate(pos):
            for b in pos[i + 1:] + firsts:
                if b > a:
                    lims |= {b - a - 1, b - a, b - a + 1}
        lims = sorted(x for x in lims if x >= 0)
        cap = 36 if tier == "quick" else 70
        if len(lims) > cap:
            keep = set(rng.sample(lims, cap - 6)) | {0, cost - 1, cost, cost + 1, lims[1], lims[-1]}
            lims = sorted(keep)
        lims.append(BIG)
        gc = sorted({pt["gcons"] for pt in prof["points"] if pt["cur"] != 0 and pt["gcons"] > 0})
        buds = {cost - 1, cost, cost + 1, 0, BIG} | {cost - g for g in gc[:3]} | {cost - g - 1 for g in gc[:2]} | {pos[1], pos[1] - 1}
        buds = sorted(b for b in buds if b >= 0)
        pf = os.path.join(V.workdir(PID), "profile_%s.json" % p.replace(":", "_"))
        with open(pf, "w") as f:
            json.dump({"groups": groups, "limits": lims, "budgets": buds}, f)
        res = V.tlc(PID, "MC_ScriptChunk", "MC_ScriptChunk_file.cfg", workers=8, timeout=900, env={"C05_PROFILE": pf},
                    tag="file_" + p.replace(":", "_"), xmx="8g")
        if res["violated"]:
            c.violation("model/%s/%s" % (res["violated"], p), "ScriptChunk.tla violates %s on the measured profile of %s"
                        % (res["violated"], p), {"kind": "model", "prog": p, "profile": pf, "tlc_tail": res["out"][-2000:]})
            continue
        V.require_coverage(res, ["MCChunk", "MCBudget"], "file/" + p)
        c.add_tlc(res, "MC_ScriptChunk_file/" + p)
        hists = V.tlc_json_lines(res["out"], "HIST")
        if len(hists) < 50:
            raise V.ToolError("too few histories exported for %s: %d" % (p, len(hists)))
        jobs = []
        for h in hists:
            sched = [{"lim": lim_real(e["arg"])} for e in h if e["op"] == "chunk"]
            last = h[-1]
            if last["op"] == "budget":
                fin = {"kind": "complete", "max": lim_real(last["arg"])}
            else:
                fin = {"kind": "none"}
            jobs.append({"prog": p, "mode": "chunks", "sched": sched, "fin": fin})
        out = harness(jobs, "exact_" + p.replace(":", "_"))
        nontriv = 0
        for h, r in zip(hists, out):
            total_hist += 1
            bad = compare_history(p, h, r)
            total_calls += len(h)
            multi = sum(1 for e in h if e["op"] == "chunk" and e["phase"] == "susp")
            if multi:
                nontriv += 1
            c.case({"prog": p, "hist": [(e["op"], e["arg"]) for e in h]}, multi > 0)
            if bad:
                key, text = bad
                c.violation(key, "%s: %s" % (p, text), {"kind": "exact", "prog": p, "hist": h, "observed": r})
        c.add("traces_validated_against_impl", len(hists))
        c.sample({"exact_history": {"prog": p, "groups": groups, "history": hists[len(hists) // 2]}})
        V.log("[C05] exact %s: %d positions, %d limits, %d budgets, %d histories replayed (%d with a suspension)"
              % (p, len(pos), len(lims), len(buds), len(hists), nontriv))
    c.set("exact_histories_replayed", total_hist)
    c.set("exact_calls_compared", total_calls)


def compare_history(p, h, r):
    """model history vs the harness record of the same calls -> None | (key, text)"""
    chunks = r["chunks"]
    n_chunk = sum(1 for e in h if e["op"] == "chunk")
    if len(chunks) != n_chunk:
        return ("state-differs/chunk-count", "model made %d chunk calls, code stopped after %d: %s" % (n_chunk, len(chunks), chunks[-1:]))
    for e, o in zip([e for e in h if e["op"] == "chunk"], chunks):
        if e["phase"] == "susp":
            if o["res"] != "susp":
                return ("verdict-differs/early-end", "limit %s: model suspends at group %d (%d+%d), code returned %s"
                        % (e["arg"], e["cur"], e["done"], e["gcons"], o))
            if (o["cur"], o["done"], o["gcons"]) != (e["cur"], e["done"], e["gcons"]):
                return ("state-differs/position", "limit %s: model state (group %d, done %d, inside %d), code (group %d, done %d, inside %d)"
                        % (e["arg"], e["cur"], e["done"], e["gcons"], o["cur"], o["done"], o["gcons"]))
        else:
            exp = e["res"]
            if o["res"] == "susp":
                return ("verdict-differs/no-end", "limit %s: model ends with %s, code suspended at %s" % (e["arg"], exp, o))
            if not (exp["kind"] == "ok" and o["res"] == "done" and o["cycles"] == exp["cycles"]):
                return ("cycles-differ/chunked", "limit %s: model ends with %s, code returned %s" % (e["arg"], exp, o))
    last = h[-1]
    if last["op"] == "budget":
        exp, fin = last["res"], r["final"]
        got = "ok" if fin["kind"] == "ok" else ("exceeded" if fin["class"] == "exceeded" else "fail")
        if exp["kind"] == "exceeded" and got == "ok":
            spent_inside = any(o.get("gcons", 0) > 0 for o in chunks[-1:])
            call = "complete" if chunks else "verify"
            key = "budget/%s-below-cost-succeeds" % call + ("/suspended-inside-group" if spent_inside else "")
            return (key, "%s(max=%s) returned Ok(%s): a budget below the cost succeeds" % (call, last["arg"], fin["cycles"]))
        if exp["kind"] != got or (got == "ok" and fin["cycles"] != exp["cycles"]):
            return ("budget/%s" % ("complete" if chunks else "verify"), "max=%s: model %s, code %s" % (last["arg"], exp, fin))
    return None


# ------------------------------------------------------------------------------------------------
# 1. model checking
# ------------------------------------------------------------------------------------------------

def model_checking(c, tier):
    cfgs = ["MC_ScriptChunk_quick.cfg", "MC_ScriptChunk_abs2.cfg", "MC_ScriptChunk_abs3.cfg"]
    if tier == "thorough":
        cfgs = ["MC_ScriptChunk_abs1.cfg", "MC_ScriptChunk_abs2.cfg", "MC_ScriptChunk_abs3.cfg"]
    for cfg in cfgs:
        res = V.tlc(PID, "MC_ScriptChunk", cfg, workers=8, timeout=1200, xmx="8g")
        if res["violated"]:
            c.violation("model/" + res["violated"], "ScriptChunk.tla violates %s in %s" % (res["violated"], cfg),
                        {"kind": "model", "cfg": cfg, "tlc_tail": res["out"][-3000:]})
        V.require_coverage(res, CHUNK_ACTIONS, cfg)
        c.add_tlc(res, cfg)
    selft = {}
    for cfg in ["MC_ScriptChunk_f7.cfg", "MC_ScriptChunk_f14.cfg"]:
        res = V.tlc(PID, "MC_ScriptChunk", cfg, workers=4, timeout=600)
        if res["violated"] != "BudgetExact":
            raise V.ToolError("oracle self-test failed: %s is not rejected by BudgetExact (%s)" % (cfg, res["violated"]))
        selft[cfg] = res["violated"]
    c.set("selftest_code_deviations_rejected_by", selft)
    c.set("exhaustive", True)


def run(tier):
    c = V.Check(PID, "model_checking", tier)
    rng = random.Random(V.seed())
    c.rule = ("cases = (program, call history) pairs executed on the real TransactionScriptsVerifier: TLC-enumerated "
              "histories over measured profiles, scaled partition shapes, iteration-boundary cuts, step sweeps, budgets, "
              "signal scripts; non-trivial = the run was suspended at least once inside the transaction (or is a budget "
              "within 1 cycle of the cost)")
    c.assumptions = [
        "programs are the prebuilt script/testdata binaries (no RISC-V compiler offline); ckb-vm itself is a black box with observed costs",
        "a chunked run that does not terminate within the resume cap (limit below the next indivisible charge) is not evaluated",
        "error messages are compared by class (exit code / VM error text / cycle limit), not byte for byte",
    ]
    model_checking(c, tier)
    exact_binding(c, EXACT if tier == "thorough" else EXACT[:5], tier, rng)
    return c.finish()


def replay(path, tier):
    c = V.Check(PID, "model_checking", tier)
    r = json.load(open(path))
    p = r["payload"]
    if p["kind"] == "exact":
        h = p["hist"]
        sched = [{"lim": lim_real(e["arg"])} for e in h if e["op"] == "chunk"]
        fin = {"kind": "complete", "max": lim_real(h[-1]["arg"])} if h[-1]["op"] == "budget" else {"kind": "none"}
        out = harness([{"prog": p["prog"], "mode": "chunks", "sched": sched, "fin": fin}], "replay")
        bad = compare_history(p["prog"], h, out[0])
        if bad:
            c.violation(bad[0], "%s: %s" % (p["prog"], bad[1]), p)
    elif p["kind"] == "model":
        res = V.tlc(PID, "MC_ScriptChunk", p.get("cfg", "MC_ScriptChunk_file.cfg"), workers=8,
                    env={"C05_PROFILE": p.get("profile", "")})
        if res["violated"]:
            c.violation("model/" + res["violated"], "model violation", p)
    else:
        raise V.ToolError("unknown replay kind %s" % p["kind"])
    return 1 if c.violations else 0
