"""C05 — script verdict and cycle count do not depend on how execution is chunked.

1. TLC checks ScriptChunk.tla exhaustively on abstract cost profiles (all limits x <= 3-4 chunks x all budgets x
   pause instants): ChunkInvariance, BudgetExact, Accounting; the two transcribed deviations of the code
   (complete ignoring the suspended group, signal path resetting the budget) must be rejected (oracle self-test).
2. R (exact): the suspension profile of small real transactions is MEASURED (bisection over resumable_verify(L)),
   TLC enumerates every history over that profile (limits around every distance between two suspension points,
   budgets around the cost) and each history is replayed on the real TransactionScriptsVerifier: the state after
   every call (group, completed cycles, cycles inside the group) and the final result must equal the model's.
3. T (opaque): multi-VM / big programs: reference verify(MAX); chunk schedules = TLC-generated partition shapes
   scaled to the real cost, cuts aimed at every scheduler-iteration boundary (+-1, middle), swept step sizes;
   budgets cost-1 / cost / cost+1 for verify and complete; the signal path under seeded Suspend/Resume scripts.
   Every call is logged and the whole log is validated by TLC against Trace_ScriptChunk.tla.
4. VmScheduler.tla: multi-VM scheduler over spawn_dag-class programs (see run_vmsched).
"""
import json
import os
import random
import re

import vcheck as V

PID = "C05"
BIG = 2_000_000_000          # "unlimited" inside TLC (32-bit ints); u64::MAX on the real side
U64 = 2 ** 64 - 1
CHUNK_ACTIONS = ["MCChunk", "MCBudget", "MCSigStart", "MCSigSeg", "MCSigStop"]

# programs whose suspension profile is small enough to be measured exactly
EXACT = ["as:0", "as:2", "as3", "typeid", "exec:1", "load_even_global:1", "exec:2", "exec_witness:2", "load_even_global:2"]
# opaque programs (multi-VM, exec chains, failures); second field: heavy (thorough tier / fewer schedules)
OPAQUE_QUICK = ["cases:1", "cases:3", "cases:5", "cases:6", "cases:7", "cases:9", "cases:2", "cases:4", "cases:12",
                "cases:13", "strcat", "spawn_exec", "current_cycles", "io:128:1", "fail:0", "fail:2", "mix:1", "mix:2",
                "mix:5", "exec:1", "load_even_global:2", "load_even_global:0", "saturate", "create17", "typeid_create:0", "typeid_badhash:1", "typeid_two", "typeid_args:2"]
OPAQUE_THOROUGH = ["cases:%d" % i for i in range(1, 20)] + [
    "strcat", "strcat_wrap", "spawn_exec", "current_cycles", "spawn_cycles", "spawn_times", "io:128:1", "io:1152:0",
    "fail:0", "fail:1", "fail:2", "mix:1", "mix:2", "mix:5", "mix:9", "exec:1", "exec:2", "exec_witness:1",
    "saturate", "create17", "recursive", "load_even_global:0", "load_even_global:1", "load_even_global:2", "fuzzing:1", "fuzzing:2", "fuzzing:3",
    "typeid_create:0", "typeid_create:2", "typeid_badhash:1", "typeid_two", "typeid_args:2"]


# ------------------------------------------------------------------------------------------------
# harness plumbing
# ------------------------------------------------------------------------------------------------

def harness(jobs, tag, timeout=1500):
    wd = V.workdir(PID)
    path = os.path.join(wd, "jobs_%s.ndjson" % tag)
    with open(path, "w") as f:
        for n, j in enumerate(jobs):
            j["id"] = n
            f.write(json.dumps(j) + "\n")
    rc, out = V.ckbv("c05", ["jobs", "--in", path], timeout=timeout)
    recs = V.parse_ndjson(out)
    summ = [x for x in recs if "summary" in x]
    if rc != 0 or not summ or summ[0]["summary"]["jobs"] != len(jobs):
        V.log(out[-3000:])
        raise V.ToolError("c05 jobs (%s) failed rc=%d" % (tag, rc))
    byid = {r["id"]: r for r in recs if "id" in r}
    if len(byid) != len(jobs):
        raise V.ToolError("c05 jobs (%s): %d records for %d jobs" % (tag, len(byid), len(jobs)))
    for r in byid.values():
        if "error" in r:
            raise V.ToolError("c05 job error: %s" % r)
    return [byid[n] for n in range(len(jobs))]


def lim_real(l):
    return U64 if l >= BIG else l


def lim_tla(l):
    return BIG if l >= BIG else l


class Codes:
    """failure class string <-> small integer for TLC"""

    def __init__(self):
        self.ids = {}

    def of(self, cls):
        return self.ids.setdefault(cls, len(self.ids) + 1)


def final_event(fin, codes):
    """(res, fields) of a final result json of the harness"""
    if fin["kind"] == "ok":
        return {"res": "done", "cycles": fin["cycles"]}
    if fin["class"] == "exceeded":
        return {"res": "exceeded"}
    if fin["class"] == "interrupts":
        return {"res": "interrupts"}
    return {"res": "fail", "code": codes.of(fin["class"])}


def same_final(a, b):
    if a["kind"] != b["kind"]:
        return False
    if a["kind"] == "ok":
        return a["cycles"] == b["cycles"]
    return a["class"] == b["class"]


# ------------------------------------------------------------------------------------------------
# 2. exact binding
# ------------------------------------------------------------------------------------------------

def groups_from_profile(points, costs):
    """Charges [c, need] of every group from the measured step function (see ScriptChunk.tla)."""
    n = len(costs)
    ch = [[] for _ in range(n)]
    before = [sum(costs[:i]) for i in range(n + 1)]
    cur, g, ab = 1, 0, 0

    def clamp(x, hi):
        return max(0, min(x, hi))

    for pt in points:
        tcur = pt["cur"] if pt["cur"] != 0 else n + 1
        if pt["cur"] != 0 and pt["done"] != before[pt["cur"] - 1]:
            return None, "point %s: completed cycles differ from the sum of the group costs %s" % (pt, costs)
        while cur < tcur:
            c = costs[cur - 1] - g
            if c > 0:
                ch[cur - 1].append({"c": c, "need": clamp(pt["first"] - ab, c)})
            ab += c
            cur, g = cur + 1, 0
        if pt["cur"] != 0 and pt["gcons"] > g:
            c = pt["gcons"] - g
            ch[cur - 1].append({"c": c, "need": clamp(pt["first"] - ab, c)})
            ab += c
            g = pt["gcons"]
    if cur != n + 1:
        return None, "profile does not reach the end: %s" % points
    return [{"ch": ch[i], "exit": 0, "opaque": False} for i in range(n)], None


def exact_binding(c, progs, tier, rng):
    recs = harness([{"prog": p, "mode": "profile"} for p in progs] + [{"prog": p, "mode": "ref"} for p in progs], "profile")
    nprog = len(progs)
    total_hist, total_calls = 0, 0
    vacuous = []
    for n, p in enumerate(progs):
        prof, ref = recs[n]["profile"], recs[nprog + n]
        if "error" in prof:
            raise V.ToolError("profile of %s: %s" % (p, prof))
        costs = [g["cycles"] for g in ref["groups"]]
        groups, err = groups_from_profile(prof["points"], costs)
        if err:
            c.violation("accounting/profile/%s" % p, err, {"kind": "profile", "prog": p, "profile": prof})
            continue
        cost = prof["cost"]
        pos = sorted({0, cost} | {pt["done"] + pt["gcons"] for pt in prof["points"] if pt["cur"] != 0})
        firsts = sorted({pt["first"] for pt in prof["points"]})
        lims = set()
        for i, a in enumerate(pos):
            for b in pos[i + 1:] + firsts:
                if b > a:
                    lims |= {b - a - 1, b - a, b - a + 1}
        lims = sorted(x for x in lims if x >= 0)
        cap = 36 if tier == "quick" else 50
        if len(lims) > cap:
            keep = set(rng.sample(lims, cap - 6)) | {0, cost - 1, cost, cost + 1, lims[1], lims[-1]}
            lims = sorted(keep)
        lims.append(BIG)
        gc = sorted({pt["gcons"] for pt in prof["points"] if pt["cur"] != 0 and pt["gcons"] > 0})
        buds = {cost - 1, cost, cost + 1, 0, BIG} | {cost - g for g in gc[:3]} | {cost - g - 1 for g in gc[:2]} | {pos[1], pos[1] - 1}
        buds = sorted(b for b in buds if b >= 0)
        pf = os.path.join(V.workdir(PID), "profile_%s.json" % p.replace(":", "_"))
        with open(pf, "w") as f:
            json.dump({"groups": groups, "limits": lims, "budgets": buds}, f)
        res = V.tlc(PID, "MC_ScriptChunk", "MC_ScriptChunk_file.cfg", workers=8, timeout=900, env={"C05_PROFILE": pf},
                    tag="file_" + p.replace(":", "_"), xmx="8g", xss="1g")
        if res["violated"]:
            c.violation("model/%s/%s" % (res["violated"], p), "ScriptChunk.tla violates %s on the measured profile of %s"
                        % (res["violated"], p), {"kind": "model", "prog": p, "profile": pf, "tlc_tail": res["out"][-2000:]})
            continue
        V.require_coverage(res, ["MCChunk", "MCBudget"], "file/" + p)
        c.add_tlc(res, "MC_ScriptChunk_file/" + p)
        hists = V.tlc_json_lines(res["out"], "HIST")
        if len(hists) < 50:
            # judged after the replay: a broken accounting can collapse the measured profile, and is then reported
            # as the violation it is rather than as tool trouble
            vacuous.append("too few histories exported for %s: %d" % (p, len(hists)))
        jobs = []
        for h in hists:
            sched = [{"lim": lim_real(e["arg"])} for e in h if e["op"] == "chunk"]
            last = h[-1]
            if last["op"] == "budget":
                fin = {"kind": "complete", "max": lim_real(last["arg"])}
            else:
                fin = {"kind": "none"}
            jobs.append({"prog": p, "mode": "chunks", "sched": sched, "fin": fin})
        out = harness(jobs, "exact_" + p.replace(":", "_"))
        nontriv = 0
        for h, r in zip(hists, out):
            total_hist += 1
            bad = compare_history(p, h, r)
            total_calls += len(h)
            multi = sum(1 for e in h if e["op"] == "chunk" and e["phase"] == "susp")
            if multi:
                nontriv += 1
            c.case({"prog": p, "hist": [(e["op"], e["arg"]) for e in h]}, multi > 0)
            if bad:
                key, text = bad
                c.violation(key, "%s: %s" % (p, text), {"kind": "exact", "prog": p, "hist": h, "observed": r})
        c.add("traces_validated_against_impl", len(hists))
        c.sample({"exact_history": {"prog": p, "groups": groups, "history": hists[len(hists) // 2]}})
        V.log("[C05] exact %s: %d positions, %d limits, %d budgets, %d histories replayed (%d with a suspension)"
              % (p, len(pos), len(lims), len(buds), len(hists), nontriv))
    if vacuous and not c.violations:
        raise V.ToolError("; ".join(vacuous))
    c.set("exact_histories_replayed", total_hist)
    c.set("exact_calls_compared", total_calls)


def compare_history(p, h, r):
    """model history vs the harness record of the same calls -> None | (key, text)"""
    chunks = r["chunks"]
    n_chunk = sum(1 for e in h if e["op"] == "chunk")
    if len(chunks) != n_chunk:
        return ("state-differs/chunk-count", "model made %d chunk calls, code stopped after %d: %s" % (n_chunk, len(chunks), chunks[-1:]))
    for e, o in zip([e for e in h if e["op"] == "chunk"], chunks):
        if e["phase"] == "susp":
            if o["res"] != "susp":
                return ("verdict-differs/early-end", "limit %s: model suspends at group %d (%d+%d), code returned %s"
                        % (e["arg"], e["cur"], e["done"], e["gcons"], o))
            if (o["cur"], o["done"], o["gcons"]) != (e["cur"], e["done"], e["gcons"]):
                return ("state-differs/position", "limit %s: model state (group %d, done %d, inside %d), code (group %d, done %d, inside %d)"
                        % (e["arg"], e["cur"], e["done"], e["gcons"], o["cur"], o["done"], o["gcons"]))
        else:
            exp = e["res"]
            if o["res"] == "susp":
                return ("verdict-differs/no-end", "limit %s: model ends with %s, code suspended at %s" % (e["arg"], exp, o))
            if not (exp["kind"] == "ok" and o["res"] == "done" and o["cycles"] == exp["cycles"]):
                return ("cycles-differ/chunked", "limit %s: model ends with %s, code returned %s" % (e["arg"], exp, o))
    last = h[-1]
    if last["op"] == "budget":
        exp, fin = last["res"], r["final"]
        got = "ok" if fin["kind"] == "ok" else ("exceeded" if fin["class"] == "exceeded" else "fail")
        if exp["kind"] == "exceeded" and got == "ok":
            spent_inside = any(o.get("gcons", 0) > 0 for o in chunks[-1:])
            call = "complete" if chunks else "verify"
            key = "budget/%s-below-cost-succeeds" % call + ("/suspended-inside-group" if spent_inside else "")
            return (key, "%s(max=%s) returned Ok(%s): a budget below the cost succeeds" % (call, last["arg"], fin["cycles"]))
        if exp["kind"] != got or (got == "ok" and fin["cycles"] != exp["cycles"]):
            return ("budget/%s" % ("complete" if chunks else "verify"), "max=%s: model %s, code %s" % (last["arg"], exp, fin))
    return None

# ------------------------------------------------------------------------------------------------
# 3. opaque programs: schedules, direct judgement, trace validation
# ------------------------------------------------------------------------------------------------

def abstract_shapes(c):
    """All histories of the abstract model (<= 3 chunks, then completion or a budget): the partition shapes."""
    res = V.tlc(PID, "MC_ScriptChunk", "MC_ScriptChunk_shapes.cfg", workers=8, timeout=900, xmx="8g")
    if res["violated"]:
        raise V.ToolError("shapes config violates %s" % res["violated"])
    V.require_coverage(res, ["MCChunk", "MCBudget"], "shapes")
    c.add_tlc(res, "MC_ScriptChunk_shapes.cfg")
    shapes = set()
    for h in V.tlc_json_lines(res["out"], "HIST"):
        lims = tuple(e["arg"] for e in h if e["op"] == "chunk")
        bud = h[-1]["arg"] if h[-1]["op"] == "budget" else None
        if lims:
            shapes.add((lims, bud))
    if len(shapes) < 500:
        raise V.ToolError("too few partition shapes: %d" % len(shapes))
    return sorted(shapes, key=lambda x: (x[0], -1 if x[1] is None else x[1]))


ABS_COST = 11   # cost of Abs1 in MC_ScriptChunk.tla


def scale_shape(shape, need, rng):
    lims, bud = shape
    sched = []
    for l in lims:
        if l > ABS_COST:
            sched.append({"lim": U64})
        else:
            sched.append({"lim": max(0, l * need // ABS_COST + rng.choice([-1, 0, 0, 1, rng.randrange(-50, 50)]))})
    if bud is None:
        fin = {"kind": "max"}
    elif abs(bud - ABS_COST) <= 1:
        fin = {"kind": "complete", "max": need + (bud - ABS_COST)}
    elif bud > ABS_COST:
        fin = {"kind": "complete", "max": U64}
    else:
        fin = {"kind": "complete", "max": bud * need // ABS_COST}
    return sched, fin


def pending_io(full):
    """IO that process_io() would have completed is still pending inside a suspended state (never legal between
    iterations): a reader and a writer blocked on the two ends of one pipe, or a VM blocked on a pipe whose other
    end is closed"""
    if not full:
        return False
    reads, writes, open_fds = set(), set(), {fd for fd, _ in full["fds"]}
    for _, st in full["vms"]:
        m = re.match(r"read(\d+):", st)
        if m:
            reads.add(int(m.group(1)))
        m = re.match(r"write(\d+):", st)
        if m:
            writes.add(int(m.group(1)))
    return any((r ^ 1) in writes for r in reads) or any((f ^ 1) not in open_fds for f in reads | writes)


LIGHT_QUICK = {"create17"}
MAX_INST = 4


def io_pairing_iterations(iters):
    """1-based numbers of the iterations of the reference run in which process_io() completed a read / write of a VM
    other than the one that ran (a reader / writer pair was matched) while more than MAX_INST VMs were alive"""
    ks = []
    prev = {}
    for n, it in enumerate(iters):
        if "vm" not in it:
            break
        cur = {v: st for v, st in it["states"]}
        if len(cur) > MAX_INST:
            for v, st in prev.items():
                if v != it["vm"] and (st.startswith("read") or st.startswith("write")) and cur.get(v) != st:
                    ks.append(n + 1)
                    break
        prev = cur
    return ks


def opaque_binding(c, progs, tier, rng, shapes, dag_models=()):
    """progs: names of the catalogue; dag_models: (dag, model reference run) pairs of VmScheduler.tla"""
    specs = [{"prog": p} for p in progs] + [{"prog": "dag", "dag": dag_job(d)} for d, _ in dag_models]
    names = list(progs) + ["dag#%d" % n for n in range(len(dag_models))]
    models = {("dag#%d" % n): m for n, (_, m) in enumerate(dag_models)}
    refs = harness([dict(sp, mode="ref", iters=True) for sp in specs], "refs")
    codes = Codes()
    jobs, meta = [], []
    n_shapes = 30 if tier == "quick" else 120
    snap = {"compared": 0, "equal": 0}
    io_window_iters = {}
    for p, sp, ref in zip(names, specs, refs):
        if p.startswith("dag#"):
            n_shapes_p = n_shapes // 3
        else:
            n_shapes_p = n_shapes
        need = sum(g.get("need", 0) for g in ref["groups"])
        ok = ref["ref"]["kind"] == "ok"
        if ok and need != ref["ref"]["cycles"]:
            c.violation("cycles-differ/iterate-vs-verify/%s" % p, "%s: Scheduler::iterate() total %d, verify %d"
                        % (p, need, ref["ref"]["cycles"]), {"kind": "ref", "prog": p, "ref": ref})
            continue
        if not ok:
            # cycles consumed until the failing group's verdict
            need = 0
            for g in ref["groups"]:
                need += g.get("need", 0)
                if g["kind"] != "ok":
                    break
        heavy = need > 5_000_000
        light = tier == "quick" and p in LIGHT_QUICK       # only a few shapes and the targeted cuts
        def add(sched, fin, why, cap=None, sp=sp):
            j = dict(sp, mode="chunks", sched=sched, fin=fin, detail=True)
            if cap:
                j["cap"] = cap
            jobs.append(j)
            meta.append({"prog": p, "why": why, "need": need})
        # (a) TLC partition shapes at real magnitude
        for sh in rng.sample(shapes, 4 if light else (n_shapes_p // 4) if heavy else n_shapes_p):
            sched, fin = scale_shape(sh, need, rng)
            add(sched, fin, "shape")
        # (b) cuts at scheduler-iteration boundaries
        bounds = ref.get("bounds") or []
        ks = list(range(1, len(bounds) + 1))
        nk = 4 if light else 16 if tier == "quick" else 60
        if len(ks) > nk:
            # the last two iterations always: a limit found exceeded in the root VM's final iteration suspends a
            # scheduler that has already terminated (its verdict must survive the snapshot)
            ks = sorted(set(rng.sample(ks, nk)) | set(ks[-2:]))
        for k in ks:
            width = bounds[k - 1] - (bounds[k - 2] if k >= 2 else 0)
            for off in [-1, 0, 1, -(width // 2)]:
                add([{"iter": k, "off": off}], {"kind": "max"}, "iter")
        # (b2) cuts INSIDE the unchecked lump of a read / write / wait syscall (the limit is then found exceeded after the
        # message was processed, i.e. between the two halves of the iteration) for iterations whose process_io() pairs a
        # reader and a writer while more VMs are alive than can be instantiated (VM swaps are charged there)
        ioks = io_pairing_iterations(ref.get("iters") or [])
        stats_io = len(ioks)
        if len(ioks) > (10 if tier == "quick" else 60):
            ioks = sorted(rng.sample(ioks, 10 if tier == "quick" else 60))
        for k in ioks:
            for off in (-799, -400, -100, 1):
                add([{"iter": k, "off": off}], {"kind": "max"}, "io-window")
            add([{"iter": k, "off": -rng.randrange(2, 799)}], {"kind": "complete", "max": need}, "io-window")
        io_window_iters[p] = (stats_io, len(ioks))
        if light:
            for rel in (-1, 0):
                jobs.append(dict(sp, mode="verify", max=max(0, need + rel)))
                meta.append({"prog": p, "why": "verify", "need": need})
            continue
        for _ in range(0 if not bounds else (6 if tier == "quick" else 30)):
            k1, k2 = sorted(rng.sample(range(1, len(bounds) + 1), 2)) if len(bounds) >= 2 else (1, 1)
            add([{"iter": k1, "off": rng.choice([-1, 0, 1])}, {"iter": k2, "off": rng.choice([-1, 0, 1])}], {"kind": "max"}, "iter2")
        # (c) group boundaries of multi-group transactions
        if len(ref["groups"]) > 1:
            acc = 0
            for g in ref["groups"][:-1]:
                acc += g.get("need", 0)
                for off in (-1, 0, 1):
                    add([{"to": acc + off}], {"kind": "max"}, "group-boundary")
                    add([{"to": acc + off}], {"kind": "complete", "max": need - 1}, "group-boundary-budget")
        # (d) swept step sizes
        steps = {need // d + 1 for d in (2, 3, 5, 7, 13)} | {rng.randrange(need // 40 + 2, need + 2) for _ in range(3 if tier == "quick" else 10)}
        if not heavy:
            steps |= {need // d + 1 for d in (31, 97)} | {rng.randrange(200, need // 8 + 300) for _ in range(2 if tier == "quick" else 8)}
        for st in sorted(steps):
            add([], {"kind": "step", "lim": st}, "step", cap=3000)
        # (e) budgets: verify and complete around the cost
        for rel in (-1, 0, 1):
            jobs.append(dict(sp, mode="verify", max=max(0, need + rel)))
            meta.append({"prog": p, "why": "verify", "need": need})
            add([{"to": max(1, need // 2)}], {"kind": "complete", "max": max(0, need + rel)}, "complete")
            add([{"to": max(1, need // 3)}, {"to": max(2, need * 4 // 5)}], {"kind": "complete", "max": max(0, need + rel)}, "complete")
        # (f) the signal path used by the tx-pool
        for n in range(2 if tier == "quick" else 6):
            for mx in (U64, need, max(0, need - 1)):
                jobs.append(dict(sp, mode="signal", max=mx, seed=V.seed() * 100 + n, cmds=1 + n % 4,
                                 gap_us=150 if not heavy else 8000))
                meta.append({"prog": p, "why": "signal", "need": need})
        # ... and a Stop command while suspended: "interrupts" (or the ordinary result if the run was already over)
        jobs.append(dict(sp, mode="signal", max=U64, seed=V.seed() * 100 + 77, cmds=1 + rng.randrange(2), stop=True,
                         gap_us=150 if not heavy else 8000))
        meta.append({"prog": p, "why": "signal-stop", "need": need})
    V.log("[C05] opaque: %d programs (%d DAG witnesses), %d runs scheduled" % (len(names), len(dag_models), len(jobs)))
    out = harness(jobs, "opaque", timeout=2400)
    refof = {p: r for p, r in zip(names, refs)}
    trace_path = os.path.join(V.workdir(PID), "trace_opaque.ndjson")
    stats = {"runs": 0, "suspended_runs": 0, "capped": 0, "truncated_by_known_finding": 0, "overshoot_chunks": 0,
             "no_progress_chunks": 0, "budget_runs": 0, "signal_runs": 0, "signal_suspends": 0, "chunks": 0}
    runs_in_trace = []
    with open(trace_path, "w") as tf:
        for j, m, r in zip(jobs, meta, out):
            p, need = m["prog"], m["need"]
            ref = refof[p]
            stats["runs"] += 1
            evs, verdict = judge_run(j, m, r, ref, codes, stats)
            if p in models:
                compare_snapshots(models[p], ref, r, snap)
            susp = sum(1 for ch in r.get("chunks", []) if ch["res"] == "susp" and ch["pos"] > 0)
            nontrivial = susp > 0 or (j["mode"] in ("verify", "signal") and abs(j.get("max", 0) - need) <= 1)
            c.case({"prog": p, "job": {k: v for k, v in j.items() if k != "id"}}, nontrivial)
            if susp:
                stats["suspended_runs"] += 1
            if verdict is not None:
                key, text = verdict
                known = not c.violation(key, "%s: %s" % (p, text), {"kind": "run", "job": j, "observed": r, "ref": ref["ref"]})
                if known:
                    stats["truncated_by_known_finding"] += 1
                continue          # a run that already failed the direct judgement is not fed to TLC again
            if evs:
                runs_in_trace.append((len(evs), j, r))
                for e in evs:
                    tf.write(json.dumps(e) + "\n")
    if stats["suspended_runs"] < 100 or stats["budget_runs"] < 20 or stats["signal_runs"] < 10:
        raise V.ToolError("vacuous opaque run: %s" % stats)
    validate_trace(c, trace_path, runs_in_trace, "opaque")
    # diagnostic (Scheduler API, not a TransactionScriptsVerifier entry point): does a snapshot of a scheduler whose root
    # VM has already exited keep the exit code?  No run of this check drove chunk_run into that situation.
    probe = harness([{"prog": q, "mode": "termsnap"} for q in ("fail:0", "strcat_wrap")], "termsnap")
    stats["terminated_scheduler_snapshot_exit_codes"] = [[r["prog"], r["termsnap"].get("before", {}).get("exit"),
                                                          r["termsnap"].get("after", {}).get("exit")] for r in probe]
    stats["io_window_iterations"] = {p: v for p, v in io_window_iters.items() if v[0]}
    if not stats["io_window_iterations"]:
        raise V.ToolError("vacuous: no program with more than 4 live VMs pairing pipe IO was cut inside a syscall lump")
    stats["dag_snapshots_compared_with_model"] = snap["compared"]
    stats["dag_snapshots_equal_to_model"] = snap["equal"]
    c.set("opaque", stats)
    c.add("traces_validated_against_impl", len(runs_in_trace))
    for (n, j, r) in runs_in_trace[:: max(1, len(runs_in_trace) // 2)][:2]:
        c.sample({"opaque_run": {"job": {k: v for k, v in j.items() if k != "id"}, "chunks": [{k: v for k, v in ch.items() if k != "full"} for ch in r.get("chunks", [])][:6], "final": r.get("final")}})
    V.log("[C05] opaque: %s" % stats)


def compare_snapshots(model, ref, r, snap):
    """Diagnostic only (the property does not speak about snapshot contents): a snapshot taken exactly at an iteration
    boundary without overshoot holds the VM states / instantiated set VmScheduler.tla has there."""
    bounds = ref.get("bounds") or []
    prev = 0
    for ch in r.get("chunks", []):
        if ch["res"] != "susp" or "full" not in ch:
            continue
        pos, over = ch["pos"], ch["pos"] - prev > ch["lim"]
        prev = pos
        if over or pos not in bounds:
            continue
        k = bounds.index(pos)
        if bounds.count(pos) != 1 or k >= len(model["log"]):
            continue
        e = model["log"][k]
        exp = [[v, model_state(x)] for v, x in enumerate(e["states"]) if model_state(x)]
        snap["compared"] += 1
        if exp == ch["full"]["vms"] and sorted(ch["full"]["inst"]) == e["inst2"]:
            snap["equal"] += 1
        elif snap["compared"] - snap["equal"] <= 3:
            V.log("[C05] note: snapshot at iteration boundary %d differs from the model: %s inst %s vs model %s inst %s"
                  % (k, ch["full"]["vms"], ch["full"]["inst"], exp, e["inst2"]))


def opaque_groups(ref, codes):
    gs = []
    for n, g in enumerate(ref["groups"]):
        code = 0
        if g["kind"] != "ok":
            # the class of the whole-transaction failure names the group; per-group classes lack the source
            code = codes.of(ref["ref"]["class"]) if ref["ref"]["kind"] != "ok" else codes.of(g["class"])
        need = g.get("need", 0)
        gs.append({"ch": [{"c": need, "need": need}], "exit": code, "opaque": True})
        if code:
            break
    return gs


def judge_run(j, m, r, ref, codes, stats):
    """-> (trace events | None, None | (key, text))"""
    p, need = m["prog"], m["need"]
    refres = ref["ref"]
    groups = opaque_groups(ref, codes)
    evs = [{"ev": "Reset", "prog": p, "groups": groups}]
    fin = r["final"]
    if j["mode"] == "verify" or j["mode"] == "signal":
        mx = j["max"]
        exp_exceeded = mx < need
        kind = "signal" if j["mode"] == "signal" else "verify"
        stats["budget_runs" if kind == "verify" else "signal_runs"] += 1
        if kind == "signal":
            stats["signal_suspends"] += fin.get("suspends_sent", 0)
            if j.get("stop") and fin["kind"] == "err" and fin["class"] == "interrupts":
                stats["signal_stopped"] = stats.get("signal_stopped", 0) + 1
                return evs + [{"ev": "Signal", "max": lim_tla(mx), "stop": True, "res": "interrupts"}], None
        if exp_exceeded:
            if fin["kind"] == "ok":
                return None, ("budget/%s-below-cost-succeeds" % kind + ("/after-pause" if fin.get("suspends_sent") else ""),
                              "%s(max=%d) returned Ok(%d); uninterrupted cost %d" % (kind, mx, fin["cycles"], need))
            if fin["class"] != "exceeded":
                return None, ("budget/%s-wrong-error" % kind, "%s(max=%d) below the cost %d returned %s" % (kind, mx, need, fin))
        elif not same_final(fin, refres):
            return None, ("budget/%s-differs-from-unlimited" % kind, "%s(max=%s) with cost %d returned %s, unlimited run %s" % (kind, mx, need, fin, refres))
        e = {"ev": "Budget" if kind == "verify" else "Signal", "max": lim_tla(mx), "stop": False}
        e.update(final_event(fin, codes))
        return evs + [e], None
    # chunk schedules
    chunks = r["chunks"]
    stats["chunks"] += len(chunks)
    prev_pos, prev_full, io_pending_at = 0, None, None
    for n, ch in enumerate(chunks):
        e = {"ev": "Chunk", "lim": lim_tla(ch["lim"])}
        if ch["res"] == "susp":
            if ch["pos"] == prev_pos:
                stats["no_progress_chunks"] += 1
            if ch["pos"] - prev_pos > ch["lim"]:
                stats["overshoot_chunks"] += 1
            if pending_io(ch.get("full")):
                io_pending_at = n     # diagnostic only: legal iff the IO is completed when the state is resumed
            e.update({"res": "susp", "cur": ch["cur"], "done": ch["done"], "gcons": ch["gcons"]})
            prev_pos, prev_full = ch["pos"], ch.get("full")
        elif ch["res"] == "done":
            e.update({"res": "done", "cycles": ch["cycles"]})
        else:
            e.update({"res": "exceeded"} if ch["class"] == "exceeded" else {"res": "fail", "code": codes.of(ch["class"])})
        evs.append(e)
    if fin is None:
        return evs, None
    if fin["kind"] == "capped":
        stats["capped"] += 1
        return evs, None         # did not terminate within the cap: not evaluated (prefix still validated)
    if r.get("finisher") and r["finisher"].get("complete") is not None:
        mx = r["finisher"]["complete"]
        stats["budget_runs"] += 1
        call = "complete" if chunks and chunks[-1]["res"] == "susp" else "verify"
        if mx < need:
            if fin["kind"] == "ok":
                inside = bool(chunks) and chunks[-1].get("gcons", 0) > 0
                return None, ("budget/%s-below-cost-succeeds" % call + ("/suspended-inside-group" if inside else ""),
                              "%s(max=%d) returned Ok(%d); uninterrupted cost %d" % (call, mx, fin["cycles"], need))
            if fin["class"] != "exceeded":
                return None, ("budget/%s-wrong-error" % call, "%s(max=%d) below the cost %d returned %s" % (call, mx, need, fin))
        elif not same_final(fin, refres):
            return None, ("budget/%s-differs-from-unlimited" % call, "%s(max=%s) with cost %d returned %s, unlimited run %s" % (call, mx, need, fin, refres))
        e = {"ev": "Budget", "max": lim_tla(mx)}
        e.update(final_event(fin, codes))
        return evs + [e], None
    if not same_final(fin, refres):
        if refres["kind"] == "ok" and fin["kind"] == "err" and fin["class"].startswith("deadlock"):
            why = ""
            if io_pending_at is not None:
                ch = chunks[io_pending_at]
                why = ("; chunk %d (limit %d) was suspended with IO pending that process_io() completes (matched reader/"
                       "writer or closed other end: vms %s) and it was never completed after the resume"
                       % (io_pending_at, ch["lim"], ch["full"]["vms"]))
            return None, ("verdict-differs/deadlock-after-cycle-limit-suspend",
                          "chunked run ends in a deadlock error, uninterrupted run passes with %d cycles; limits %s%s"
                          % (refres["cycles"], [ch["lim"] for ch in chunks][-4:], why))
        if fin["kind"] == "ok" and refres["kind"] == "ok":
            return None, ("cycles-differ/chunked", "chunked run %d cycles, uninterrupted %d; limits %s"
                          % (fin["cycles"], refres["cycles"], [ch["lim"] for ch in chunks][-4:]))
        return None, ("verdict-differs/chunked", "chunked run %s, uninterrupted %s" % (fin, refres))
    return evs, None


def validate_trace(c, trace_path, runs_in_trace, tag):
    cfg = os.path.join(V.workdir(PID), "Trace_ScriptChunk_%s.cfg" % tag)
    with open(cfg, "w") as f:
        f.write("SPECIFICATION TSpec\nCONSTANTS\n InitGroups <- NoGroups\n Limits <- None\n Budgets <- None\n MaxChunks = 1000000\n"
                " Variant = \"intended\"\nINVARIANT ChunkInvariance\nINVARIANT BudgetExact\nINVARIANT Accounting\n"
                "POSTCONDITION Accepted\nCHECK_DEADLOCK FALSE\n")
    ok, res = V.validate_trace(PID, "Trace_ScriptChunk", cfg, trace_path, tag="trace_" + tag, timeout=1500, xmx="8g")
    events = sum(n for n, _, _ in runs_in_trace)
    c.add("trace_events_validated", events)
    if ok:
        return True
    m = re.search(r'<<\s*"TRACE-REJECTED",\s*(\d+),', res["out"])
    at = int(m.group(1)) if m else -1
    if at < 0 and not res["violated"]:
        V.log(res["out"][-3000:])
        raise V.ToolError("trace validation failed without a rejection point")
    # find the run containing event `at` (1-based); with an invariant violation TLC stops at the violating state
    if at < 0:
        dm = re.findall(r"^State (\d+):", res["out"], re.M)
        at = int(dm[-1]) - 1 if dm else 1
    acc = 0
    for n, j, r in runs_in_trace:
        if acc + n >= at:
            c.violation("trace/%s/%s" % (res["violated"] or "not-a-behaviour", j["mode"]),
                        "%s: the calls of this run are not a behaviour of ScriptChunk.tla (event %d of the run)" % (j["prog"], at - acc),
                        {"kind": "run", "job": j, "observed": r, "tlc_tail": res["out"][-1500:]})
            break
        acc += n
    return False


# ------------------------------------------------------------------------------------------------
# 4. VmScheduler.tla: spawn_dag-class programs
# ------------------------------------------------------------------------------------------------

def make_dag(parent, writes, mutate=None):
    """parent[i] = logical parent of VM i (parent[0] = -1); writes = [(from, to, len)]; pipes are created at the lowest
    common ancestor and handed down along the spawn edges (as script's test generator does).
    mutate = ("noreader" | "nowriter", e): the reader / writer of write e never shows up."""
    n = len(parent)

    def chain(x):
        c = [x]
        while parent[c[-1]] >= 0:
            c.append(parent[c[-1]])
        return c
    edge_fds = {i: [] for i in range(1, n)}
    pipes, ws = [], []
    for e, (a, b, ln) in enumerate(writes):
        r, w = 2 * e, 2 * e + 1
        ca, cb = chain(a), chain(b)
        anc = next(x for x in ca if x in cb)
        for x in ca[:ca.index(anc)]:
            edge_fds[x].append(w)
        for x in cb[:cb.index(anc)]:
            edge_fds[x].append(r)
        pipes.append({"vm": anc, "r": r, "w": w})
        ws.append({"from": a, "ffd": w, "to": b, "tfd": r, "len": ln})
    if mutate:
        kind, e = mutate
        ws[e]["to" if kind == "noreader" else "from"] = 99
    pipes.sort(key=lambda p: p["vm"])
    spawns = [{"from": parent[i], "child": i, "fds": edge_fds[i]} for i in range(1, n)]
    return {"n": n, "spawns": spawns, "pipes": pipes, "writes": ws}


def dag_job(d):
    return {"spawns": [[x["from"], x["child"], x["fds"]] for x in d["spawns"]],
            "pipes": [[x["vm"], x["r"], x["w"]] for x in d["pipes"]],
            # spawn_dag.c transfers the molecule `Bytes` field with its 4-byte header: model length = payload + 4
            "writes": [[x["from"], x["ffd"], x["to"], x["tfd"], x["len"] - 4] for x in d["writes"]]}


def all_trees(n):
    if n == 1:
        return [[-1]]
    return [t + [p] for t in all_trees(n - 1) for p in range(n - 1)]


def gen_dags(rng, tier):
    """small: every tree with <= 3 VMs x every write list with <= 2 writes (lengths 5 / 7 bytes incl. the 4-byte molecule header) + the shapes whose reader or
    writer never shows up; big: random trees with 4-7 VMs (the real MAX_INSTANTIATED_VMS = 4 evicts there)"""
    small = []
    for n in (1, 2, 3):
        for t in all_trees(n):
            pairs = [(a, b) for a in range(n) for b in range(n) if a != b]
            small.append(make_dag(t, []))
            for (a, b) in pairs:
                for ln in (5, 7):
                    small.append(make_dag(t, [(a, b, ln)]))
                    for kind in ("noreader", "nowriter"):
                        small.append(make_dag(t, [(a, b, ln)], (kind, 0)))
                for (c2, d2) in pairs:
                    small.append(make_dag(t, [(a, b, 6), (c2, d2, 5)]))
                    if rng.random() < 0.25:
                        small.append(make_dag(t, [(a, b, 6), (c2, d2, 5)], (rng.choice(["noreader", "nowriter"]), rng.randrange(2))))
    big = []
    for _ in range(40 if tier == "quick" else 200):
        n = rng.randrange(4, 8)
        t = [-1] + [rng.randrange(0, i) for i in range(1, n)]
        nw = rng.randrange(1, 5)
        writes = []
        for _ in range(nw):
            a = rng.randrange(n)
            b = rng.choice([x for x in range(n) if x != a])
            writes.append((a, b, rng.randrange(5, 14)))
        mut = (rng.choice(["noreader", "nowriter"]), rng.randrange(nw)) if rng.random() < 0.2 else None
        big.append(make_dag(t, writes, mut))
    return small, big


def model_state(x):
    k = x["k"]
    if k == "run":
        return "run"
    if k == "term":
        return "term"
    if k == "wait":
        return "wait%d" % x["a"]
    if k == "rd":
        return "read%d:%d" % (x["a"], x["n"])
    if k == "wr":
        return "write%d:%d/%d" % (x["a"], x["m"], x["n"])
    return None


def compare_dag_run(m, r):
    """model reference behaviour (REFRUN) vs the real Scheduler::iterate() run -> None | (key, text)"""
    log, out = m["log"], m["out"]
    iters = r["iters"]
    real = [it for it in iters if "vm" in it]
    for n, (e, it) in enumerate(zip(log, real)):
        if e["vm"] != it["vm"]:
            return ("scheduler/executed-vm", "iteration %d: model runs VM %d, code ran VM %d (model trace %s)"
                    % (n, e["vm"], it["vm"], out["trace"]))
        exp = [[v, model_state(x)] for v, x in enumerate(e["states"]) if model_state(x)]
        if exp != it["states"]:
            return ("scheduler/vm-states", "after iteration %d (VM %d): model states %s, code %s" % (n, e["vm"], exp, it["states"]))
    if len(log) != len(real):
        return ("scheduler/iteration-count", "model %d iterations %s, code %d iterations %s"
                % (len(log), out["trace"], len(real), [it["vm"] for it in real]))
    ref = r["ref"]
    got = "ok" if ref["kind"] == "ok" else ("deadlock" if ref["class"].startswith("deadlock") else ref["class"])
    exp = {"ok": "ok", "deadlock": "deadlock"}.get(out["status"], "exit:Inputs[0].Lock:%d" % out["code"])
    if got != exp:
        return ("scheduler/verdict", "model verdict %s, code %s" % (exp, got))
    return None


def run_vmsched(c, tier, rng, shapes):
    small, big = gen_dags(rng, tier)
    wd = V.workdir(PID)

    def tlc_on(dags, cfg, tag, timeout=1200, need_cuts=False):
        path = os.path.join(wd, "dags_%s.json" % tag)
        with open(path, "w") as f:
            json.dump(dags, f)
        res = V.tlc(PID, "MC_VmScheduler", cfg, workers=8, timeout=timeout, env={"C05_DAGS": path}, coverage=False,
                    xmx="10g", tag=tag)
        ends = V.tlc_json_lines(res["out"], "ENDRUN")
        if not res["violated"]:
            if len(ends) < len(dags) or (need_cuts and (not any(e["mid"] for e in ends) or not any(e["end"] for e in ends))):
                raise V.ToolError("vacuous VmScheduler run %s: %d finished runs for %d DAGs" % (cfg, len(ends), len(dags)))
        return res, ends
    # (1) property: suspension invariance, exhaustive over all cut points (<= 2 cuts), MaxInst = 2 so that VMs get evicted
    sub = small if tier == "thorough" else rng.sample(small, 150)
    res, ends = tlc_on(sub, "MC_VmScheduler_cuts.cfg", "cuts", need_cuts=True)
    if res["violated"]:
        c.violation("model/VmScheduler/" + res["violated"], "VmScheduler.tla violates %s" % res["violated"],
                    {"kind": "vmodel", "cfg": "MC_VmScheduler_cuts.cfg", "tlc_tail": res["out"][-3000:]})
    c.add_tlc(res, "MC_VmScheduler_cuts.cfg (%d DAGs)" % len(sub))
    c.set("vmsched_finished_runs", {"total": len(ends), "with_mid_cut": sum(1 for e in ends if e["mid"]),
                                    "with_end_cut": sum(1 for e in ends if e["end"]),
                                    "deadlock": sum(1 for e in ends if e["status"] == "deadlock"),
                                    "fail": sum(1 for e in ends if e["status"] == "fail")})
    res, ends = tlc_on(rng.sample(big, 12 if tier == "quick" else 40), "MC_VmScheduler_cuts4.cfg", "cuts4", need_cuts=True)
    if res["violated"]:
        c.violation("model/VmScheduler4/" + res["violated"], "VmScheduler.tla (MaxInst 4) violates %s" % res["violated"],
                    {"kind": "vmodel", "cfg": "MC_VmScheduler_cuts4.cfg", "tlc_tail": res["out"][-3000:]})
    c.add_tlc(res, "MC_VmScheduler_cuts4.cfg")
    # self-test: wrong suspend/resume mechanisms must be rejected
    muts = {}
    probe = rng.sample(small, 60) + rng.sample(big, 4)
    for v in ["resume_charges", "inst_not_restored", "skip_io_at_limit_suspend", "lose_iteration_cycles", "io_before_suspend"]:
        res, _ = tlc_on(probe, "MC_VmScheduler_mut_%s.cfg" % v, "mut_" + v, timeout=600)
        if res["violated"] != "SuspendInvariance":
            raise V.ToolError("oracle self-test failed: variant %s is not rejected by SuspendInvariance (%s)" % (v, res["violated"]))
        muts[v] = res["violated"]
    c.set("selftest_scheduler_mechanisms_rejected_by", muts)
    # (2) R: the uninterrupted behaviour of every DAG, replayed on the real scheduler step by step
    dags = small + big
    res, ends = tlc_on(dags, "MC_VmScheduler_ref.cfg", "ref")
    if res["violated"]:
        c.violation("model/VmSchedulerRef/" + res["violated"], "VmScheduler.tla reference run violates %s" % res["violated"],
                    {"kind": "vmodel", "cfg": "MC_VmScheduler_ref.cfg", "tlc_tail": res["out"][-3000:]})
        return []
    c.add_tlc(res, "MC_VmScheduler_ref.cfg (%d DAGs)" % len(dags))
    refs = V.tlc_json_lines(res["out"], "REFRUN")
    bykey = {json.dumps(m["dag"], sort_keys=True): m for m in refs}
    if len(bykey) < len({json.dumps(d, sort_keys=True) for d in dags}):
        raise V.ToolError("reference behaviours missing: %d of %d" % (len(bykey), len(dags)))
    uniq = [json.loads(k) for k in bykey]
    out = harness([{"prog": "dag", "dag": dag_job(d), "mode": "ref", "iters": True} for d in uniq], "dagref")
    stat = {"dags": len(uniq), "iterations": 0, "deadlock": 0, "fail": 0, "evicting": 0}
    for d, r in zip(uniq, out):
        m = bykey[json.dumps(d, sort_keys=True)]
        stat["iterations"] += len(m["log"])
        stat["deadlock"] += m["out"]["status"] == "deadlock"
        stat["fail"] += m["out"]["status"] == "fail"
        stat["evicting"] += any(len(e["inst"]) < sum(1 for x in e["states"] if x["k"] not in ("none", "term")) for e in m["log"])
        c.case({"dag": d}, len(m["log"]) > 3)
        bad = compare_dag_run(m, r)
        if bad:
            c.violation(bad[0], bad[1], {"kind": "dag", "dag": d, "model": m, "observed": r})
    c.add("traces_validated_against_impl", len(uniq))
    c.set("vmsched_replayed", stat)
    if stat["deadlock"] == 0 or stat["fail"] == 0 or stat["evicting"] == 0:
        raise V.ToolError("vacuous DAG replay: %s" % stat)
    c.sample({"dag_reference": {"dag": uniq[len(uniq) // 2], "model_trace": bykey[json.dumps(uniq[len(uniq) // 2], sort_keys=True)]["out"]}})
    V.log("[C05] VmScheduler: %s" % stat)
    # the DAG witnesses also go through the chunk / budget / signal machinery
    def swaps_in_io(m):
        return any(sum(1 for x in e["states"] if x["k"] not in ("none", "term")) > MAX_INST
                   and any(x["k"] in ("rd", "wr") for x in e["states"]) for e in m["log"])
    hot = [d for d in uniq if swaps_in_io(bykey[json.dumps(d, sort_keys=True)])]
    nhot, nall = (5, 10) if tier == "quick" else (20, 40)
    pick = rng.sample(hot, min(nhot, len(hot)))
    pick += rng.sample([d for d in uniq if d not in pick], nall - len(pick))
    return [(d, bykey[json.dumps(d, sort_keys=True)]) for d in pick]


# ------------------------------------------------------------------------------------------------
# 1. model checking
# ------------------------------------------------------------------------------------------------

def model_checking(c, tier):
    cfgs = ["MC_ScriptChunk_quick.cfg", "MC_ScriptChunk_abs2.cfg", "MC_ScriptChunk_abs3.cfg"]
    if tier == "thorough":
        cfgs = ["MC_ScriptChunk_abs1.cfg", "MC_ScriptChunk_abs2.cfg", "MC_ScriptChunk_abs3.cfg"]
    for cfg in cfgs:
        res = V.tlc(PID, "MC_ScriptChunk", cfg, workers=8, timeout=1200, xmx="8g")
        if res["violated"]:
            c.violation("model/" + res["violated"], "ScriptChunk.tla violates %s in %s" % (res["violated"], cfg),
                        {"kind": "model", "cfg": cfg, "tlc_tail": res["out"][-3000:]})
        V.require_coverage(res, CHUNK_ACTIONS, cfg)
        c.add_tlc(res, cfg)
    selft = {}
    for cfg in ["MC_ScriptChunk_f7.cfg", "MC_ScriptChunk_f14.cfg"]:
        res = V.tlc(PID, "MC_ScriptChunk", cfg, workers=4, timeout=600)
        if res["violated"] != "BudgetExact":
            raise V.ToolError("oracle self-test failed: %s is not rejected by BudgetExact (%s)" % (cfg, res["violated"]))
        selft[cfg] = res["violated"]
    c.set("selftest_code_deviations_rejected_by", selft)
    c.set("exhaustive", True)


def finish(c):
    import collections
    if c.violations:
        cnt = collections.Counter((k, t.split(":")[0] + ":" + t.split(":")[1].split(" ")[0] if ":" in t else "") for k, t, _ in c.violations)
        for (k, prog), n in sorted(cnt.items()):
            V.log("[C05] violations: %4d  %s  (%s)" % (n, k, prog))
    return c.finish()


def run(tier):
    c = V.Check(PID, "model_checking", tier)
    rng = random.Random(V.seed())
    c.rule = ("cases = (program, call history) pairs executed on the real TransactionScriptsVerifier: TLC-enumerated "
              "histories over measured profiles, scaled partition shapes, iteration-boundary cuts, step sweeps, budgets, "
              "signal scripts; non-trivial = the run was suspended at least once inside the transaction (or is a budget "
              "within 1 cycle of the cost)")
    c.assumptions = [
        "programs are the prebuilt script/testdata binaries (no RISC-V compiler offline); ckb-vm itself is a black box with observed costs",
        "a chunked run that does not terminate within the resume cap (limit below the next indivisible charge) is not evaluated",
        "error messages are compared by class (exit code / VM error text / cycle limit), not byte for byte",
    ]
    model_checking(c, tier)
    exact_binding(c, EXACT if tier == "thorough" else EXACT[:6], tier, rng)
    shapes = abstract_shapes(c)
    dag_models = run_vmsched(c, tier, rng, shapes)
    opaque_binding(c, OPAQUE_THOROUGH if tier == "thorough" else OPAQUE_QUICK, tier, rng, shapes, dag_models)
    return finish(c)


def replay(path, tier):
    c = V.Check(PID, "model_checking", tier)
    r = json.load(open(path))
    p = r["payload"]
    kind = p["kind"]
    if kind == "exact":
        # the expectation is recomputed: measure the profile again, let TLC run the same call sequence over it
        h0 = p["hist"]
        calls = [(e["op"], e["arg"]) for e in h0]
        recs = harness([{"prog": p["prog"], "mode": "profile"}, {"prog": p["prog"], "mode": "ref"}], "replay_profile")
        groups, err = groups_from_profile(recs[0]["profile"]["points"], [g["cycles"] for g in recs[1]["groups"]])
        if err:
            c.violation("accounting/profile/%s" % p["prog"], err, p)
            return 1
        pf = os.path.join(V.workdir(PID), "profile_replay.json")
        with open(pf, "w") as f:
            json.dump({"groups": groups, "limits": sorted({a for o, a in calls if o == "chunk"}),
                       "budgets": sorted({a for o, a in calls if o == "budget"})}, f)
        res = V.tlc(PID, "MC_ScriptChunk", "MC_ScriptChunk_file.cfg", workers=2, env={"C05_PROFILE": pf}, tag="replay")
        hs = [h for h in V.tlc_json_lines(res["out"], "HIST") if [(e["op"], e["arg"]) for e in h] == calls]
        if res["violated"] or not hs:
            raise V.ToolError("replay: the model does not produce the call sequence %s (%s)" % (calls, res["violated"]))
        h = hs[0]
        sched = [{"lim": lim_real(e["arg"])} for e in h if e["op"] == "chunk"]
        fin = {"kind": "complete", "max": lim_real(h[-1]["arg"])} if h[-1]["op"] == "budget" else {"kind": "none"}
        out = harness([{"prog": p["prog"], "mode": "chunks", "sched": sched, "fin": fin}], "replay")
        bad = compare_history(p["prog"], h, out[0])
        if bad:
            c.violation(bad[0], "%s: %s" % (p["prog"], bad[1]), dict(p, hist=h, observed=out[0]))
    elif kind == "run":
        job = {k: v for k, v in p["job"].items() if k != "id"}
        spec = {k: job[k] for k in ("prog", "dag") if k in job}
        out = harness([dict(spec, mode="ref"), dict(job)], "replay")
        ref, rec = out[0], out[1]
        need = 0
        for g in ref["groups"]:
            need += g.get("need", 0)
            if g["kind"] != "ok":
                break
        codes = Codes()
        stats = {k: 0 for k in ("chunks", "no_progress_chunks", "overshoot_chunks", "capped", "budget_runs", "signal_runs", "signal_suspends")}
        evs, verdict = judge_run(job, {"prog": job["prog"], "need": need}, rec, ref, codes, stats)
        if verdict:
            c.violation(verdict[0], "%s: %s" % (job["prog"], verdict[1]), p)
        elif evs:
            tp = os.path.join(V.workdir(PID), "trace_replay.ndjson")
            with open(tp, "w") as f:
                for e in evs:
                    f.write(json.dumps(e) + "\n")
            validate_trace(c, tp, [(len(evs), job, rec)], "replay")
    elif kind == "dag":
        d = p["dag"]
        dp = os.path.join(V.workdir(PID), "dags_replay.json")
        json.dump([d], open(dp, "w"))
        res = V.tlc(PID, "MC_VmScheduler", "MC_VmScheduler_ref.cfg", workers=2, env={"C05_DAGS": dp}, coverage=False, tag="replay")
        refs = V.tlc_json_lines(res["out"], "REFRUN")
        if not refs:
            raise V.ToolError("no reference behaviour for the replayed DAG")
        out = harness([{"prog": "dag", "dag": dag_job(d), "mode": "ref", "iters": True}], "replay")
        bad = compare_dag_run(refs[0], out[0])
        if bad:
            c.violation(bad[0], bad[1], p)
    elif kind == "model":
        res = V.tlc(PID, "MC_ScriptChunk", p.get("cfg", "MC_ScriptChunk_file.cfg"), workers=8,
                    env={"C05_PROFILE": p.get("profile", "")})
        if res["violated"]:
            c.violation("model/" + res["violated"], "model violation", p)
    elif kind == "vmodel":
        res = V.tlc(PID, "MC_VmScheduler", p["cfg"], workers=8, coverage=False,
                    env={"C05_DAGS": os.path.join(V.workdir(PID), "dags_cuts.json")})
        if res["violated"]:
            c.violation("model/VmScheduler/" + res["violated"], "model violation", p)
    elif kind in ("ref", "profile"):
        out = harness([{"prog": p["prog"], "mode": "ref"}], "replay")
        need = sum(g.get("need", 0) for g in out[0]["groups"])
        if out[0]["ref"]["kind"] == "ok" and need != out[0]["ref"]["cycles"]:
            c.violation("cycles-differ/iterate-vs-verify/%s" % p["prog"], "iterate total %d, verify %d" % (need, out[0]["ref"]["cycles"]), p)
    else:
        raise V.ToolError("unknown replay kind %s" % kind)
    return 1 if c.violations else 0
