"""C18 — the indexer's answers equal filtering the chain's live cells and transactions.

1. TLC exhaustively checks Indexer.tla (rows, append, rollback, prune as coded; sync loop) over Ledger.tla:
   AnswersAreFilters, TipOK, RollbackInverts, Follows (enabled + strictly decreasing distance); the prefix
   iteration as coded before the fix (AliasBug) must violate AnswersAreFilters (oracle self-test).
2. R/direct: TLC-generated walks (exhaustive for the small universe, history variable) and random walks over
   random universes are replayed on the REAL crate-private Indexer (hook VerifIndexer; retention 100 and 2);
   after every step the whole query battery is compared, in order, with the answers TLC evaluates from the
   declarative filters (Eval_Indexer.tla).
3. R/service: TLC-generated (simulation) and random block trees are delivered to a REAL node followed by the REAL
   IndexerService; after every quiescence (indexer tip = node tip) the same battery is compared.
"""
import concurrent.futures as cf
import json
import os
import random

import vcheck as V

PID = "C18"
SCRIPTS = {
    "sd": {"code": "default", "args": []}, "s0": {"code": "as", "args": []}, "s1": {"code": "as", "args": [1]},
    "s2": {"code": "as", "args": [1, 2]}, "s3": {"code": "as", "args": [3]}, "q10": {"code": "as", "args": [1, 0]},
    "q2": {"code": "as", "args": [2]},
}
RAW = {k: ([0] if v["code"] == "default" else [9]) + v["args"] for k, v in SCRIPTS.items()}
STORED = ["s0", "s1", "s2", "s3"]
NONE = "none"
DEPLOY = {"lock": "sd", "type": NONE, "cap": 344, "dlen": 344}
GCELL = {"lock": "s0", "type": NONE, "cap": 50000, "dlen": 8}
CB_OUT = {"lock": "s0", "type": NONE, "cap": 1500, "dlen": 0}
CB_FROM = 3


def O(l, t, c, d):
    return {"lock": l, "type": t, "cap": c, "dlen": d}


# the universe of MC_Indexer.tla (ids as there)
MC_TXS = [
    {"ins": [[5, 0]], "outs": [O("s1", "s3", 20000, 0), O("s2", NONE, 29999, 4)]},
    {"ins": [[1, 0]], "outs": [O("s3", NONE, 19999, 0)]},
    {"ins": [[6, 0]], "outs": [O("s2", "s1", 25000, 2), O("s1", NONE, 24999, 0)]},
    {"ins": [[1, 1], [3, 0]], "outs": [O("s1", "s3", 54998, 1)]},
    {"ins": [], "outs": [GCELL]}, {"ins": [], "outs": [GCELL]}, {"ins": [], "outs": [GCELL]},
]
MC_GENESIS = [5, 6, 7]


def q(st, s, exact, fs=NONE, slen=(), dlen=(), cap=(), blk=()):
    return {"st": st, "s": s, "exact": exact, "fs": fs, "slen": list(slen), "dlen": list(dlen), "cap": list(cap),
            "blk": list(blk)}


def queries(caps):
    """search keys: every script x lock/type x prefix/exact unfiltered; filters on a set of bases"""
    base = [(st, s, e) for st in ("lock", "type") for s in SCRIPTS for e in (False, True)]
    cellq = [q(*b) for b in base]
    txq = [q(*b) for b in base]
    fbases = [("lock", "s0", False), ("lock", "s1", False), ("lock", "s1", True), ("type", "s3", False),
              ("type", "s1", False), ("lock", "s2", False), ("lock", "q10", False)]
    caps = sorted(set(caps))
    lo, mid, hi = caps[len(caps) // 4], caps[len(caps) // 2], caps[(3 * len(caps)) // 4]
    for b in fbases:
        for fs in ("s3", "s1", "s0"):
            cellq.append(q(*b, fs=fs))
        for r in ((0, 1), (1, 34), (0, 34), (34, 35), (35, 40)):
            cellq.append(q(*b, slen=r))
        for r in ((0, 1), (1, 5), (4, 9)):
            cellq.append(q(*b, dlen=r))
        for r in ((0, lo), (lo, hi), (mid, hi + 1), (hi, 10 ** 6)):
            cellq.append(q(*b, cap=r))
        for r in ((0, 1), (1, 3), (2, 100)):
            cellq.append(q(*b, blk=r))
        cellq.append(q(*b, fs="s3", cap=(0, hi), blk=(1, 4)))
        cellq.append(q(*b, slen=(0, 1), dlen=(0, 5), blk=(0, 3)))
        for fs in ("s3", "s1"):
            txq.append(q(*b, fs=fs))
        for r in ((0, 1), (1, 3), (2, 100)):
            txq.append(q(*b, blk=r))
        txq.append(q(*b, fs="s3", blk=(1, 4)))
    return cellq, txq


# ---------------------------------------------------------------------------------------------------------
# random universes (python only chooses inputs; every expected answer comes from the spec)
# ---------------------------------------------------------------------------------------------------------
def random_universe(rng, n_genesis, n_txs):
    txs = []          # defs; ids assigned later as position+1
    outs = []         # (txid, idx, cap)
    for g in range(n_genesis):
        txs.append({"ins": [], "outs": [dict(GCELL)]})
        outs.append((len(txs), 0, 50000))
    genesis = list(range(1, n_genesis + 1))
    spent_by = {}
    tries = 0
    while len(txs) < n_genesis + n_txs and tries < 1000:
        tries += 1
        k = 1 if rng.random() < 0.7 else 2
        pool = [o for o in outs if (o[0], o[1]) not in spent_by or rng.random() < 0.25]   # sometimes a conflicting spend
        if len(pool) < k:
            continue
        ins = rng.sample(pool, k)
        if any(a[0] == b[0] and a[1] == b[1] for i, a in enumerate(ins) for b in ins[i + 1:]):
            continue
        total = sum(o[2] for o in ins) - 1
        n_out = min(rng.choice([1, 1, 2, 2, 3]), total // 3000)
        if n_out == 0:
            continue
        caps = []
        rest = total
        for j in range(n_out):
            c = rest if j == n_out - 1 else rng.randrange(3000, rest - 3000 * (n_out - j - 1) + 1)
            caps.append(c)
            rest -= c
        tid = len(txs) + 1
        o = [O(rng.choice(STORED), rng.choice([NONE, NONE, "s1", "s2", "s3"]), c, rng.randrange(0, 6)) for c in caps]
        txs.append({"ins": [[i[0], i[1]] for i in ins], "outs": o})
        for i in ins:
            spent_by[(i[0], i[1])] = tid
        for j, c in enumerate(caps):
            outs.append((tid, j, c))
    return txs, genesis


class PyLedger:
    """only to choose valid bodies for random trees"""

    def __init__(self, txs, genesis):
        self.txs, self.genesis = txs, genesis

    def state(self, chain_bodies):
        live, used = set(), set()
        for body in chain_bodies:
            for t in body:
                for i in self.txs[t - 1]["ins"]:
                    live.discard((i[0], i[1]))
                for j in range(len(self.txs[t - 1]["outs"])):
                    live.add((t, j))
                used.add(t)
        return live, used

    def body(self, rng, chain_bodies, max_body):
        live, used = self.state(chain_bodies)
        body = []
        cand = [t for t in range(1, len(self.txs) + 1) if t not in used and t not in self.genesis]
        rng.shuffle(cand)
        n = rng.choice([0, 1, 1, 2, 2, 3])
        progress = True
        while len(body) < min(n, max_body) and progress:
            progress = False
            for t in cand:
                ins = [(i[0], i[1]) for i in self.txs[t - 1]["ins"]]
                if t not in used and all(i in live for i in ins):
                    for i in ins:
                        live.discard(i)
                    for j in range(len(self.txs[t - 1]["outs"])):
                        live.add((t, j))
                    used.add(t)
                    body.append(t)
                    progress = True
                    break
        return body


def random_tree(rng, led, n_blocks, max_body, branchy):
    """mine ops; parents biased to the deepest tips so that reorgs of depth > 1 happen"""
    blocks = {0: {"parent": 0, "number": 0, "txs": list(led.genesis)}}
    ops = []
    for b in range(1, n_blocks + 1):
        depth = max(x["number"] for x in blocks.values())
        r = rng.random()
        if r < 1 - branchy:
            p = rng.choice([i for i, x in blocks.items() if x["number"] == depth])
        elif r < 1 - branchy / 2:
            p = rng.choice([i for i, x in blocks.items() if x["number"] >= depth - 2])
        else:
            p = rng.choice(list(blocks))
        chain = []
        c = p
        while True:
            chain.append(blocks[c]["txs"])
            if c == 0:
                break
            c = blocks[c]["parent"]
        chain.reverse()
        body = led.body(rng, chain, max_body)
        n = blocks[p]["number"] + 1
        cb = [dict(CB_OUT)] if n >= CB_FROM else []
        blocks[b] = {"parent": p, "number": n, "txs": body}
        ops.append({"op": "mine", "parent": p, "txs": body, "cb": cb, "b": b})
    return ops


def reorg_tree(rng, led, main_len, depth):
    """a main branch, then a side branch forking `depth` blocks below its tip that grows longer (reorg of that depth),
    then the old branch overtakes again (a deeper reorg back)"""
    ops, bodies, number = [], {0: list(led.genesis)}, {0: 0}
    parent = {}

    def mine(p):
        b = len(ops) + 1
        chain, c = [], p
        while True:
            chain.append(bodies[c])
            if c == 0:
                break
            c = parent[c]
        chain.reverse()
        body = led.body(rng, chain, 3)
        n = number[p] + 1
        bodies[b], number[b], parent[b] = body, n, p
        ops.append({"op": "mine", "parent": p, "txs": body, "cb": [dict(CB_OUT)] if n >= CB_FROM else [], "b": b})
        return b
    tip = 0
    main = [0]
    for _ in range(main_len):
        tip = mine(tip)
        main.append(tip)
    side = main[-1 - depth]
    for _ in range(depth + 1):
        side = mine(side)
    for _ in range(2):
        tip = mine(tip)
    return ops


def random_walk(rng, ops, steps, keep):
    parent = {o["b"]: o["parent"] for o in ops}
    number = {0: 0}
    for o in ops:
        number[o["b"]] = number[o["parent"]] + 1
    kids = {}
    for b, p in parent.items():
        kids.setdefault(p, []).append(b)
    tip, hw, walk = 0, 0, []
    for _ in range(steps):
        can_rb = tip != 0 and hw - number[tip] < keep
        ch = kids.get(tip, [])
        if ch and (not can_rb or rng.random() < 0.58):
            tip = rng.choice(ch)
            hw = max(hw, number[tip])
            walk.append({"op": "append", "b": tip})
        elif can_rb:
            walk.append({"op": "rollback", "b": tip})
            tip = parent[tip]
        else:
            break
    return walk


# ---------------------------------------------------------------------------------------------------------
class Universe:
    def __init__(self, name, txs, genesis):
        self.name, self.txs, self.genesis = name, txs, genesis
        self.hists = []          # {"id", "ops", "mode", "keep"}
        caps = [o["cap"] for t in txs for o in t["outs"]]
        self.cellq, self.txq = queries(caps)
        self.chains, self.index = [], {}

    def chain_index(self, blocks):
        key = json.dumps(blocks, sort_keys=True)
        if key not in self.index:
            self.index[key] = len(self.chains)
            self.chains.append(blocks)
        return self.index[key]

    def add_hist(self, hid, ops, mode, keep=100):
        tree = {0: {"parent": 0, "number": 0, "txs": list(self.genesis), "cb": [dict(DEPLOY)]}}
        for o in ops:
            if o["op"] == "mine":
                tree[o["b"]] = {"parent": o["parent"], "number": tree[o["parent"]]["number"] + 1, "txs": o["txs"], "cb": o["cb"]}
        exp = {}
        for b in tree:
            ch, c = [], b
            while True:
                ch.append({"number": tree[c]["number"], "txs": tree[c]["txs"], "cb": tree[c]["cb"]})
                if c == 0:
                    break
                c = tree[c]["parent"]
            ch.reverse()
            exp[str(b)] = self.chain_index(ch)
        self.hists.append({"id": hid, "ops": ops, "exp": exp, "mode": mode, "keep": keep})


def evaluate(u, slices=8):
    """TLC (Eval_Indexer.tla) computes the declarative answers of every distinct chain of the universe"""
    wd = V.workdir(PID, "eval_" + u.name, fresh=True)
    n = len(u.chains)
    parts = [list(range(i, n, slices)) for i in range(slices) if i < n]
    files = []
    for pi, idxs in enumerate(parts):
        f = os.path.join(wd, "u%d.json" % pi)
        with open(f, "w") as fh:
            json.dump({"txs": u.txs, "raw": RAW, "chains": [u.chains[i] for i in idxs], "cellq": u.cellq, "txq": u.txq}, fh)
        files.append((pi, f, idxs))

    def run(item):
        pi, f, idxs = item
        res = V.tlc(PID, "Eval_Indexer", "Eval_Indexer.cfg", workers=1, env={"UNIVERSE": f}, timeout=1500, coverage=False,
                    xmx="3g", tag="eval_%s_%d" % (u.name, pi))
        if res["rc"] != 0:
            V.log(res["out"][-3000:])
            raise V.ToolError("Eval_Indexer failed on %s" % f)
        out = {}
        for j in V.tlc_json_lines(res["out"], "EXPECT"):
            out[idxs[j["k"] - 1]] = {"cells": j["cells"], "txs": j["txs"], "gtxs": j["gtxs"]}
        if len(out) != len(idxs):
            raise V.ToolError("Eval_Indexer printed %d of %d chains" % (len(out), len(idxs)))
        return out, res

    expect, states = {}, 0
    with cf.ThreadPoolExecutor(max_workers=8) as ex:
        for out, res in ex.map(run, files):
            expect.update(out)
            states += res["distinct"]
    return [expect[i] for i in range(n)], states


def run_harness(c, u, expect, mode, keep, prune_interval, hists, procs, full_every, tag):
    wd = V.workdir(PID, "run_" + tag, fresh=True)
    # service mode: at most 12 histories per process (the indexer service of every history's node stays alive
    # until the process ends); direct mode frees everything per history
    nchunks = max(procs, (len(hists) + 11) // 12) if mode == "service" else procs
    chunks = [hists[i::nchunks] for i in range(nchunks) if hists[i::nchunks]]
    jobs = []
    for ci, chunk in enumerate(chunks):
        used = sorted({v for h in chunk for v in h["exp"].values()})
        remap = {v: i for i, v in enumerate(used)}
        f = os.path.join(wd, "in%d.json" % ci)
        with open(f, "w") as fh:
            json.dump({"scripts": SCRIPTS, "txs": u.txs, "genesis_txs": u.genesis, "cellq": u.cellq, "txq": u.txq,
                       "expect": [expect[v] for v in used],
                       "hists": [{"id": h["id"], "ops": h["ops"], "exp": {k: remap[v] for k, v in h["exp"].items()}} for h in chunk],
                       "keep_num": keep, "prune_interval": prune_interval, "cb_from": CB_FROM, "full_every": full_every}, fh)
        jobs.append(f)

    def run(f):
        rc, out = V.ckbv("c18", [mode, "--in", f], timeout=3000)
        return f, rc, out

    V.build_harness("c18")
    tot = {}
    terr = []
    by_id = {h["id"]: h for h in hists}
    with cf.ThreadPoolExecutor(max_workers=procs) as ex:
        for f, rc, out in ex.map(run, jobs):
            lines = V.parse_ndjson(out)
            summ = [x["summary"] for x in lines if "summary" in x]
            if rc != 0 or not summ:
                V.log(out[-3000:])
                raise V.ToolError("c18 %s failed rc=%d on %s" % (mode, rc, f))
            terr += [x["tool_error"] for x in lines if "tool_error" in x]
            for k, v in summ[0].items():
                if isinstance(v, int):
                    tot[k] = max(tot.get(k, 0), v) if k.startswith("max") else tot.get(k, 0) + v
            for x in lines:
                if "mismatch" in x:
                    m = x["mismatch"]
                    h = by_id[m["hist"]]
                    c.violation(key_of(m), "%s: %s (history %s step %s)" % (m["kind"], m.get("detail"), m["hist"], m.get("step")),
                                {"kind": "history", "mode": mode, "keep": keep, "prune_interval": prune_interval,
                                 "universe": {"txs": u.txs, "genesis": u.genesis}, "hist": {"id": h["id"], "ops": h["ops"]},
                                 "mismatch": m})
    # violations first: a tool error after a violation must never hide it
    if terr and not c.violations:
        raise V.ToolError("c18 %s: %s" % (mode, terr[:3]))
    return tot


def key_of(m):
    qq = m.get("q") or {}
    filt = [k for k in ("fs", "slen", "dlen", "cap", "blk") if qq.get(k) not in (None, NONE, [])]
    mode = "exact" if qq.get("exact") else "prefix"
    return "%s/%s/%s%s" % (m["kind"], mode, qq.get("s", "-"), ("/filter=" + "+".join(filt)) if filt else "")


def reorg_in(ops):
    """walks: a rollback followed by the append of another block, or two rollbacks in a row; trees: a block whose
    parent is not the block mined just before it (a second branch)"""
    walk = [o for o in ops if o["op"] != "mine"]
    if walk:
        for i in range(len(walk) - 1):
            if walk[i]["op"] == "rollback" and (walk[i + 1]["op"] == "rollback" or walk[i + 1]["b"] != walk[i]["b"]):
                return True
        return False
    mines = [o for o in ops if o["op"] == "mine"]
    return any(o["parent"] != o["b"] - 1 for o in mines)


def hist_has_content(ops):
    return sum(len(o.get("txs", [])) for o in ops if o["op"] == "mine")


def tlc_hists(cfg, simulate=None, depth=None, tag=None):
    res = V.tlc(PID, "MCH_Indexer", cfg, workers=8, simulate=simulate, depth=depth, timeout=900, coverage=False, xmx="8g", tag=tag)
    if res["violated"] or res["rc"] != 0:
        V.log(res["out"][-3000:])
        raise V.ToolError("history export failed: %s" % cfg)
    hs, seen = [], set()
    for h in V.tlc_json_lines(res["out"], "HIST"):
        k = json.dumps(h, sort_keys=True)
        if k not in seen:
            seen.add(k)
            hs.append(h)
    return hs, res


def run(tier):
    c = V.Check(PID, "model_checking", tier)
    try:
        return _run(c, tier)
    except V.ToolError as e:
        # a tool error / vacuity guard after a violation must never hide it
        if c.violations:
            V.log("TOOL-ERROR after %d violation(s) (exit code stays 1): %s" % (len(c.violations), e))
            c.finish()
            return 1
        raise


def _run(c, tier):
    quick = tier == "quick"
    c.rule = ("cases = histories: a TLC-generated or random append/rollback walk replayed on the real Indexer, or a block tree "
              "delivered to a real node followed by the real IndexerService; after every step / quiescence the query battery is "
              "compared with the spec's filters; non-trivial = a walk with a rollback followed by another rollback or by the append "
              "of a different block, a tree with more than one branch (reorgs the node really performed are counted in replay.*)")
    c.assumptions = [
        "block numbers, tx and cell indexes < 256 and no two stored scripts differ only by trailing zero bytes (key abstraction of Indexer.tla)",
        "blocks reach the node with two-phase-commit verification switched off (bodies are plain transaction lists in Ledger.tla); everything else is verified",
        "rollbacks stay within the retention (the property's own proviso); the service's retention (100) is never exceeded by the trees used",
        "the pool overlay (index_tx_pool) and custom block/cell filters are off; group_by_transaction and partial mode (refused by this indexer) are not compared",
        "a cellbase output's capacity is only known to lie strictly between 1000 and 2000 CKB on the real node; capacity-range bounds never fall inside that interval",
    ]
    rng = random.Random(V.seed())
    walk_acts = ["MCMine", "MCIdxAppend", "IdxRollback"]
    sync_acts = ["MCMine", "Attach", "Detach", "SyncStep"]
    if quick:
        mc = [("MC_Indexer_walk3.cfg", walk_acts), ("MC_Indexer_sync3.cfg", sync_acts), ("MC_Indexer_prune4.cfg", walk_acts)]
    else:
        mc = [("MC_Indexer_walk4.cfg", walk_acts), ("MC_Indexer_sync3.cfg", sync_acts), ("MC_Indexer_prune4.cfg", walk_acts)]

    def run_mc(item):
        cfg, acts = item
        return cfg, acts, V.tlc(PID, "MC_Indexer", cfg, workers=3 if quick else 5, timeout=1700, xmx="8g")

    ex = cf.ThreadPoolExecutor(max_workers=6)
    # ---- 1. exhaustive model checking: started now, collected at the end (runs beside the replays) ----------
    fut_mc = [ex.submit(run_mc, m) for m in mc]
    fut_bug = ex.submit(lambda: V.tlc(PID, "MC_Indexer", "MC_Indexer_buggy.cfg", workers=2, timeout=600, coverage=False))
    fut_walk = ex.submit(tlc_hists, "MCH_Indexer_walk.cfg" if quick else "MCH_Indexer_walk8.cfg", None, None, "hwalk")
    fut_grow = ex.submit(tlc_hists, "MCH_Indexer_grow.cfg", "num=%d" % (30 if quick else 120), 7, "hgrow")
    walk_h, wres = fut_walk.result()
    grow_h, gres = fut_grow.result()
    c.set("tlc_walk_histories_exported", len(walk_h))
    c.set("tlc_grow_histories_exported", len(grow_h))
    if len(walk_h) < 1000 or len(grow_h) < 50:
        raise V.ToolError("too few histories exported: %d walks, %d trees" % (len(walk_h), len(grow_h)))

    # ---- 2. universes -----------------------------------------------------------------------------------
    umc = Universe("mc", MC_TXS, MC_GENESIS)
    # walks: a seeded sample of the exhaustive export (those with >= 2 transactions); all of them in thorough
    rich = [h for h in walk_h if hist_has_content(h) >= 2]
    rng.shuffle(rich)
    hid = 0
    for h in rich[: (300 if quick else 3000)]:
        hid += 1
        umc.add_hist(hid, h, "direct")
    richg = [h for h in grow_h if hist_has_content(h) >= 2]
    rng.shuffle(richg)
    for h in richg[: (16 if quick else 120)]:
        hid += 1
        umc.add_hist(hid, h, "service")
    urs = []
    for ui in range(1 if quick else 3):
        txs, gen = random_universe(rng, 4, 14)
        u = Universe("r%d" % ui, txs, gen)
        led = PyLedger(txs, gen)
        for _ in range(40 if quick else 100):          # random walks, the service's retention
            hid += 1
            ops = random_tree(rng, led, rng.randrange(4, 8), 3, 0.5)
            u.add_hist(hid, ops + random_walk(rng, ops, 14, 100), "direct")
        for _ in range(40 if quick else 100):          # random walks with retention 2, prune at every block
            hid += 1
            ops = random_tree(rng, led, rng.randrange(5, 9), 3, 0.4)
            u.add_hist(hid, ops + random_walk(rng, ops, 16, 2), "direct2", keep=2)
        for i in range(8 if quick else 24):            # trees for the real node + service; half with a planned deep reorg
            hid += 1
            ops = reorg_tree(rng, led, rng.randrange(3, 6), rng.randrange(2, 4)) if i % 2 == 0 else \
                random_tree(rng, led, rng.randrange(6, 11), 3, 0.45)
            u.add_hist(hid, ops, "service")
        urs.append(u)

    # ---- 3. expected answers from the spec; replay on the real code ------------------------------------------
    tot = {}
    n_chains = 0
    for u in [umc] + urs:
        expect, _ = evaluate(u)
        n_chains += len(u.chains)
        for mode, keep, pint, name in (("direct", 100, 1000, "direct"), ("direct", 2, 1, "direct2"), ("service", 100, 1000, "service")):
            hs = [h for h in u.hists if h["mode"] == name]
            if not hs:
                continue
            t = run_harness(c, u, expect, mode, keep, pint, hs, 8 if mode == "direct" else 6, 3 if mode == "direct" else 0,
                            "%s_%s" % (u.name, name))
            for k, v in t.items():
                kk = "%s.%s" % (name, k)
                tot[kk] = max(tot.get(kk, 0), v) if k.startswith("max") else tot.get(kk, 0) + v
            for h in hs:
                nontrivial = reorg_in(h["ops"])
                c.case({"u": u.name, "ops": h["ops"], "mode": name}, nontrivial)
            c.add("traces_validated_against_impl", len(hs))
        c.sample({"universe": u.name, "mode": u.hists[0]["mode"], "history": u.hists[0]["ops"]})
        c.sample({"universe": u.name, "mode": u.hists[-1]["mode"], "history": u.hists[-1]["ops"]})
    for k in list(tot):
        if k.endswith("_ms"):
            del tot[k]
    c.set("replay", tot)
    c.set("distinct_chains_evaluated_by_spec", n_chains)
    c.set("queries_per_full_battery", len(umc.cellq) * 2 + len(umc.txq))
    # ---- 4. collect the model-checking runs ---------------------------------------------------------------------
    for f in fut_mc:
        cfg, acts, res = f.result()
        if res["violated"]:
            c.violation("model/" + res["violated"], "Indexer.tla violates %s in %s" % (res["violated"], cfg),
                        {"kind": "model", "cfg": cfg, "tlc_tail": res["out"][-3000:]})
        V.require_coverage(res, acts, cfg)
        c.add_tlc(res, cfg)
    bug = fut_bug.result()
    if bug["violated"] != "AnswersAreFilters":
        raise V.ToolError("oracle self-test failed: AliasBug=TRUE does not violate AnswersAreFilters (%s)" % bug["violated"])
    c.set("selftest_alias_bug_rejected_by", bug["violated"])
    c.set("exhaustive", True)
    # ---- 5. vacuity guards ------------------------------------------------------------------------------------
    need = {"direct.rollbacks_deeper_than_1": 1, "direct2.rollbacks_deeper_than_1": 1, "service.reorgs": 1,
            "service.rollbacks_deeper_than_1": 1, "direct.prefix_hits": 1, "service.prefix_hits": 1, "direct.multi_page": 1,
            "service.multi_page": 1, "direct.grouped_multi": 1, "service.grouped_multi": 1}
    miss = [k for k, v in need.items() if tot.get(k, 0) < v]
    if miss:
        raise V.ToolError("vacuous replay: %s (%s)" % (miss, tot))
    return c.finish()


def replay(path, tier):
    c = V.Check(PID, "model_checking", tier)
    r = json.load(open(path))
    p = r["payload"]
    if p["kind"] == "model":
        res = V.tlc(PID, "MC_Indexer", p["cfg"], workers=8)
        if res["violated"]:
            c.violation("model/" + res["violated"], "model violation", p)
        return 1 if c.violations else 0
    u = Universe("replay", p["universe"]["txs"], p["universe"]["genesis"])
    mode = p["mode"]
    u.add_hist(p["hist"]["id"], p["hist"]["ops"], mode, p["keep"])
    expect, _ = evaluate(u, slices=2)
    run_harness(c, u, expect, mode, p["keep"], p["prune_interval"], u.hists, 1, 1, "replay")
    return 1 if c.violations else 0
