"""C10 — freezing old blocks is invisible to every chain query and survives crashes.

1. TLC exhaustively checks Freeze.tla (kv rows per block part, freezer items, one freeze pass as the coded
   sequence Threshold -> FreezeAppend* -> FreezerSync -> WipeBodies -> WipeSide, crash / power loss between
   any two, restart, late side blocks, chain growth) against QueryUnchanged, NoMainChainBlockLost,
   OnlyAncientMoved, Contiguous, AtMostLimit, OnlySideChainRemoved, SideAllOrNothing; four broken variants of
   the sequence must each violate an invariant (oracle self-test).
2. R / fault enumeration (harness c10): seeded histories on a real node with the freezer enabled; one pass at a
   time through Shared::verif_freeze_once(); the full query vector is compared with a never-freezing reference
   node (freezer disabled: the configuration axis) with warm caches, through a cache-less fresh handle, after
   restart, after an abort at every step of the pass (+ power-loss cut of the unsynced freezer tail) and after
   the next pass, and with the freezer disabled on a copy of the directory.
3. T: the steps announced by the real pass + raw row observations are validated by Trace_Freeze.tla.
"""
import json
import os
import re
from concurrent.futures import ThreadPoolExecutor

import vcheck as V

PID = "C10"
ACTIONS = ["Grow", "InsertSide", "Threshold", "FreezeAppend", "AppendDone", "FreezerSync", "WipeBodies", "WipeSide",
           "Flush", "CrashTo", "Restart"]
INVS = ["TypeOK", "QueryUnchanged", "SideAllOrNothing", "NoMainChainBlockLost", "OnlyAncientMoved", "Contiguous",
        "AtMostLimit", "OnlySideChainRemoved"]
BUGS = ["wipe_before_sync", "le_threshold", "wipe_main", "skip_gap"]


def run_scenario(seed, max_points, limit=None):
    args = ["scenario", "--seed", seed, "--max-points", max_points]
    if limit is not None:
        args += ["--limit", limit]
    rc, out = V.ckbv("c10", args, timeout=1500)
    lines = V.parse_ndjson(out)
    return rc, out, lines


def key_of(d):
    cls = d["class"]
    if cls in ("pass-failed", "reopen-failed", "reopen-failed-after-crash", "next-pass-failed-after-crash",
               "next-run-does-not-continue", "missing-answer-vector"):
        return "%s/%s" % (cls, d.get("target", "-") if cls != "pass-failed" else d["getter"])
    return "query-changed/%s/%s" % (d["getter"], cls)


def sset(xs):
    return "{" + ", ".join(str(x) for x in xs) + "}"


def validate(c, seed, summ, branches):
    wd = V.workdir(PID)
    tr = list(summ["trace"])
    n_traces = 1
    for b in branches:
        tr.append({"ev": "Reset"})
        tr += summ["trace"][:b["prefix"]] + b["events"]
        n_traces += 1
    path = os.path.join(wd, "trace_%d.ndjson" % seed)
    with open(path, "w") as f:
        f.write("\n".join(json.dumps(e) for e in tr) + "\n")
    k = summ["consts"]
    cfg = os.path.join(wd, "Trace_Freeze_%d.cfg" % seed)
    with open(cfg, "w") as f:
        f.write("SPECIFICATION TSpec\nCONSTANTS\n EpochLen = %d\n InitTip = %d\n MaxTip = %d\n Limit = %d\n"
                " SideHeights = %s\n LateSides = %s\n NoExt = %s\n MaxPasses = 100000\n MaxCrashes = 100000\n"
                " Bug = \"none\"\n" % (k["EpochLen"], k["InitTip"], k["MaxTip"], k["Limit"], sset(k["SideHeights"]),
                                      sset(k["LateSides"]), sset(k["NoExt"])))
        f.write("".join("INVARIANT %s\n" % i for i in INVS))
        f.write("POSTCONDITION Accepted\nCHECK_DEADLOCK FALSE\n")
    ok, res = V.validate_trace(PID, "Trace_Freeze", cfg, path, tag="trace%d" % seed, timeout=600)
    if not ok:
        m = re.search(r'<<\s*"TRACE-REJECTED",\s*(\d+),', res["out"])
        at = int(m.group(1)) if m else -1
        start = max([i for i in range(min(max(at, 0), len(tr))) if tr[i]["ev"] == "Reset"] or [0])
        frag = tr[start:at] if at > 0 else tr[:40]
        kind = frag[-1]["ev"] if frag else "?"
        if "TRACE-REJECTED" not in res["out"] and not res["violated"]:
            V.log(res["out"][-3000:])
            raise V.ToolError("trace validation failed to run for scenario %d" % seed)
        c.violation("trace/%s/%s" % (kind, res["violated"] or "not-a-behaviour"),
                    "the real freeze history of scenario %d is not a behaviour of Freeze.tla at event %d (%s)" % (seed, at, kind),
                    {"kind": "scenario", "seed": seed, "events": frag, "consts": k, "tlc_tail": res["out"][-1500:]})
    return ok, len(tr), n_traces


def judge(c, seed, lines, out, max_points, limit=None):
    """Turn the observations of one scenario into violations; returns (summary, branches)."""
    summ, branches, by_key = None, [], {}
    for x in lines:
        if "tool_error" in x:
            V.log(out[-3000:])
            raise V.ToolError("c10 scenario %d: %s" % (seed, x["tool_error"]))
        if "summary" in x:
            summ = x["summary"]
        elif "branch" in x:
            branches.append(x["branch"])
        elif "diff" in x:
            by_key.setdefault(key_of(x["diff"]), []).append(x["diff"])
    if summ is None:
        V.log(out[-3000:])
        raise V.ToolError("c10 scenario %d produced no summary" % seed)
    for key, ds in sorted(by_key.items()):
        d = ds[0]
        c.violation(key, "%s of %s (%s) changed in phase %s: expected %s got %s  [%d such answers in scenario %d]" % (
            d["getter"], d.get("target"), d["class"], d["phase"], str(d["expected"])[:60], str(d["got"])[:60], len(ds), seed),
            {"kind": "scenario", "seed": seed, "max_points": max_points, "limit": limit, "plan": summ["plan"],
             "first": ds[:5], "count": len(ds), "phases": sorted({x["phase"] for x in ds})[:30]})
    return summ, branches


def probe(c):
    rc, out = V.ckbv("c10", ["cursor-probe"], timeout=120)
    r = [x["cursor_probe"] for x in V.parse_ndjson(out) if "cursor_probe" in x]
    if rc != 0 or not r:
        V.log(out[-2000:])
        raise V.ToolError("c10 cursor-probe failed rc=%d" % rc)
    c.case({"probe": "append-after-retrieve"}, True)
    if not r[0]["ok"]:
        c.violation("freezer-corrupted/append-after-retrieve-of-older-item",
                    "FreezerFiles::open; append 1,2,3; retrieve(1); append 4 -> frozen items unreadable: %s" % "; ".join(r[0]["bad"])[:300],
                    {"kind": "probe", "bad": r[0]["bad"]})
    return r[0]


def run(tier):
    c = V.Check(PID, "model_checking", tier)
    c.rule = ("cases = (scenario, observation phase): the main-line phases before/warm/snapshot/fresh-handle/restart/"
              "freezer-disabled of every pass and one case per crash point (abort at an announced step of the real pass, "
              "reopen, next pass); non-trivial = a crash point inside a pass that had already appended at least one block "
              "or whose unsynced freezer tail was cut")
    c.assumptions = [
        "block import is atomic and durable in the model (import crashes belong to C08); no reorg reaches below the freeze threshold",
        "a crash of the real node is a process abort at a step boundary announced by the hook, optionally followed by cutting "
        "the unsynced tail of the freezer's head data file and INDEX; loss of the unsynced rocksdb batch (WipeSide) is "
        "explored in the model only",
        "with the freezer disabled on a directory that already has frozen blocks only the answers served by the kv store are "
        "demanded (headers, numbers, tx-info, cells, ancestors, unfrozen blocks); the baseline is a node that never freezes",
        "side-chain blocks: while all rows exist every answer equals the reference; once removed an answer may be that of an "
        "unknown hash or still the block's own (cache staleness is C14's), never another block",
        "two-block side branches never cross an epoch boundary (the side-chain epoch index of F3/C02 would make the pass panic)",
        "the load_block_extension syscall is observed at its data source (ExtensionProvider::get_block_extension of the "
        "store's data loader), not by running a script",
    ]
    # 1. exhaustive model checking + oracle self-test
    cfgs = ["MC_Freeze_quick.cfg"] if tier == "quick" else ["MC_Freeze_quick.cfg", "MC_Freeze_thorough.cfg"]
    for cfg in cfgs:
        res = V.tlc(PID, "MC_Freeze", cfg, workers=4, timeout=1200, xmx="8g")
        if res["violated"]:
            c.violation("model/" + res["violated"], "Freeze.tla violates %s in %s" % (res["violated"], cfg),
                        {"kind": "model", "cfg": cfg, "tlc_tail": res["out"][-3000:]})
        V.require_coverage(res, ACTIONS, cfg)
        c.add_tlc(res, cfg)
    c.set("exhaustive", True)
    rejected = {}
    for b in BUGS:
        res = V.tlc(PID, "MC_Freeze", "MC_Freeze_bug_%s.cfg" % b, workers=4, timeout=600)
        if not res["violated"]:
            raise V.ToolError("oracle self-test failed: Bug=%s violates no invariant" % b)
        rejected[b] = res["violated"]
    c.set("selftest_broken_sequences_rejected_by", rejected)
    # 2a. the freezer as the store uses it: a read of an older item between two appends (a get_block of a frozen
    #     block while / between freeze passes) must not disturb the append
    probe(c)
    # 2./3. scenarios on the real node
    n_scen, max_points, par = (5, 7, 4) if tier == "quick" else (24, 1000, 4)
    seeds = [V.seed() * 1000 + i for i in range(n_scen)]
    # one LONG scenario (see make_plan in c10.rs): about 180 blocks frozen below a tip near 300
    seeds.append(V.seed() * 1000 + 777)
    V.build_harness("c10")
    with ThreadPoolExecutor(max_workers=par) as ex:
        results = list(ex.map(lambda s: (s, run_scenario(s, max_points)), seeds))
    tot = {}
    feats = {"testnet_noext": 0, "uncle": 0, "late_side": 0, "two_block_side_branch": 0, "idle_first_pass": 0, "unlimited": 0}
    events = 0
    for seed, (rc, out, lines) in results:
        if rc != 0:
            V.log(out[-3000:])
            raise V.ToolError("c10 scenario %d failed rc=%d" % (seed, rc))
        summ, branches = judge(c, seed, lines, out, max_points)
        for k, v in summ["stats"].items():
            tot[k] = tot.get(k, 0) + v
        p = summ["plan"]
        feats["testnet_noext"] += 1 if p["noext"] else 0
        feats["uncle"] += 1 if any(s["uncle"] for s in p["sides"]) else 0
        feats["late_side"] += 1 if any(s["phase"] > 0 for s in p["sides"]) else 0
        feats["two_block_side_branch"] += 1 if any(s["on_side"] for s in p["sides"]) else 0
        feats["idle_first_pass"] += 1 if p["tips"][0] < 3 * p["epoch_len"] else 0
        feats["unlimited"] += 1 if p["limit"] > 1000 else 0
        ok, n_ev, n_tr = validate(c, seed, summ, branches)
        events += n_ev
        c.add("traces_validated_against_impl", n_tr)
        for ph in ("before", "warm", "warm-snapshot", "fresh-handle", "restart", "freezer-disabled"):
            for j in range(len(p["tips"])):
                c.case({"seed": seed, "pass": j + 1, "phase": ph}, False)
        for b in branches:
            appended = sum(1 for e in b["events"][: [e["ev"] for e in b["events"]].index("Crash")] if e["ev"] == "FreezeAppend")
            c.case({"seed": seed, "pass": b["pass"], "point": b["point"], "tag": b["tag"], "power": b["power"]},
                   appended > 0 or b["power"])
        if len(c.cov["samples"]) < 3:
            c.sample({"scenario": seed, "plan": p, "trace_prefix": summ["trace"][:10],
                      "crash_branch": (branches[len(branches) // 2] if branches else None)})
    tot["trace_events"] = events
    c.set("scenarios", len(seeds))
    c.set("scenario_totals", tot)
    c.set("scenario_features", feats)
    # a vacuity alarm never hides a violation that was found
    if not c.violations and (tot.get("blocks_frozen", 0) < 1 or tot.get("side_wiped", 0) < 1 or tot.get("crash_points", 0) < 5
            or tot.get("compared_frozen", 0) < 100 or tot.get("power_cuts_lost_items", 0) < 1
            or tot.get("side_removed_compared", 0) < 1):
        raise V.ToolError("vacuous scenario run: %s" % tot)
    return c.finish()


def replay(path, tier):
    c = V.Check(PID, "model_checking", tier)
    r = json.load(open(path))
    p = r["payload"]
    if p["kind"] == "probe":
        probe(c)
    elif p["kind"] == "model":
        res = V.tlc(PID, "MC_Freeze", p["cfg"], workers=4)
        if res["violated"]:
            c.violation("model/" + res["violated"], "model violation", p)
    else:
        seed = p["seed"]
        mp = p.get("max_points", 1000)
        rc, out, lines = run_scenario(seed, mp, p.get("limit"))
        if rc != 0:
            V.log(out[-3000:])
            raise V.ToolError("c10 scenario %d failed rc=%d" % (seed, rc))
        summ, branches = judge(c, seed, lines, out, mp, p.get("limit"))
        validate(c, seed, summ, branches)
    return 1 if c.violations else 0
