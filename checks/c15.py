"""C15 — wire and storage encodings round-trip losslessly and hashes commit to content.

1. The encoding RULES are an independent oracle in TLA+ (spec/Molecule.tla; the schema is generated data,
   spec/CkbSchema.tla, bin/molgen).  TLC (MC_C15) enumerates small values of every schema type -- a non-default base
   value and every value differing from it in one node through that node's small domain -- checks the model laws
   (Dec(Enc(v)) = v, WF(Enc(v)), the declared commitment table agrees with the hash definitions) and writes each case
   with its encoding and hash terms.
2. TLC (MC_MolBuf) exhausts ALL small byte strings against small real schema types: WF(b) => Enc(Dec(b)) = b.
3. R: harness/src/bin/c15.rs builds every value field by field through the generated builders and compares bytes,
   decoding, every hash function / cached view hash (spec terms evaluated with the real blake2b), the set of hashes
   that move on every mutation pair, the packed <-> JSON-RPC <-> text round trips, and obtains every mutated
   Transaction / Header / UncleBlock / Block view FROM THE BASE VIEW through as_advanced_builder() + the setters of the changed
   fields (set/extend/push forms, field list from the schema) + build(): no cached hash may be stale.  Every small buffer is fed to
   the real strict decoder: same verdict, and accepted buffers are rebuilt field by field into the same bytes.
"""
import glob
import json
import os
import shutil

import vcheck as V

PID = "C15"
LEVEL = "other"
WORKERS = int(os.environ.get("VERIF_TLC_WORKERS", "8"))     # <= 8; the builders ran with 4 on the shared machine


def molgen_check():
    rc, out = V.sh([os.path.join(V.ROOT, "bin", "molgen"), "--check"], timeout=120)
    if rc != 0:
        raise V.ToolError("generated schema files are stale w.r.t. /repo/util/gen-types/schemas: %s" % out.strip())


def enumerate_values(c, cfg, timeout):
    outdir = V.workdir(PID, "vals", fresh=True)
    res = V.tlc(PID, "MC_C15", cfg, workers=WORKERS, timeout=timeout, xmx="10g", env={"C15_OUT": outdir})
    if res["violated"]:
        c.violation("model/" + res["violated"], "the specification violates its own law %s (%s)" % (res["violated"], cfg),
                    {"kind": "model", "cfg": cfg, "tlc_tail": res["out"][-3000:]})
    V.require_coverage(res, ["Load", "Deal", "Step"], cfg)
    c.add_tlc(res, cfg)
    recs = []
    for f in glob.glob(os.path.join(outdir, "*.json")):
        recs.append(json.load(open(f)))
    recs.sort(key=lambda r: (r["ty"], r["k"]))
    steps = res["coverage"]["Step"][1]
    if len(recs) != steps and not res["violated"]:
        raise V.ToolError("TLC took %d Step transitions but %d case files were written" % (steps, len(recs)))
    by = {}
    for r in recs:
        by.setdefault(r["ty"], []).append(r["k"])
    for t, ks in by.items():
        if ks != list(range(1, len(ks) + 1)):
            raise V.ToolError("cases of %s are not contiguous: %s" % (t, ks[:20]))
    shutil.rmtree(outdir, ignore_errors=True)
    return recs


def replay_values(c, recs, tag="values"):
    path = os.path.join(V.workdir(PID), tag + ".ndjson")
    with open(path, "w") as f:
        for r in recs:
            f.write(json.dumps(r) + "\n")
    rc, out = V.ckbv("c15", ["values", "--in", path], timeout=1500)
    lines = V.parse_ndjson(out)
    summ = [x["summary"] for x in lines if "summary" in x]
    if rc != 0 or not summ:
        V.log(out[-3000:])
        raise V.ToolError("c15 values failed rc=%d" % rc)
    index = {(r["ty"], r["k"]): r for r in recs}
    for x in lines:
        if "mismatch" in x:
            m = x["mismatch"]
            rec = index[(m["ty"], m["k"])]
            base = index[(m["ty"], 1)]
            c.violation("%s/%s" % (m["kind"], m["ty"]),
                        "%s case %d (path %s): %s" % (m["ty"], m["k"], m["path"], m["detail"][:600]),
                        {"kind": "value", "records": [base, rec] if rec is not base else [base], "detail": m})
    return summ[0]


def small_buffers(c, tier):
    """exhaustive small byte strings x small real types (shared machinery with C16)"""
    import c16
    return c16.small_buffers(c, tier, strict_only=True)


def run(tier):
    c = V.Check(PID, LEVEL, tier)
    c.rule = ("cases = values enumerated by TLC from the schema (base value of each type + every one-node variant through the "
              "node's small domain), each replayed on the real packed/view/JSON types; non-trivial = the base value or a variant "
              "below the root (a single field / item changed); plus every small byte string of the exhaustive buffer model")
    c.assumptions = [
        "the specification's hash H is an injective constructor; 'moves' on the real side means the blake2b values differ",
        "JSON round trips are stated for structurally valid values (hash_type / dep_type bytes that name a variant, UTF-8 alert texts)",
        "view identities through into_view() are stated on self-consistent blocks (it normalises the header roots; judged under C16)",
        "vector lengths 0..2 (byte strings 0..3); integers 0, 1, max and a pattern",
        "the view -> as_advanced_builder() -> setter -> build() path is stated for headers inside HeaderBuilder's documented domain "
        "(compact_target > 0, well-formed epoch unless number 0); the others are skipped and counted",
    ]
    molgen_check()
    cfg = "MC_C15_quick.cfg" if tier == "quick" else "MC_C15_all.cfg"
    recs = enumerate_values(c, cfg, 2400)
    types = sorted({r["ty"] for r in recs})
    if len(types) < 120:
        raise V.ToolError("only %d schema types enumerated" % len(types))
    summ = replay_values(c, recs)
    if summ["records"] != len(recs) or summ["moved_nonempty"] < 200 or summ["json_checked"] < 300 or summ["hash_terms"] < 2000 or summ["older"] < 100 \
            or summ["builder_paths"] < 300:
        raise V.ToolError("vacuous replay: %s" % summ)
    for r in recs:
        c.case([r["ty"], r["k"]], r["k"] == 1 or r["path"] != [])
    c.set("values_replayed", summ)
    c.set("schema_types", len(types))
    c.add("traces_validated_against_impl", summ["records"])
    for r in [x for x in recs if x["ty"] == "CellInput"][:2] + [x for x in recs if x["ty"] == "Transaction" and x["tabulated"]][:1]:
        c.sample({"ty": r["ty"], "k": r["k"], "path": r["path"], "v": r["v"], "enc_len": len(r["enc"]), "moved": r["moved"]})
    # exhaustive small buffers: canonicity of strict decoding
    sb = small_buffers(c, tier)
    c.set("small_buffers", sb)
    c.add("traces_validated_against_impl", sb["buffers"])
    c.set("exhaustive", False)
    c.set("explanation",
          "Encode/decode fidelity is not a state machine, so this is not model checking of the implementation: the molecule "
          "encoding rules, the CKB schema (generated from the .mol files) and the hash definitions are an independent TLA+ "
          "oracle; TLC enumerates a designed finite family of values per schema type (%d types, %d values: each node of a "
          "non-default base value through its small domain, at every depth for the hash-carrying types) and checks the model "
          "laws on them; every value is then replayed on the real builders, decoders (entity and reader API, strict and "
          "compatible), hash functions, views and JSON-RPC conversions (%d hash terms evaluated with the real blake2b, %d "
          "mutation pairs compared with the commitment table, %d JSON round trips, %d views rebuilt from the base view through "
          "the advanced builders' setters with every cached hash recomputed). Separately TLC exhausts all %d byte "
          "strings of a small buffer model against %d small real types (WF(b) => Enc(Dec(b)) = b) and each buffer is fed "
          "to the real strict decoder (same verdict; accepted buffers rebuilt field by field give the same bytes). Huge "
          "vectors and the JSON text format beyond what serde_json round-trips are not covered."
          % (len(types), len(recs), summ["hash_terms"], summ["moved_pairs"], summ["json_checked"], summ["builder_paths"], sb["buffers"],
             sb["types"]))
    return c.finish()


def replay(path, tier):
    c = V.Check(PID, LEVEL, tier)
    p = json.load(open(path))["payload"]
    if p["kind"] == "value":
        replay_values(c, p["records"], tag="replay")
    elif p["kind"] == "buffer":
        import c16
        c16.replay_buffers(c, [p["record"]], strict_only=True)
    else:
        res = V.tlc(PID, "MC_C15", p["cfg"], workers=WORKERS, env={"C15_OUT": V.workdir(PID, "vals", fresh=True)}, xmx="10g")
        if res["violated"]:
            c.violation("model/" + res["violated"], "model violation", p)
    return 1 if c.violations else 0
