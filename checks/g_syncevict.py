"""Growth item "SyncEvict": spec/SyncEvict.tla (the outbound-peer chain-sync eviction rule of the sync protocol:
Synchronizer::eviction over ChainSyncState {timeout, work_header, total_difficulty, sent_getheaders} and PeerFlags
{is_outbound, is_protect, is_whitelist}; protection of the first outbound peers at connect) and its binding to the REAL code
(harness g_syncevict: real node + real SyncShared / Synchronizer, recording network context, peers through the protocol
handler, best-known headers raised by real SendHeaders messages, time through faketime, out of IBD).

Attached to checks/c17.py; evidence under coverage["growth_syncevict"]; violations are reported under C17 with keys
growth-syncevict/...
"""
import collections
import json
import os
import re

import vcheck as V

PID = "C17"
STATE_INVS = ["TypeOK", "IdleClean", "InboundUntouched", "ProtectBound", "WorkNotAboveTip", "TimerMatchesGhost", "OneGetHeadersPerTimer",
              "NoOverdue"]
STEP_PROPS = ["NeverEvictCaughtUp", "OnlyOutboundUnprotected", "GraceRespected", "GetHeadersRight", "PromptGetHeaders", "PromptEviction",
              "CatchUpResets", "BestKnownMonotone", "RecordStable"]
# mutant verdict functions of MC_SyncEvict (Mut) and a property each must violate when that property is checked alone
MUTANTS = [("noreset", "GraceRespected"), ("evictprot", "OnlyOutboundUnprotected"), ("nogh", "GraceRespected"),
           ("noclear", "NeverEvictCaughtUp"), ("inbound", "InboundUntouched"), ("early", "GraceRespected")]
VAC = [("VacNoEviction", "eviction"), ("VacNoSuspend", "suspend of a protected peer"), ("VacNoSpare", "protected peer spared"),
       ("VacNoRearm", "timer re-armed by catching up with the recorded work"), ("VacNoClear", "timer cleared by catching up with the tip"),
       ("VacNoGetHeaders", "getheaders")]


def _wd(fresh=False):
    return V.workdir(PID, "growth_syncevict", fresh=fresh)


def _harness(args, timeout=900):
    rc, out = V.ckbv("g_syncevict", ["drive"] + [str(a) for a in args], timeout=timeout)
    if rc != 0:
        V.log(out[-2000:])
        raise V.ToolError("g_syncevict drive failed rc=%d" % rc)
    return [e for e in (json.loads(x) for x in out.splitlines() if x.startswith("{")) if "ev" in e]


def _write(path, evs):
    with open(path, "w") as f:
        for e in evs:
            f.write(json.dumps(e) + "\n")


def _split(evs):
    hs, cur = [], []
    for e in evs:
        if e["ev"] == "Reset" and cur:
            hs.append(cur)
            cur = []
        cur.append(e)
    if cur:
        hs.append(cur)
    return hs


def _variant_cfg(base, name, keep_props, extra_lines=()):
    """a copy of spec/<base> in the work directory with only the named INVARIANT / PROPERTY lines (+ extra lines)"""
    src = open(os.path.join(V.ROOT, "spec", base)).read().splitlines()
    out = []
    for ln in src:
        if ln.startswith(("INVARIANT", "PROPERTY")):
            if ln.split()[1] in keep_props:
                out.append(ln)
        else:
            out.append(ln)
    out.extend(extra_lines)
    path = os.path.join(_wd(), name)
    with open(path, "w") as f:
        f.write("\n".join(out) + "\n")
    return path


def situations(evs):
    """what happened in the real histories, judged from the logged states alone (pre = state after the previous event)"""
    c = collections.Counter()
    for h in _split(evs):
        cst, ehrt = h[0]["cst"], h[0]["ehrt"]
        pre = {}
        for e in h:
            post = {r["p"]: r for r in e["st"]["peers"]}
            now = e["st"]["now"]
            if e["ev"] == "Evict":
                c["rounds"] += 1
                for p in e["evicted"]:
                    r = pre[p]
                    if r["started"]:
                        c["disconnected_while_started"] += 1
                    else:
                        c["evictions"] += 1
                c["getheaders"] += len(e["gh"])
                c["getheaders_suppressed_as_duplicates"] += len(e["gh_suppressed"])
                c["getheaders_of_the_controller"] += len(e["gh_other"])
                for p, r in pre.items():
                    q = post.get(p)
                    if q is None:
                        continue
                    overdue = r["out"] and r["sent"] and r["timeout"] != 0 and now > r["timeout"] and max(r["bk"], 0) < r["workTD"]
                    if overdue and (r["prot"] or r["wl"]):
                        c["suspends" if (r["started"] and not q["started"]) else "protected_spared"] += 1
                    if r["timeout"] != 0 and q["timeout"] == 0:
                        c["timers_cleared_by_catching_up"] += 1
                    if r["timeout"] != 0 and q["timeout"] == now + cst and q["workTD"] != r["workTD"]:
                        c["timers_rearmed_by_catching_up"] += 1
                    if r["timeout"] == 0 and q["timeout"] != 0:
                        c["timers_started"] += 1
                    if not r["out"] and max(r["bk"], 0) < e["st"]["tipTD"]:
                        c["inbound_behind_skipped"] += 1
                    if r["timeout"] != 0 and now == r["timeout"]:
                        c["rounds_exactly_at_a_deadline"] += 1
            pre = post
    return c


def _by_rule(e):
    """an eviction round that disconnected a peer by the chain-sync rule (not a STARTED peer the controller gave up on)"""
    return e["ev"] == "Evict" and bool(set(e["evicted"]) - set(e["pre_started"]))


def _corruptions(evs):
    """single-field corruptions of a recorded history (self-test of the binding): (name, index of the event, function)"""
    import copy

    def first(pred):
        return next((i for i, e in enumerate(evs) if i > 0 and e["ev"] == "Evict" and evs[i - 1]["ev"] != "Reset" and pred(i, e)), None)

    def pre(i):
        return {r["p"]: r for r in evs[i - 1]["st"]["peers"]}

    def due(r, now):
        return r["out"] and (r["prot"] or r["wl"]) and r["sent"] and r["timeout"] and now > r["timeout"] and max(r["bk"], 0) < r["workTD"] \
            and not r["started"]

    cst = evs[0]["cst"]
    res = []
    i1 = first(lambda i, e: _by_rule(e) and not e["pre_started"])

    def m1(t):      # an eviction that did not happen: the peer stays
        p = t[i1]["evicted"][0]
        t[i1]["evicted"] = t[i1]["evicted"][1:]
        t[i1]["st"]["peers"] = sorted(t[i1]["st"]["peers"] + [pre(i1)[p]], key=lambda r: r["p"])
    res.append(("eviction-skipped", i1, m1))
    i2 = first(lambda i, e: any(r["timeout"] == e["st"]["now"] + cst for r in e["st"]["peers"]))

    def m2(t):      # the deadline of a freshly armed timer is off by one millisecond
        next(r for r in t[i2]["st"]["peers"] if r["timeout"] == t[i2]["st"]["now"] + cst)["timeout"] += 1
    res.append(("deadline+1ms", i2, m2))
    i3 = first(lambda i, e: e["gh"])

    def m3(t):      # a getheaders of the rule was not sent
        t[i3]["gh"] = t[i3]["gh"][1:]
    res.append(("getheaders-missing", i3, m3))
    i4 = first(lambda i, e: any(due(r, e["st"]["now"]) and any(q["p"] == r["p"] for q in e["st"]["peers"]) for r in pre(i).values()))

    def m4(t):      # a protected / whitelisted peer is disconnected at its second deadline
        r = next(r for r in pre(i4).values() if due(r, t[i4]["st"]["now"]) and any(q["p"] == r["p"] for q in t[i4]["st"]["peers"]))
        t[i4]["evicted"] = sorted(t[i4]["evicted"] + [r["p"]])
        t[i4]["st"]["peers"] = [q for q in t[i4]["st"]["peers"] if q["p"] != r["p"]]
        if r["prot"]:
            t[i4]["st"]["n_protected"] -= 1
    res.append(("protected-evicted", i4, m4))
    i5 = first(lambda i, e: any(r["timeout"] != 0 and any(q["p"] == r["p"] and q["timeout"] == 0 for q in e["st"]["peers"]) for r in pre(i).values()))

    def m5(t):      # the timer of a peer that caught up with the tip keeps running
        for r in pre(i5).values():
            for q in t[i5]["st"]["peers"]:
                if q["p"] == r["p"] and r["timeout"] != 0 and q["timeout"] == 0:
                    q.update({k: r[k] for k in ("timeout", "workTD", "workId", "sent")})
                    return
    res.append(("clear-skipped", i5, m5))
    i6 = first(lambda i, e: any(not r["out"] for r in e["st"]["peers"]))

    def m6(t):      # an inbound peer gets a timer
        r = next(r for r in t[i6]["st"]["peers"] if not r["out"])
        r.update({"timeout": t[i6]["st"]["now"] + cst, "workTD": t[i6]["st"]["tipTD"], "workId": t[i6]["st"]["tipId"]})
    res.append(("inbound-timed", i6, m6))
    out = []
    for name, idx, f in res:
        if idx is not None:
            t = copy.deepcopy(evs[: idx + 1])
            f(t)
            out.append((name, idx, t))
    return out


def bite(hist, limit):
    """the binding must reject a real history with ONE corrupted field, exactly at the corrupted event"""
    done = []
    for name, idx, t in _corruptions(hist)[:limit]:
        part = os.path.join(_wd(), "corrupt_%s.ndjson" % name)
        _write(part, t)
        ok, res = V.validate_trace(PID, "Trace_SyncEvict", "Trace_SyncEvict.cfg", part, tag="se_corrupt_" + name, timeout=300)
        m = re.search(r'"TRACE-REJECTED",\s*(\d+)', res["out"])
        if ok or not m or int(m.group(1)) != idx + 1:
            raise V.ToolError("the trace binding does not bite: corruption '%s' of event %d was %s" % (
                name, idx + 1, "accepted" if ok else "not rejected at that event"))
        done.append(name)
    return done


def _signature(ev):
    s = ev["ev"]
    if ev["ev"] == "Evict":
        if ev.get("evicted"):
            s += "/evicting"
        elif ev.get("gh") or ev.get("gh_suppressed"):
            s += "/getheaders"
    return s


def validate(c, evs, tag, meta):
    """one TLC run over all histories; on a rejection the history is reported and the following ones validated on their own"""
    hs = _split(evs)
    pos, good, bad, n = 0, 0, 0, 0
    while pos < len(hs):
        flat = [e for h in hs[pos:] for e in h]
        part = os.path.join(_wd(), "%s_%d.ndjson" % (tag, n))
        _write(part, flat)
        ok, res = V.validate_trace(PID, "Trace_SyncEvict", "Trace_SyncEvict.cfg", part, tag="se_%s_%d" % (tag, n), timeout=600)
        n += 1
        if ok:
            good += len(flat)
            break
        m = re.search(r'<<\s*"TRACE-REJECTED",\s*(\d+),', res["out"])
        if m:
            at = int(m.group(1))
        elif res["violated"]:
            stn = re.findall(r"^State (\d+):", res["out"], re.M)
            at = (int(stn[-1]) - 1) if stn else len(flat)
        else:
            V.log(res["out"][-3000:])
            raise V.ToolError("trace validation of %s ended without a verdict" % part)
        at = max(1, min(at, len(flat)))
        k, acc = pos, 0
        while acc + len(hs[k]) < at:
            acc += len(hs[k])
            k += 1
        frag = hs[k][: at - acc]
        ev = frag[-1]
        c.violation("growth-syncevict/%s/%s" % (_signature(ev), res["violated"] or "not-a-behaviour"),
                    "real Synchronizer::eviction history is not a behaviour of SyncEvict.tla at event %d (%s)%s" % (
                        at - acc, ev["ev"], (": violates " + res["violated"]) if res["violated"] else ""),
                    dict(meta, kind="growth-syncevict", history=frag[0].get("history"), events=frag[-12:], n_events=len(frag),
                         violated=res["violated"], tlc_tail=res["out"][-1500:]))
        bad += 1
        good += at - 1
        pos = k + 1
        if n > 8:
            break
    return good, bad


def _mutant(mut, aimed, quick):
    """self-test: a mutant rule must violate a property (thorough: also the one property it is aimed at, checked alone)"""
    res = V.tlc(PID, "MC_SyncEvict", "MC_SyncEvict_mut_%s.cfg" % mut, workers=2, timeout=600, coverage=False, tag="se_mut_" + mut)
    if not res["violated"]:
        raise V.ToolError("MC_SyncEvict_mut_%s: the mutant rule violates nothing -- the properties do not bite" % mut)
    hit = [res["violated"]]
    if not quick:
        p = _variant_cfg("MC_SyncEvict_mut_%s.cfg" % mut, "mut_%s_%s.cfg" % (mut, aimed), [aimed])
        r2 = V.tlc(PID, "MC_SyncEvict", p, workers=2, timeout=600, coverage=False, tag="se_mut2_" + mut)
        if r2["violated"] != aimed:
            raise V.ToolError("MC_SyncEvict mutant %s: expected %s to be violated, got %s" % (mut, aimed, r2["violated"]))
        hit.append(aimed)
    return ("mut", mut, hit)


def _vacuity(inv, what, base):
    """vacuity guard: the situation is reachable in the model (the guard invariant must be violated)"""
    p = _variant_cfg(base, "vac_%s.cfg" % inv, [], ["INVARIANT %s" % inv])
    r = V.tlc(PID, "MC_SyncEvict", p, workers=2, timeout=600, coverage=False, tag="se_vac_" + inv)
    if r["violated"] != inv:
        raise V.ToolError("vacuous SyncEvict model: %s is not reachable (%s)" % (what, r["violated"]))
    return ("vac", inv, what)


def _jobs(seed, nh, per):
    return [(seed * 13 + 5, first, min(per, nh - first)) for first in range(0, nh, per)]


def run(c, tier):
    import concurrent.futures as cf
    quick = tier == "quick"
    g = {"tier": tier, "tlc": []}
    V.build_harness("g_syncevict")
    _wd(fresh=True)
    nh, steps, per = (6, 150, 3) if quick else (48, 220, 6)
    # the harness processes run beside the model checker (they mostly wait for their nodes)
    with cf.ThreadPoolExecutor(max_workers=4) as ex:
        futs = [ex.submit(_harness, ["--seed", j[0], "--first", j[1], "--histories", j[2], "--steps", steps]) for j in _jobs(V.seed(), nh, per)]
        # self-tests beside the main runs: mutant rules must violate a property, the interesting situations must be reachable
        # (quick: two mutants against the full property list, three guards; thorough: all of them)
        sex = cf.ThreadPoolExecutor(max_workers=2)
        sfuts = [sex.submit(_mutant, m, a, quick) for m, a in (MUTANTS[:2] if quick else MUTANTS)]
        sfuts += [sex.submit(_vacuity, inv, what, "MC_SyncEvict_two.cfg") for inv, what in (VAC[:3] if quick else VAC)]
        # ---- 1. exhaustive: the rule over small universes --------------------------------------------------------------
        cfgs = ["two_q"] if quick else ["two", "three"]
        for x in cfgs:
            res = V.tlc(PID, "MC_SyncEvict", "MC_SyncEvict_%s.cfg" % x, workers=4, timeout=900, xmx="5g", tag="MC_SyncEvict_" + x)
            if res["violated"]:
                c.violation("growth-syncevict/model/%s" % res["violated"], "SyncEvict.tla violates %s in MC_SyncEvict_%s.cfg" % (res["violated"], x),
                            {"kind": "model", "module": "MC_SyncEvict", "cfg": "MC_SyncEvict_%s.cfg" % x, "tlc_tail": res["out"][-3000:]})
            V.require_coverage(res, ["MConnect", "MDisconnect", "MTick", "MTip", "MAnnounce", "MEvict"] + (["MStart"] if x != "three" else []),
                               "MC_SyncEvict_" + x)
            c.add_tlc(res, "growth:MC_SyncEvict_" + x)
            g["tlc"].append({"cfg": x, "distinct": res["distinct"], "generated": res["generated"], "wall_s": res["wall_s"]})
        outs = [f.result() for f in futs]
        small = [f.result() for f in sfuts]
        sex.shutdown()
    g["mutant_rules_violate"] = {m: v for kind, m, v in small if kind == "mut"}
    g["vacuity_guards_reached"] = [v for kind, m, v in small if kind == "vac"]
    # ---- 2. T: random histories on the real Synchronizer ------------------------------------------------------------------
    evs = [e for o in outs for e in o]
    sit = situations(evs)
    # validation first: a history the specification rejects is reported even when (or because) the code under test no
    # longer produces one of the situations the vacuity guards below ask for
    good, bad = validate(c, evs, "drive", {"source": "drive", "seed": V.seed(), "tier": tier})
    if bad:
        g.update({"histories": len(_split(evs)), "events_validated": good, "histories_rejected": bad, "situations": sit})
        c.set("growth_syncevict", g)
        return
    for what in ("evictions", "getheaders", "timers_cleared_by_catching_up", "timers_rearmed_by_catching_up", "inbound_behind_skipped"):
        if sit.get(what, 0) == 0:
            raise V.ToolError("syncevict histories are vacuous: no %s" % what)
    if sit.get("suspends", 0) + sit.get("protected_spared", 0) == 0:
        raise V.ToolError("syncevict histories are vacuous: no protected / whitelisted peer reached the second deadline")
    if not quick and sit.get("suspends", 0) == 0:
        raise V.ToolError("syncevict histories are vacuous: no suspend of a protected peer")
    # self-test of the binding: single-field corruptions of the richest real history must be rejected where they were made
    rich = max(_split(evs), key=lambda h: len(_corruptions(h)))
    g["corruptions_rejected"] = bite(rich, 2 if quick else 6)
    if not quick and len(g["corruptions_rejected"]) < 5:
        raise V.ToolError("syncevict: only %d corruption sites in the richest history" % len(g["corruptions_rejected"]))
    for i, h in enumerate(_split(evs)):
        c.case({"g_syncevict_history": i, "seed": V.seed(), "events": len(h)}, any(_by_rule(e) for e in h))
    smp = next((e for e in evs if _by_rule(e)), None)
    if smp:
        c.sample({"growth_syncevict_event": {k: v for k, v in smp.items() if k != "st"}, "peers_after": len(smp["st"]["peers"])})
    cnt = collections.Counter(e["ev"] for e in evs)
    g.update({"histories": len(_split(evs)), "events_validated": good, "histories_rejected": bad, "event_counts": dict(cnt), "situations": dict(sit)})
    c.add("traces_validated_against_impl", len(_split(evs)))
    c.set("growth_syncevict", g)


def replay(c, p):
    V.build_harness("g_syncevict")
    _wd(fresh=True)
    if p["kind"] == "model":
        res = V.tlc(PID, "MC_SyncEvict", p["cfg"], workers=4, timeout=900)
        if res["violated"]:
            c.violation("growth-syncevict/model/%s" % res["violated"], "SyncEvict.tla violates %s" % res["violated"], p)
        return 1 if c.violations else 0
    # a recorded history: re-execute its source (same seed -> same operations on the current tree), validate again
    seed = p.get("seed", V.seed())
    nh, steps, per = (6, 150, 3) if p.get("tier") == "quick" else (48, 220, 6)
    evs = []
    for j in _jobs(seed, nh, per):
        if p.get("history") is None or j[1] <= p["history"] < j[1] + j[2]:
            evs += _harness(["--seed", j[0], "--first", j[1], "--histories", j[2], "--steps", steps])
    validate(c, evs, "replay", {"source": "drive", "seed": seed, "tier": p.get("tier")})
    return 1 if c.violations else 0
