"""C16 — bytes from peers can be rejected but never crash the node or forge a block.

(a) decode verdicts.  Oracle: spec/Molecule.tla (+ generated CkbSchema.tla).
    a1. MC_MolBuf: TLC exhausts every byte string of a small buffer model against 27 small real schema types; the real
        from_slice / from_compatible_slice verdicts are compared per string and type, every accepted string is walked
        through every generated getter under catch_unwind.
    a2. MC_C16Mut: for every protocol message type and Block / Transaction / CompactBlock a valid encoding and ALL
        single-word corruptions of every header / offset / count / union-id word to a boundary set, truncations and
        extensions, with the specification's verdicts; accepted buffers additionally go through into_view, every hash
        function and the context-free verifiers.
    Verdict policy (what the property states): strict decoding must accept exactly the well-formed strings (C15:
    an accepted string is the canonical encoding); compatible decoding must accept every well-formed string and MAY
    accept more -- but nothing accepted may ever panic.
(b) compact-block reconstruction.  spec/CompactBlock.tla (NeverADifferentBlock, MissingPrecise; exhaustive for n <= 4),
    every case replayed on the real Relayer::reconstruct_block and the relay verifiers.
(c) arbitrary byte strings at scale / snappy: outside the technique (see manifest level_note).
"""
import json
import os
import re

import vcheck as V

PID = "C16"
LEVEL = "other"
WORKERS = int(os.environ.get("VERIF_TLC_WORKERS", "8"))     # <= 8; the builders ran with 4 on the shared machine


def small_types():
    s = open(os.path.join(V.SPEC, "MC_MolBuf.tla")).read()
    m = re.search(r"SmallTypes == <<(.*?)>>", s, re.S)
    return [x.strip().strip('"') for x in m.group(1).replace("\n", " ").split(",")]


# the bare types only: through the messages (SendBlock, SyncMessage, RelayMessage) the handlers' guards must stop it
EXT_TYPES = ("Block", "CompactBlock")


def finding_key(m):
    """signature of a decode finding: kind / type, or the specific call site + input shape of a recorded defect"""
    kind, ty, detail = m["kind"], m["ty"], m.get("detail", "")
    if kind.startswith("panic/getters-compatible") and ty in ("InIBD", "SyncMessage") and m.get("code", 0) < 2 \
            and ("subtract with overflow" in detail or "out of range for slice" in detail):
        # a table WITHOUT fields is accepted in compatible mode whatever follows its size word; field_count() then
        # computes (first offset / 4) - 1 on garbage
        return "panic/InIBD.field_count/compat-accepted-malformed-empty-table"
    if kind == "panic/deep-compatible" and ty in EXT_TYPES and str(m.get("mut", "")).startswith("extra-field:") \
            and "BytesReader" in detail and "unwrap" in detail:
        # Block / CompactBlock decoded compatibly with ONE extra field that is not a well-formed `Bytes`:
        # extension() does BytesReader::from_slice(..).unwrap()
        return "panic/extension-unwrap/compat-accepted-extra-field-not-bytes"
    return "%s/%s" % (kind, ty)


buffer_key = finding_key


def replay_buffers(c, recs, strict_only=False, tag="replay_buffers"):
    """recs: [{"buf": [...], "ty": type, "code": verdict code}] (one type per call)"""
    path = os.path.join(V.workdir(c.pid), tag + ".csv")
    with open(path, "w") as f:
        for r in recs:
            f.write("<<%s>>;<<%d>>\n" % (", ".join(map(str, r["buf"])), r["code"]))
    return run_buffers(c, path, strict_only, types=[recs[0]["ty"]])


def run_buffers(c, path, strict_only, types=None):
    types = types or small_types()
    args = ["buffers", "--in", path, "--types", ",".join(types)] + (["--strict-only"] if strict_only else [])
    rc, out = V.ckbv("c16", args, timeout=1500)
    lines = V.parse_ndjson(out)
    summ = [x["summary"] for x in lines if "summary" in x]
    if rc != 0 or not summ:
        V.log(out[-3000:])
        raise V.ToolError("c16 buffers failed rc=%d" % rc)
    for x in lines:
        if "mismatch" in x:
            m = x["mismatch"]
            c.violation(buffer_key(m), "%s on %s: %s" % (m["ty"], m["buf"], m["detail"][:400]),
                        {"kind": "buffer", "record": {"buf": m["buf"], "ty": m["ty"], "code": m["code"]}, "detail": m})
    return summ[0]


def small_buffers(c, tier, strict_only=False):
    cfg = "MC_MolBuf_quick.cfg" if tier == "quick" else "MC_MolBuf_thorough.cfg"
    out = os.path.join(V.workdir(c.pid), "molbuf.csv")
    if os.path.exists(out):
        os.remove(out)
    res = V.tlc(c.pid, "MC_MolBuf", cfg, workers=WORKERS, timeout=2400, xmx="10g", env={"MOLBUF_OUT": out})
    if res["violated"]:
        c.violation("model/" + res["violated"], "Molecule.tla violates its own law %s (%s)" % (res["violated"], cfg),
                    {"kind": "model", "cfg": cfg, "tlc_tail": res["out"][-3000:]})
        return {"buffers": 0, "types": 0}
    V.require_coverage(res, ["AddWord", "AddByte"], cfg)
    c.add_tlc(res, cfg)
    n = sum(1 for _ in open(out))
    if n != res["distinct"]:
        raise V.ToolError("MC_MolBuf: %d distinct states but %d lines written" % (res["distinct"], n))
    summ = run_buffers(c, out, strict_only)
    if summ["buffers"] != n:
        raise V.ToolError("c16 buffers read %d of %d lines" % (summ["buffers"], n))
    acc = summ["accepted_strict"]
    poor = [t for t, k in acc.items() if k == 0]
    if len(poor) > 6 or sum(acc.values()) < 500:
        raise V.ToolError("vacuous buffer model: no accepted string for %s" % poor)
    summ["types"] = len(acc)
    summ["exhaustive_cfg"] = cfg
    for i, line in enumerate(open(out)):
        if i % max(1, n // 2000) == 0:
            c.case(["buf", line.strip()], ";<<0, 0," not in line)
    c.evals += n - min(n, 2000)
    return summ


# ------------------------------------------------------------------------------------------------ (a2) mutations
mutation_key = finding_key


def enumerate_mutations(c, cfg, timeout):
    import glob
    import shutil
    outdir = V.workdir(PID, "muts", fresh=True)
    res = V.tlc(PID, "MC_C16Mut", cfg, workers=WORKERS, timeout=timeout, xmx="10g", env={"C16_OUT": outdir})
    if res["violated"]:
        c.violation("model/" + res["violated"], "the mutation model violates %s (%s)" % (res["violated"], cfg),
                    {"kind": "model", "module": "MC_C16Mut", "cfg": cfg, "tlc_tail": res["out"][-3000:]})
    V.require_coverage(res, ["Load", "Pick", "Step"], cfg)
    c.add_tlc(res, cfg)
    recs = []
    files = sorted(glob.glob(os.path.join(outdir, "*.json")))
    if len(files) != res["coverage"]["Step"][1] and not res["violated"]:
        raise V.ToolError("MC_C16Mut took %d Step transitions but wrote %d files" % (res["coverage"]["Step"][1], len(files)))
    for f in files:
        j = json.load(open(f))
        ty, enc = j["ty"], j["enc"]
        base = "%s#%d" % (ty, j["k"])
        recs.append({"id": base + "/valid", "ty": ty, "mut": "valid", "buf": enc, "code": 3})
        for n, w in enumerate(j["words"]):
            buf = list(enc)
            buf[w["p"]:w["p"] + 4] = w["w"]
            recs.append({"id": "%s/w%d" % (base, n), "ty": ty, "mut": "word@%d(%s):=%s" % (w["p"], w["role"], w["w"]), "buf": buf,
                         "code": w["code"]})
        for n, r in enumerate(j["resized"]):
            recs.append({"id": "%s/r%d" % (base, n), "ty": ty, "mut": r["how"], "buf": r["buf"], "code": r["code"]})
        # valid encodings of the one-node variants of the base value (empty / one-item vectors, absent options, extreme
        # numbers ...): well-formed by construction (Molecule!Enc), unusual for accessors and context-free verifiers
        for n, b in enumerate(j.get("variants", [])):
            recs.append({"id": "%s/v%d" % (base, n), "ty": ty, "mut": "valid-variant", "buf": b, "code": 3})
    shutil.rmtree(outdir, ignore_errors=True)
    # the same buffer can arise from several values of a type: judge it once
    seen, out = set(), []
    for r in recs:
        key = (r["ty"], bytes(r["buf"]))
        if key not in seen:
            seen.add(key)
            out.append(r)
    return out, res


def replay_mutations(c, recs, tag="mutations"):
    path = os.path.join(V.workdir(PID), tag + ".ndjson")
    with open(path, "w") as f:
        for r in recs:
            f.write(json.dumps(r) + "\n")
    rc, out = V.ckbv("c16", ["mutations", "--in", path], timeout=1500)
    lines = V.parse_ndjson(out)
    summ = [x["summary"] for x in lines if "summary" in x]
    if rc != 0 or not summ:
        V.log(out[-3000:])
        raise V.ToolError("c16 mutations failed rc=%d" % rc)
    index = {r["id"]: r for r in recs}
    for x in lines:
        if "mismatch" in x:
            m = x["mismatch"]
            rec = index[m["id"]]
            m["code"] = rec["code"]
            m["mut"] = rec["mut"]
            c.violation(mutation_key(m), "%s %s: %s" % (m["ty"], rec["mut"], m["detail"][:400]),
                        {"kind": "mutation", "record": rec, "detail": m})
    return summ[0]


# ------------------------------------------------------------------------------------------------ (b) reconstruction
def recon_key(m):
    return "%s/%s" % (m["kind"], m["sig"])


def replay_recon(c, cases, tag="recon"):
    path = os.path.join(V.workdir(PID), tag + ".ndjson")
    with open(path, "w") as f:
        for r in cases:
            f.write(json.dumps(r) + "\n")
    rc, out = V.ckbv("c16", ["reconstruct", "--in", path, "--seed", V.seed()], timeout=1500)
    lines = V.parse_ndjson(out)
    summ = [x["summary"] for x in lines if "summary" in x]
    if rc != 0 or not summ:
        V.log(out[-3000:])
        raise V.ToolError("c16 reconstruct failed rc=%d" % rc)
    index = {r["id"]: r for r in cases}
    for x in lines:
        if "mismatch" in x:
            m = x["mismatch"]
            c.violation(recon_key(m), "case %s: %s" % (m["id"], m["detail"][:500]),
                        {"kind": "recon", "record": index[m["id"]], "detail": m})
    return summ[0], lines


# ------------------------------------------------------------------------------------------------ (c1) the frame layer
def run_frames(c):
    """Frame.tla: flag byte, snappy preamble, declared-size bound; every enumerated case on the real compress::decompress and on
    the decoder of LengthDelimitedCodecWithCompress; sender side round trips."""
    res = V.tlc(PID, "MC_Frame", "MC_Frame.cfg", workers=1, timeout=300, coverage=False)
    if res["violated"]:
        c.violation("model/frame/" + res["violated"], "Frame.tla violates %s" % res["violated"],
                    {"kind": "model", "module": "MC_Frame", "cfg": "MC_Frame.cfg", "tlc_tail": res["out"][-2000:]})
        return {}
    c.add_tlc(res, "MC_Frame.cfg")
    r2 = V.tlc(PID, "MC_Frame", "MC_Frame_vac.cfg", workers=1, timeout=300, coverage=False)
    if r2["violated"] != "NoOkAtBound":
        raise V.ToolError("vacuous frame model: no frame at exactly the declared-size bound is accepted")
    docs = V.tlc_json_lines(res["out"], "FRAMES")
    if len(docs) != 1:
        raise V.ToolError("MC_Frame did not export its cases")
    path = os.path.join(V.workdir(PID), "frames.json")
    json.dump(docs[0], open(path, "w"))
    rc, out = V.ckbv("g_frame", ["cases", "--in", path], timeout=900)
    lines = V.parse_ndjson(out)
    summ = [x["summary"] for x in lines if "summary" in x]
    if rc != 0 or not summ or summ[0]["cases"] != len(docs[0]["snappy"]) + len(docs[0]["raw"]):
        V.log(out[-3000:])
        raise V.ToolError("g_frame cases failed rc=%d" % rc)
    tally = {}
    for x in lines:
        if "case" in x:
            k = x["case"]
            for who in ("decompress", "codec"):
                want = k["verdict"]
                if who == "codec" and x["frame_len"] < 2:
                    want = "err"                      # the codec refuses a frame without a body
                got = x[who]["class"]
                tally["%s:%s" % (who, want)] = tally.get("%s:%s" % (who, want), 0) + 1
                c.case(["frame", who, k["flag"], k["kind"], k["n"], k["tamper"]], k["tamper"] != "none" or k["flag"] not in (0, 128))
                if got != want:
                    c.violation("frame/%s/%s-instead-of-%s/%s" % (who, got, want, k["tamper"] if k["kind"] == "snappy" else "raw"),
                                "frame flag=%d %s n=%d tamper=%s (declared %s): Frame.tla says %s, %s gives %s" % (
                                    k["flag"], k["kind"], k["n"], k["tamper"], k["declared"], want, who, x[who]),
                                {"kind": "frame", "case": k, "observed": x})
        elif "sender" in x:
            s = x["sender"]
            for who in ("compress", "codec"):
                if who == "codec" and s["len"] == 0:
                    continue          # the codec has no frame for an empty message (no protocol message is empty)
                o = x[who]
                tally["sender:" + who] = tally.get("sender:" + who, 0) + 1
                if "flag" not in o or not o["round_trip"] or o["flag"] not in (0, 128) or \
                        (who == "compress" and o["flag"] != s["flag"]) or (who == "codec" and s["len"] <= 1024 and o["flag"] != 0):
                    c.violation("frame/sender/%s" % who, "message of %d bytes: %s gives %s (Frame.tla: flag %d, and the receiver gets the "
                                "message back)" % (s["len"], who, o, s["flag"]), {"kind": "frame", "sender": s, "observed": x})
    need = ["decompress:ok", "decompress:err", "decompress:raw", "codec:ok", "codec:err", "codec:raw", "sender:compress"]
    if any(tally.get(k, 0) == 0 for k in need):
        raise V.ToolError("vacuous frame replay: %s" % tally)
    c.add("traces_validated_against_impl", summ[0]["cases"])
    return {"cases": summ[0]["cases"], "tally": tally}


def run(tier):
    c = V.Check(PID, LEVEL, tier)
    c.rule = ("cases = (a1) every byte string of the exhaustive small-buffer model x 27 small real types, (a2) every valid "
              "message encoding and each of its single-word corruptions / truncations / extensions, (b) every compact-block "
              "reconstruction case of CompactBlock.tla; non-trivial = a corrupted buffer, or a buffer some type accepts, or a "
              "reconstruction case with a tampered / incomplete message")
    c.assumptions = [
        "the strict decoder must accept exactly the well-formed strings; the compatible decoder must accept every well-formed "
        "string and may accept more (the property only demands that nothing accepted panics)",
        "words >= 2^24 are treated alike (larger than any buffer of the model)",
        "short-id collisions are realised as a short id that names another pooled transaction; local sources = tx-pool",
        "snappy's element coding is abstract in Frame.tla (flag byte, preamble, declared-size bound and the sender's threshold are specified; bodies are real snappy streams with a replaced preamble); arbitrary byte strings at scale are outside the technique",
    ]
    import c15
    c15.molgen_check()
    # (a1)
    sb = small_buffers(c, tier)
    c.set("small_buffers", sb)
    c.add("traces_validated_against_impl", sb["buffers"])
    # (a2)
    recs, res = enumerate_mutations(c, "MC_C16Mut_quick.cfg" if tier == "quick" else "MC_C16Mut_all.cfg", 2400)
    if len(recs) < 3000:
        raise V.ToolError("too few mutations enumerated: %d" % len(recs))
    ms = replay_mutations(c, recs)
    if ms["buffers"] != len(recs) or ms["accepted_strict"] < 100 or ms["accepted_compatible"] <= ms["accepted_strict"]:
        raise V.ToolError("vacuous mutation replay: %s" % ms)
    for r in recs:
        c.case(["mut", r["ty"], r["buf"]], r["mut"] != "valid")
    nvar = sum(1 for r in recs if r["mut"] == "valid-variant")
    if nvar < 300:
        raise V.ToolError("vacuous: only %d valid variants of the structural types were enumerated" % nvar)
    ms["valid_variants"] = nvar
    c.set("mutations", ms)
    c.set("mutated_types", len({r["ty"] for r in recs}))
    c.add("traces_validated_against_impl", ms["buffers"])
    for r in [x for x in recs if x["ty"] == "Ping"][:3]:
        c.sample({"ty": r["ty"], "mut": r["mut"], "buf": r["buf"], "code": r["code"]})
    # (c1)
    c.set("frames", run_frames(c))
    # (b)
    import c16b
    rb = c16b.run_part(c, tier)
    c.set("reconstruction", rb)
    c.set("exhaustive", False)
    c.set("explanation",
          "Only two of the three clauses are addressable by a specification. (a) Decode verdicts: spec/Molecule.tla is the "
          "oracle; TLC exhausts a small buffer model (%d strings x %d small real types, every verdict compared, every accepted "
          "string walked through all getters) and enumerates %d directed corruptions (every header/offset/count/id word of a "
          "valid encoding of %d message types to a boundary set, truncations, extensions); accepted buffers run through "
          "into_view, hashes and the context-free verifiers under catch_unwind. (b) Compact-block reconstruction: "
          "CompactBlock.tla is model-checked exhaustively for n <= 4 (%d states) and all %d terminal cases are replayed on the "
          "real Relayer::reconstruct_block and relay verifiers. (c) Arbitrary byte strings at scale, snappy decompression "
          "bounds and accessor robustness on large random inputs are fuzzing territory and NOT covered."
          % (sb["buffers"], sb["types"], ms["buffers"], len({r["ty"] for r in recs}), rb.get("states", 0), rb.get("cases", 0)))
    return c.finish()


def replay(path, tier):
    c = V.Check(PID, LEVEL, tier)
    p = json.load(open(path))["payload"]
    if p["kind"] == "buffer":
        replay_buffers(c, [p["record"]])
    elif p["kind"] == "mutation":
        replay_mutations(c, [p["record"]], tag="replay_mut")
    elif p["kind"] == "recon":
        replay_recon(c, [p["record"]], tag="replay_recon")
    else:
        res = V.tlc(PID, p.get("module", "MC_MolBuf"), p["cfg"], workers=WORKERS, xmx="8g",
                    env={"MOLBUF_OUT": os.path.join(V.workdir(PID), "replay.csv"), "C16_OUT": V.workdir(PID, "muts", fresh=True)})
        if res["violated"]:
            c.violation("model/" + res["violated"], "model violation", p)
    return 1 if c.violations else 0
