"""Growth item "LightClient" (DESIGN.md 3.7 (5)): spec/LightClient.tla (the light-client protocol server on top of MMR.tla:
GetBlocksProof / GetTransactionsProof / GetLastStateProof with difficulty sampling) and its binding to the REAL protocol
components (harness g_lightclient: `LightClientProtocol::received` with a recording network context on a fixture node,
every reply verified the way a light client verifies it).

Attached to checks/c19.py (run_growth_lightclient); evidence under coverage["growth_lightclient"]; violations are reported
under C19 with keys growth-lightclient/...
"""
import concurrent.futures as cf
import json
import os
import random
import re

import vcheck as V
import c18 as L

PID = "C19"
PROOF_INV = ["BlocksOK", "TxsOK", "DetachedNotProved", "NoPanic"]


def _wd(sub):
    return V.workdir(PID, os.path.join("growth_lightclient", sub))


def trace_cfg(path):
    with open(path, "w") as f:
        f.write("SPECIFICATION TSpec\nCONSTANTS\n MaxBlocks = 99\n Works = {1, 3}\n WrongSize = FALSE\n GenesisDiff <- TrGD\n"
                " DiffUnit <- TrDU\n AsCoded = FALSE\nPOSTCONDITION Accepted\nCHECK_DEADLOCK FALSE\n")


def signature(ev, numbers):
    """the specific shape of a rejected request / reply pair"""
    r = ev["r"]
    kind = ev["ev"]
    last = ev.get("last", -1)
    shape = "last=genesis" if last == 0 else ("last=unknown-or-side" if numbers.get(last) is None or not numbers[last][1] else "last=main")
    if kind == "LastState" and last in numbers and ev.get("startNum", 0) > numbers[last][0]:
        shape += ",start-above-last"
    if r["kind"] == "proof":
        if not r.get("verified", False):
            what = "proof-does-not-verify" + ("/" + r["notes"][0].split(":")[0] if r.get("notes") else "")
        elif r.get("siblingRejected") == "no":
            what = "proof-verifies-for-a-sibling-header"
        else:
            what = "wrong-items-or-missing-set"
        return "growth-lightclient/%s/%s/%s" % (kind, what, shape)
    return "growth-lightclient/%s/reply=%s/%s" % (kind, r["kind"], shape)


def run_chain(c, txs, genesis, hists, procs, tag, nrand, stats):
    wd = V.workdir(PID, os.path.join("growth_lightclient", "run_" + tag), fresh=True)
    nchunks = max(procs, (len(hists) + 11) // 12)
    chunks = [hists[i::nchunks] for i in range(nchunks) if hists[i::nchunks]]
    jobs = []
    for ci, chunk in enumerate(chunks):
        f = os.path.join(wd, "in%d.json" % ci)
        with open(f, "w") as fh:
            json.dump({"scripts": L.SCRIPTS, "txs": txs, "genesis_txs": genesis, "hists": chunk, "seed": V.seed() * 100 + ci,
                       "random_requests": nrand}, fh)
        jobs.append((f, os.path.join(wd, "trace%d.ndjson" % ci), ci))

    def run(j):
        f, out, ci = j
        rc, o = V.ckbv("g_lightclient", ["chain", "--in", f, "--out", out], timeout=3000)
        lines = V.parse_ndjson(o)
        summ = [x["summary"] for x in lines if "summary" in x]
        if rc != 0 or not summ:
            V.log(o[-3000:])
            raise V.ToolError("g_lightclient chain failed rc=%d on %s" % (rc, f))
        terr = [x["tool_error"] for x in lines if "tool_error" in x]
        if terr:
            raise V.ToolError("g_lightclient chain: %s" % terr[:3])
        cfg = os.path.join(wd, "trace%d.cfg" % ci)
        trace_cfg(cfg)
        ok, res = V.validate_trace(PID, "Trace_LightClient", cfg, out, tag="glc_%s_%d" % (tag, ci), timeout=1500)
        return j, summ[0], ok, res

    V.build_harness("g_lightclient")
    by_id = {h["id"]: h for h in hists}
    with cf.ThreadPoolExecutor(max_workers=procs) as ex:
        for (f, out, ci), summ, ok, res in ex.map(run, jobs):
            for k, v in summ.items():
                if isinstance(v, int):
                    stats[k] = stats.get(k, 0) + v
            events = [json.loads(x) for x in open(out)]
            rejected = [int(m) for m in re.findall(r'<<\s*"REPLY-REJECTED",\s*(\d+),', res["out"])]
            if not ok and not rejected:
                m = re.search(r'<<\s*"TRACE-REJECTED",\s*(\d+),', res["out"])
                if not m:
                    V.log(res["out"][-3000:])
                    raise V.ToolError("trace validation of %s ended without a verdict" % out)
                rejected = [int(m.group(1))]
            stats["events_validated"] = stats.get("events_validated", 0) + len(events)
            for li in rejected:
                ev = events[li - 1]
                # the history it belongs to, up to and including the event
                start = max(i for i in range(li) if events[i]["ev"] == "Reset")
                hist_id = events[start]["hist"]
                numbers, last_main = {0: (0, True)}, [0]
                for e in events[start:li]:
                    if e["ev"] == "Mine":
                        numbers[e["b"]] = (numbers[e["parent"]][0] + 1, False)
                        last_main = e["main"]
                numbers = {b: (n, b in last_main) for b, (n, _) in numbers.items()}
                if "r" not in ev:
                    key = "growth-lightclient/chain/%s" % ev["ev"]
                else:
                    key = signature(ev, numbers)
                c.violation(key, "history %s: %s request %s answered %s" % (hist_id, ev["ev"], {k: ev[k] for k in ev if k not in ("r", "ev")},
                                                                               json.dumps(ev.get("r"))[:300]),
                            {"kind": "growth_lightclient", "txs": txs, "genesis": genesis, "hist": by_id[hist_id], "nrand": nrand, "event": ev,
                             "tlc_tail": res["out"][-800:]})


def phase_mc(c, tier, g):
    quick = tier == "quick"
    jobs = [("MC_LightClient_p4.cfg", PROOF_INV), ("MC_LightClient_s5.cfg", ["SamplingOK", "NoPanic"])] if quick else \
           [("MC_LightClient_p5.cfg", PROOF_INV), ("MC_LightClient_p5s.cfg", PROOF_INV), ("MC_LightClient_s6.cfg", ["SamplingOK", "NoPanic"])]
    with cf.ThreadPoolExecutor(max_workers=3) as ex:
        # no per-action coverage statistics (they cost 5x here): the state counts and the reachability probes are the vacuity guards
        ress = list(ex.map(lambda j: V.tlc(PID, "MC_LightClient", j[0], workers=3 if quick else 4, timeout=1700, xmx="5g", coverage=False), jobs))
    g["mc"] = []
    for (cfg, _), res in zip(jobs, ress):
        if res["violated"]:
            c.violation("growth-lightclient/model/" + res["violated"], "MC_LightClient violates %s in %s" % (res["violated"], cfg),
                        {"kind": "growth_lightclient_model", "cfg": cfg, "tlc_tail": res["out"][-3000:]})
        if res["distinct"] < (60 if "_s" in cfg else 1500):
            raise V.ToolError("vacuous model run (%s): %d states" % (cfg, res["distinct"]))
        c.add_tlc(res, "growth:" + cfg)
        g["mc"].append({"cfg": cfg, "distinct": res["distinct"], "generated": res["generated"], "wall_s": res["wall_s"]})
    # self-tests: the arithmetic as found (before 30398f8) must violate NoPanic; reachability probes must be violated
    for cfg, inv in [("MC_LightClient_coded_p.cfg", "NoPanic"), ("MC_LightClient_coded_s.cfg", "NoPanic"),
                     ("MC_LightClient_vacp.cfg", "VacNoProofAfterReorg"), ("MC_LightClient_vacs.cfg", "VacNoSample")]:
        r = V.tlc(PID, "MC_LightClient", cfg, workers=2, timeout=600, coverage=False)
        if r["violated"] != inv:
            raise V.ToolError("growth-lightclient self-test failed: %s -> %s (expected %s)" % (cfg, r["violated"], inv))
    g["selftest_arithmetic_as_found_rejected_by"] = "NoPanic"
    g["reachability_probes_violated"] = ["VacNoProofAfterReorg", "VacNoSample"]


def make_hists(tier, rng):
    import c19 as C19
    quick = tier == "quick"
    txs, gen = L.random_universe(rng, 4, 14)
    led = L.PyLedger(txs, gen)
    hsim = C19.tlc_hists("MCH_MMR.cfg", "num=%d" % (12 if quick else 60), 8, "glc_sim", workers=2)

    def decorate(h):
        bodies, parent = {0: list(gen)}, {0: 0}
        out = []
        for s in h:
            chain, x = [], s["parent"]
            while True:
                chain.append(bodies[x])
                if x == 0:
                    break
                x = parent[x]
            chain.reverse()
            body = led.body(rng, chain, 3) if s["honest"] else []
            bodies[s["b"]], parent[s["b"]] = body, s["parent"]
            out.append(dict(s, txs=body))
        return out

    def reorgs(h):
        n, prev = 0, [0]
        for s in h:
            if s["main"] != prev and s["main"][:-1] != prev:
                n += 1
            prev = s["main"]
        return n
    rng.shuffle(hsim)
    picks = [h for h in hsim if reorgs(h) >= 1][: (4 if quick else 40)]
    hists, hid = [], 0
    for h in picks:
        hid += 1
        hists.append({"id": hid, "steps": decorate(h), "src": "tlc"})
    for _ in range(2 if quick else 24):
        hid += 1
        hists.append({"id": hid, "steps": C19.random_history(rng, led, rng.randrange(7, 12), 0.08), "src": "random"})
    return txs, gen, hists, sum(reorgs(h["steps"]) for h in hists)


def run_growth_lightclient(c, tier):
    g = {}
    rng = random.Random(V.seed() + 77)
    with cf.ThreadPoolExecutor(max_workers=1) as bg:
        fut = bg.submit(phase_mc, c, tier, g)
        txs, gen, hists, nreorg = make_hists(tier, rng)
        stats = {}
        run_chain(c, txs, gen, hists, 2 if tier == "quick" else 4, "chain", 2 if tier == "quick" else 3, stats)
        fut.result()
    stats["histories_with_reorgs_expected"] = nreorg
    g["real_protocol_server"] = stats
    need = {"reorgs": 1, "proof_replies": 50, "proved_items": 50, "missing_items": 20, "tip_replies": 10, "sibling_rejections": 5,
            "last_state_replies_with_samples": 1, "last_state_replies_with_reorg_part": 1, "detached_items_asked": 5}
    miss = [k for k, v in need.items() if stats.get(k, 0) < v]
    if miss or stats.get("proof_replies", 0) != stats.get("proofs_verified_as_a_client_does", 0) and not c.violations:
        raise V.ToolError("vacuous / inconsistent growth-lightclient run: %s (%s)" % (miss, stats))
    c.add("traces_validated_against_impl", len(hists))
    c.sample({"growth_lightclient_history": hists[0]["steps"][:4]})
    c.set("growth_lightclient", g)


def replay(c, p, tier):
    if p["kind"] == "growth_lightclient_model":
        res = V.tlc(PID, "MC_LightClient", p["cfg"], workers=4)
        if res["violated"]:
            c.violation("growth-lightclient/model/" + res["violated"], "model violation", p)
        return
    stats = {}
    run_chain(c, p["txs"], p["genesis"], [p["hist"]], 1, "replay", p.get("nrand", 3), stats)
