"""C01 — tip is the head of the heaviest fully valid chain, for any delivery order.

1. TLC checks ChainCore.tla exhaustively: every tree of <= 3 (quick) / 4 (thorough) blocks with per-block work and
   verdict (ok / non-contextually bad / contextually bad), every delivery order (incl. orphans; thorough: one duplicate or
   genesis delivery for 3-block trees of unit work),
   every interleaving of the ChainService / preload / verify threads: TipHeaviestValid, NeverLeaveTipForNotHeavier,
   OrphansConnected, OnlyValidAttached, Accounted, NoGhostExt. Self-test: the model of the code before the fixes
   9663883 / cc270cd (PreFix = TRUE) must violate NoGhostExt and NoPreloadPanic.
2. R: every quiescent state TLC reaches is exported with its (tree, order); sampled scenarios are concretised as real
   blocks, delivered to a real node in the model's order as one burst, and the real quiescent state must be one of
   the states the model allows for exactly that scenario (equal-work ties and release order stay nondeterministic).
   T: random scenarios of 3-8 blocks run with the H2 hooks recording; the event trace (Deliver / Receive / Insert /
   Broker / Release / Preload / Verify / VerifyDone) is validated by Trace_ChainCore.tla, every invariant after every event.
3. Random larger trees (8-30 blocks, real difficulty adjustment, invalid blocks anywhere, duplicates, bursts) judged by
   the declarative heaviest-valid-chain definition computed from the blocks' own difficulties.
4. Regression scenario of the defect fixed by 9663883 (duplicate of a failing block + equal-work sibling, restart, child).
"""
import concurrent.futures as cf
import json
import os
import random
import shutil
import tempfile

import vcheck as V

PID = "C01"
ACTIONS = ["Mint", "Seal", "Deliver", "Receive", "Insert", "Broker", "ReleaseLeader", "Preload", "Verify", "VerifyDone"]
FIELDS = ["tip", "td", "stored", "main", "ext", "invalid", "orphans", "replies", "lost", "greplies"]


def scen_key(q):
    n = q["n"]
    return json.dumps([n, q["parent"][:n], q["work"][:n], q["ok"][:n], q["order"]])


def proj(q):
    n = q["n"]
    return {"tip": q["tip"], "td": q["td"], "stored": q["stored"], "main": q["main"], "ext": q["ext"][:n],
            "invalid": q["invalid"], "orphans": q["orphans"], "replies": [list(r) for r in q["replies"][:n]],
            "lost": sum(q["lost"][:n]), "greplies": q["greplies"]}


def outcome_sets(out):
    g = {}
    for q in V.tlc_json_lines(out, "Q"):
        g.setdefault(scen_key(q), [])
        p = proj(q)
        if p not in g[scen_key(q)]:
            g[scen_key(q)].append(p)
    return g


def interesting(key):
    n, par, work, ok, order = json.loads(key)
    first = {}
    for i, b in enumerate(order):
        first.setdefault(b, i)
    orphan = any(b != 0 and par[b - 1] != 0 and (par[b - 1] not in first or first[par[b - 1]] > first[b]) for b in first)
    fork = len(set(par)) < len(par)
    bad = any(v != "ok" for v in ok)
    dup = len(order) != len(set(order))
    return orphan, fork, bad, dup


def directed_class(key):
    """Named cases of the directed family 'one heavy block (work W) against a chain of light blocks'."""
    n, par, work, ok, order = json.loads(key)
    if not work or work[0] < 3:
        return None
    w, chain = work[0], list(range(2, n + 1))
    if len(chain) < w + 1 or 1 not in order or any(b not in order for b in chain):
        return "no-attempt"
    last_chain = max(order.index(b) for b in chain)
    if order.index(1) > last_chain:
        return "no-attempt"                      # the heavy block arrives when the chain is already complete
    bad = [b - 1 for b in chain if ok[b - 1] != "ok"]          # heights of the invalid blocks (block k is at height k-1)
    if not bad:
        return "overtake_height_gap_ge2"         # the chain overtakes when it is w >= 3 blocks taller than the tip
    return "attempt_invalid_at_tip_height" if min(bad) <= 1 else "attempt_invalid_above_tip_height"


def run_replay(c, groups, keys, jobs, tag):
    """Replay the scenarios `keys` on real nodes (jobs processes) and judge them by the model's outcome sets."""
    wd = V.workdir(PID)
    chunks = [keys[i::jobs] for i in range(jobs)]
    files = []
    for j, ch in enumerate(chunks):
        f = os.path.join(wd, "scen_%s_%d.ndjson" % (tag, j))
        with open(f, "w") as fh:
            for i, k in enumerate(ch):
                n, par, work, ok, order = json.loads(k)
                fh.write(json.dumps({"id": i, "n": n, "parent": par, "work": work, "ok": ok, "order": order}) + "\n")
        files.append(f)
    res = []
    with cf.ThreadPoolExecutor(max_workers=jobs) as ex:
        futs = [ex.submit(V.ckbv, "c01", ["replay", "--in", f], 1500) for f in files]
        for ch, fu in zip(chunks, futs):
            rc, out = fu.result()
            lines = V.parse_ndjson(out)
            te = [x for x in lines if "tool_error" in x]
            if te:
                raise V.ToolError("c01 replay: %s" % te[0]["tool_error"])
            obs = [x for x in lines if "scenario" in x]
            if rc != 0 or len(obs) != len(ch):
                V.log(out[-2000:])
                raise V.ToolError("c01 replay failed rc=%d (%d of %d scenarios)" % (rc, len(obs), len(ch)))
            res += [(ch[o["scenario"]], o) for o in obs]
    n = 0
    for k, o in res:
        n += 1
        allowed = groups[k]
        orph, fork, bad, dup = interesting(k)
        c.case(k, orph or fork or bad or dup)
        payload = {"kind": "scenario", "scenario": json.loads(k), "observed": o, "allowed": allowed}
        if not o["quiet"]:
            c.violation("no-quiescence", "the node did not come to rest after scenario %s" % k, payload)
            continue
        if o["gother"] or not o["td_exact"]:
            c.violation("genesis-verdict", "unexpected verdict for a re-delivered genesis / inexact difficulty in %s" % k, payload)
            continue
        real = {"tip": o["tip"], "td": o["td"], "stored": o["stored"], "main": o["main"], "ext": o["ext"],
                "invalid": o["invalid"], "orphans": o["orphans"], "replies": o["replies"], "lost": o["dropped"],
                "greplies": o["greplies"]}
        if real in allowed:
            continue
        if real["td"] not in [a["td"] for a in allowed]:
            c.violation("tip-not-heaviest-valid", "scenario %s: total difficulty %s (tip %s), the model allows %s" % (
                k, real["td"], real["tip"], sorted({a["td"] for a in allowed})), payload)
        else:
            best = max(allowed, key=lambda a: sum(1 for f in FIELDS if a[f] == real[f]))
            diff = [f for f in FIELDS if best[f] != real[f]]
            c.violation("state/" + diff[0], "scenario %s: %s = %s, the model says %s" % (k, diff[0], real[diff[0]], best[diff[0]]),
                        payload)
    return n


# ---------------------------------------------------------------------------------------------------------
def judge_random(c, o):
    """Declarative judgement of one random scenario from the blocks' own difficulties."""
    bl = {b["id"]: b for b in o["blocks"]}
    order = o["order"]
    received = set(order)
    gd = int(o["genesis_difficulty"], 16)
    td, valid = {0: gd}, {0: True}
    for i in sorted(bl):           # ids are parent-first
        b = bl[i]
        td[i] = td[b["parent"]] + int(b["difficulty"], 16)
        valid[i] = valid[b["parent"]] and b["ok"] == "ok" and i in received
    best = max(td[i] for i in valid if valid[i])
    payload = {"kind": "random", "seed": o["seed"], "index": o["random"], "directed": bool(o.get("shape")), "observed": o}
    key = None
    tip = o["tip"]
    if not o["quiet"]:
        key, text = "random/no-quiescence", "the node did not come to rest"
    elif tip is None or not valid.get(tip, False):
        key, text = "random/tip-not-valid", "tip %s is not the head of a fully valid chain of received blocks" % tip
    elif int(o["td"], 16) != best or td[tip] != best:
        key, text = "random/tip-not-heaviest-valid", "total difficulty %s (tip %s), heaviest valid chain has %x" % (o["td"], tip, best)
    else:
        chain, x = set(), tip
        while x != 0:
            chain.add(x)
            x = bl[x]["parent"]
        lost = 0
        for i, b in bl.items():
            cnt = order.count(i)
            acc = sum(b["replies"]) + (1 if b["orphan"] else 0)
            if b["main"] != (i in chain) or (b["main"] and (b["ext"] != "ok" or not b["stored"])):
                key, text = "random/main-chain", "block %d: main=%s ext=%s, tip chain %s" % (i, b["main"], b["ext"], sorted(chain))
            elif acc > cnt:
                key, text = "random/accounting", "block %d delivered %d times but %d answers/orphan entries" % (i, cnt, acc)
            elif b["orphan"] and bl.get(b["parent"], {"ext": "ok"})["ext"] != "none":
                key, text = "random/orphan-not-connected", "block %d waits in the orphan pool although its parent %d is stored" % (i, b["parent"])
            elif valid[i] and (b["replies"][2] > 0 or not b["stored"] or b["ext"] == "none" or b["invalid"]):
                key, text = "random/valid-block-refused", "block %d heads a fully valid received chain but: %s" % (i, b)
            elif b["ok"] == "bad_nc" and (b["replies"][0] + b["replies"][1] > 0 or b["stored"]):
                key, text = "random/invalid-block-accepted", "non-contextually invalid block %d: %s" % (i, b)
            lost += cnt - acc
        if key is None and lost != o["dropped"]:
            key, text = "random/accounting", "%d deliveries unanswered, %d callbacks dropped" % (lost, o["dropped"])
    if key:
        c.violation(key, "random tree seed %s #%s: %s" % (o["seed"], o["random"], text), payload)
    # coverage facts
    longest = max(len_chain(bl, i) for i in bl)
    tipc = len_chain(bl, tip) if tip else 0
    st = {}
    sh = o.get("shape")
    if sh:
        # directed family: heavy side = blocks d+1 .. d+1+e (tip height d+1+e), light chain of l blocks from height d+1
        top_heavy, lights = sh["heavy"] + sh["e"], list(range(sh["first_light"], sh["first_light"] + sh["l"]))
        attempt = sh["l"] > sh["w"] + sh["e"] and order.index(top_heavy) < max(order.index(b) for b in lights)
        if not attempt:
            st["directed_no_attempt"] = 1
        elif sh["bad_at"] is None:
            st["overtake_height_gap_ge2"] = 1
        else:
            h, th = sh["d"] + sh["bad_at"], sh["d"] + 1 + sh["e"]
            st["attempt_invalid_below_tip_height" if h < th else
               "attempt_invalid_at_tip_height" if h == th else "attempt_invalid_above_tip_height"] = 1
    return dict(st, **{"blocks": len(bl), "invalid": sum(1 for b in bl.values() if b["ok"] != "ok"),
            "heavier_not_longest": 1 if tipc < longest else 0,
            "orphans_left": sum(1 for b in bl.values() if b["orphan"]),
            "delivered_before_parent": sum(1 for i in received if bl[i]["parent"] != 0 and (
                bl[i]["parent"] not in received or order.index(bl[i]["parent"]) > order.index(i))),
            "epochs": len({b["epoch"] for b in bl.values()}), "dups": len(order) - len(received)})


def len_chain(bl, i):
    n = 0
    while i:
        n += 1
        i = bl[i]["parent"]
    return n


def run_random(c, seeds, count, directed=False):
    tot = {}
    extra = ["--directed"] if directed else []
    with cf.ThreadPoolExecutor(max_workers=len(seeds)) as ex:
        futs = [ex.submit(V.ckbv, "c01", ["random", "--seed", s, "--count", count] + extra, 1500) for s in seeds]
        for fu in futs:
            rc, out = fu.result()
            lines = V.parse_ndjson(out)
            te = [x for x in lines if "tool_error" in x]
            obs = [x for x in lines if "random" in x]
            if te or rc != 0 or len(obs) != count:
                V.log(out[-2000:])
                raise V.ToolError("c01 random failed rc=%d %s" % (rc, te[:1]))
            for o in obs:
                st = judge_random(c, o)
                c.case({"random": [o["seed"], o["random"], directed]}, True)
                for k, v in st.items():
                    tot[k] = tot.get(k, 0) + v
                tot["scenarios"] = tot.get("scenarios", 0) + 1
    return tot


def run_ghost(c):
    """Regression: duplicate of a failing block racing with an equal-work sibling; restart; child of the deleted block."""
    base = os.path.join(V.HARNESS, "target", "tmp")
    os.makedirs(base, exist_ok=True)
    d = tempfile.mkdtemp(prefix="c01-ghost-", dir=base)
    try:
        os.makedirs(os.path.join(d, "node"))
        outs = []
        for ph in (1, 2):
            rc, out = V.ckbv("c01", ["ghost", "--dir", os.path.join(d, "node"), "--phase", ph], 300)
            outs.append(out)
        lines = V.parse_ndjson("\n".join(outs))
        g = [x for x in lines if "ghost" in x]
        if len(g) != 2:
            V.log("\n".join(outs)[-2000:])
            raise V.ToolError("c01 ghost produced no verdict")
        p1, p2 = g[0]["ghost"], g[1]["ghost"]
        if p1["second_copy_verdict_ok"] or p1["ext_of_deleted_block"] or not p2["import_alive"]:
            c.violation("duplicate-of-failing-block/ghost-ext",
                        "a second in-flight copy of a failed block was accepted / left an ext behind / block import died after restart",
                        {"kind": "ghost", "phase1": p1, "phase2": p2})
        return {"phase1": p1, "phase2": p2}
    finally:
        shutil.rmtree(d, ignore_errors=True)


# ---------------------------------------------------------------------------------------------------------
# T binding: traces of the H2 hooks validated by Trace_ChainCore.tla
TRACE_INVS = ["TypeOK", "TipHeaviestValid", "OrphansConnected", "OnlyValidAttached", "Accounted", "NoGhostExt"]


def gen_scenarios(rnd, count, nmin, nmax):
    out = []
    for i in range(count):
        n = rnd.randint(nmin, nmax)
        par = [0 if b == 1 else (b - 1 if rnd.random() < 0.55 else rnd.randint(max(0, b - 5), b - 1)) for b in range(1, n + 1)]
        work = [rnd.choice([1, 1, 2]) for _ in range(n)]
        ok = [rnd.choice(["ok"] * 6 + ["bad_ctx", "bad_nc"]) for _ in range(n)]
        order = [b for b in range(1, n + 1) if rnd.random() < 0.92]
        rnd.shuffle(order)
        for _ in range(rnd.randint(0, 3)):
            order.insert(rnd.randint(0, len(order)), rnd.choice(order + [0]) if order else 0)
        out.append({"id": i, "n": n, "parent": par, "work": work, "ok": ok, "order": order})
    return out


def write_trace_cfg(path, nmax):
    with open(path, "w") as f:
        f.write("SPECIFICATION TSpec\nCONSTANTS\n N = %d\n MaxWork = 2\n MaxDup = 100000\n Heavy = 0\n PreFix = FALSE\n"
                ' Verdicts = {"ok", "bad_nc", "bad_ctx"}\n' % nmax)
        for inv in TRACE_INVS:
            f.write("INVARIANT %s\n" % inv)
        f.write("PROPERTY TNeverLeave\nPOSTCONDITION Accepted\nCHECK_DEADLOCK FALSE\n")


def validate(c, trace, nmax, tag, report=True):
    cfg = os.path.join(V.workdir(PID), "Trace_ChainCore_%s.cfg" % tag)
    write_trace_cfg(cfg, nmax)
    ok, res = V.validate_trace(PID, "Trace_ChainCore", cfg, trace, tag="trace_" + tag, timeout=900)
    if not ok and report:
        import re
        m = re.search(r'<<\s*"TRACE-REJECTED",\s*(\d+),', res["out"])
        evs = [json.loads(x) for x in open(trace)]
        at = int(m.group(1)) if m else len(evs)
        start = max([i for i in range(min(at, len(evs))) if evs[i]["ev"] == "Reset"] or [0])
        end = next((i for i in range(at, len(evs)) if evs[i]["ev"] == "Reset"), len(evs))
        frag = evs[start:end]
        kind = evs[at - 1]["ev"] if 0 < at <= len(evs) else "?"
        c.violation("trace/%s/%s" % (kind, res["violated"] or "not-a-behaviour"),
                    "recorded history of the import pipeline is not a behaviour of ChainCore.tla at event %d (%s)" % (at - start, kind),
                    {"kind": "trace", "nmax": nmax, "events": frag, "rejected_at": at - start, "tlc_tail": res["out"][-1500:]})
    return ok, res


def run_traces(c, rnd, count, nmin, nmax):
    wd = V.workdir(PID)
    scen = gen_scenarios(rnd, count, nmin, nmax)
    f = os.path.join(wd, "trace_scen.ndjson")
    with open(f, "w") as fh:
        for s in scen:
            fh.write(json.dumps(s) + "\n")
    trace = os.path.join(wd, "trace.ndjson")
    rc, out = V.ckbv("c01", ["trace", "--in", f, "--out", trace, "--nmax", nmax], 1200)
    summ = [x["summary"] for x in V.parse_ndjson(out) if "summary" in x]
    if rc != 0 or not summ:
        V.log(out[-2000:])
        raise V.ToolError("c01 trace failed rc=%d" % rc)
    ok, res = validate(c, trace, nmax, "t")
    evs = [json.loads(x) for x in open(trace)]
    kinds = {}
    for e in evs:
        k = e["ev"] + (":" + e.get("kind", e.get("dec", e.get("res", ""))) if e["ev"] in ("Release", "Broker", "Verify", "Receive") else "")
        kinds[k] = kinds.get(k, 0) + 1
    need = ["Broker:orphan", "Broker:pending", "Broker:invalid", "Release:accept", "Release:invalid", "Verify:new", "Verify:err",
            "Verify:dup", "Receive:bad_nc"]
    if ok and any(kinds.get(k, 0) == 0 for k in need):
        raise V.ToolError("vacuous trace: %s" % kinds)
    # the validation must bite: a corrupted copy of the trace has to be rejected
    if ok:
        bad = os.path.join(wd, "trace_corrupt.ndjson")
        idx = [i for i, e in enumerate(evs) if e["ev"] == "Broker" and e["dec"] == "orphan"]
        evs2 = [dict(e) for e in evs]
        evs2[idx[len(idx) // 2]]["dec"] = "pending"
        with open(bad, "w") as fh:
            for e in evs2:
                fh.write(json.dumps(e) + "\n")
        ok2, _ = validate(c, bad, nmax, "corrupt", report=False)
        drop = [i for i, e in enumerate(evs) if e["ev"] == "Preload"]
        evs3 = [e for i, e in enumerate(evs) if i != drop[len(drop) // 2]]
        with open(bad, "w") as fh:
            for e in evs3:
                fh.write(json.dumps(e) + "\n")
        ok3, _ = validate(c, bad, nmax, "corrupt", report=False)
        if ok2 or ok3:
            raise V.ToolError("trace validation accepted a corrupted trace (altered decision: %s, dropped event: %s)" % (ok2, ok3))
    for s in scen:
        c.case({"trace_scenario": s}, True)
    return {"scenarios": summ[0]["scenarios"], "events": summ[0]["events"], "accepted": ok, "event_kinds": kinds,
            "corrupted_traces_rejected": 2 if ok else 0}


# ---------------------------------------------------------------------------------------------------------
def model_check(c, cfg, workers=6, timeout=1500, expect_violation=None):
    res = V.tlc(PID, "MC_ChainCore", cfg, workers=workers, timeout=timeout, xmx="10g")
    if expect_violation:
        if res["violated"] != expect_violation:
            raise V.ToolError("oracle self-test failed: %s should violate %s, got %s" % (cfg, expect_violation, res["violated"]))
        return res
    if res["violated"]:
        c.violation("model/" + res["violated"], "ChainCore.tla violates %s in %s" % (res["violated"], cfg),
                    {"kind": "model", "cfg": cfg, "tlc_tail": res["out"][-4000:]})
    else:
        V.require_coverage(res, ACTIONS, cfg)
    c.add_tlc(res, cfg)
    return res


def run_growth_liveness_expiry(c, tier):
    """Spec growth beyond the listed properties (DESIGN.md 3.7): progress of block import under fairness (FairSpec in
    ChainCore.tla) and orphan-pool expiry (ChainCoreX.tla) bound to a real node (checks/g_chaincore.py, harness g_expiry).
    Numbers land in coverage["growth_liveness_expiry"]."""
    import g_chaincore
    return g_chaincore.run(c, tier)


def run(tier):
    c = V.Check(PID, "model_checking", tier)
    quick = tier == "quick"
    c.rule = ("cases = (tree, delivery order) scenarios exported by TLC and replayed on a real node (judged by the model's set "
              "of quiescent states for that scenario) + random larger trees judged by the declarative definition; "
              "non-trivial = has a fork, an invalid block, a child delivered before its parent, or a duplicate")
    c.assumptions = [
        "per-block work > 1 is realised by a compact target of w times the epoch difficulty; such scenarios are delivered with Switch::DISABLE_EPOCH (all other rules verified)",
        "contextual flaws: DAO field off by one, commitment outside the proposal window; non-contextual flaw: duplicate proposal id",
        "the node under test and the mirror node are truncated back to genesis between exported scenarios (every scenario uses fresh blocks)",
        "the orphan retention horizon (clean_expired_orphans) is exercised by the growth part (ChainCoreX.tla, g_expiry): a sample of 24 expiry scenarios in the quick tier, 140 in the thorough tier",
    ]
    rnd = random.Random(V.seed())
    pool = cf.ThreadPoolExecutor(max_workers=3)
    # 1. exhaustive model checking (+ export)
    f3 = pool.submit(model_check, c, "MC_ChainCore_3emit.cfg")
    f2 = pool.submit(model_check, c, "MC_ChainCore_2emit.cfg", 2)
    fhl = pool.submit(model_check, c, "MC_ChainCore_hl3emit.cfg", 4)
    fself = pool.submit(model_check, c, "MC_ChainCore_prefix.cfg", 2, 600, "NoGhostExt")
    fself2 = pool.submit(model_check, c, "MC_ChainCore_prefix2.cfg", 2, 600, "NoPreloadPanic")
    extra = []
    if not quick:
        extra = [pool.submit(model_check, c, "MC_ChainCore_3dup1emit.cfg", 4, 1200)]
    # beyond the exhaustive bound: simulation of 5-block trees with two duplicates (all invariants on every state)
    fsim = pool.submit(V.tlc, PID, "MC_ChainCore", "MC_ChainCore_sim5.cfg", workers=4, simulate="num=%d" % (2000 if quick else 40000),
                       depth=150, timeout=900, tag="sim5")
    # 3./4. meanwhile: random trees and the regression scenario
    V.build_harness("c01")
    seeds = [V.seed() * 100 + i for i in range(4 if quick else 8)]
    rtot = run_random(c, seeds, 5 if quick else 20)
    c.set("random_trees", rtot)
    if rtot["heavier_not_longest"] == 0 or rtot["invalid"] == 0 or rtot["delivered_before_parent"] == 0 or rtot["epochs"] < 2 * rtot["scenarios"]:
        raise V.ToolError("vacuous random trees: %s" % rtot)
    dtot = run_random(c, seeds, 10 if quick else 40, directed=True)
    c.set("random_heavy_vs_light", dtot)
    if (dtot.get("overtake_height_gap_ge2", 0) == 0 or dtot.get("attempt_invalid_above_tip_height", 0) == 0
            or dtot.get("attempt_invalid_below_tip_height", 0) + dtot.get("attempt_invalid_at_tip_height", 0) == 0):
        raise V.ToolError("vacuous directed random trees: %s" % dtot)
    c.set("regression_9663883", run_ghost(c))
    tr = run_traces(c, rnd, 60 if quick else 400, 3, 8)
    c.set("trace_validation", tr)
    fself.result()
    fself2.result()
    c.set("selftest_prefix_rejected_by", ["NoGhostExt", "NoPreloadPanic"])
    rsim = fsim.result()
    if rsim["violated"]:
        c.violation("model/" + rsim["violated"], "ChainCore.tla violates %s in the 5-block simulation" % rsim["violated"],
                    {"kind": "model", "cfg": "MC_ChainCore_sim5.cfg", "tlc_tail": rsim["out"][-4000:]})
    m = V.SIM_RE.search(rsim["out"])
    c.set("simulated_states_5_blocks", int(m.group(1)) if m else 0)
    # 2. R
    groups = {}
    for fu in [f3, f2] + extra:
        res = fu.result()
        if res["violated"]:
            continue
        g = outcome_sets(res["out"])
        if len(g) < 100:
            raise V.ToolError("too few scenarios exported: %d" % len(g))
        groups.update(g)
    if groups:
        keys = sorted(groups)
        want = 1500 if quick else 6000
        hot = [k for k in keys if sum(interesting(k)) >= 2]
        rnd.shuffle(hot)
        rest = [k for k in keys if k not in set(hot[:want * 3 // 4])]
        rnd.shuffle(rest)
        chosen = hot[:want * 3 // 4] + rest[:want - min(len(hot), want * 3 // 4)]
        n = run_replay(c, groups, chosen, 4, "r")
        c.add("traces_validated_against_impl", n + rtot["scenarios"] + dtot["scenarios"] + tr["scenarios"])
        c.set("scenarios_exported", len(keys))
        c.set("scenarios_with_several_allowed_outcomes", sum(1 for k in keys if len(groups[k]) > 1))
        st = [interesting(k) for k in chosen]
        cov = {"replayed": n, "orphan_delivery": sum(s[0] for s in st), "fork": sum(s[1] for s in st),
               "invalid_block": sum(s[2] for s in st), "duplicate": sum(s[3] for s in st)}
        c.set("replay", cov)
        if min(cov.values()) == 0:
            raise V.ToolError("vacuous replay set: %s" % cov)
        for k in chosen[:3]:
            c.sample({"scenario": json.loads(k), "allowed": groups[k]})
    # directed family: one heavy block against a light chain that overtakes only when it is >= 3 blocks taller
    res = fhl.result()
    if not res["violated"]:
        dg = outcome_sets(res["out"])
        cls = {}
        for k in dg:
            cls.setdefault(directed_class(k), []).append(k)
        names = ["overtake_height_gap_ge2", "attempt_invalid_at_tip_height", "attempt_invalid_above_tip_height"]
        if any(not cls.get(nm) for nm in names):
            raise V.ToolError("vacuous directed family: %s" % {k: len(v) for k, v in cls.items()})
        picked = []
        per = 150 if quick else 600
        for nm in names + ["no-attempt"]:
            ks = sorted(cls.get(nm, []))
            rnd.shuffle(ks)
            picked += ks[:per]
        nd = run_replay(c, dg, picked, 4, "hl")
        c.add("traces_validated_against_impl", nd)
        c.set("directed_heavy_vs_light", dict({nm: min(per, len(cls.get(nm, []))) for nm in names + ["no-attempt"]},
                                               exported=len(dg), replayed=nd))
    run_growth_liveness_expiry(c, tier)
    c.set("exhaustive", True)
    return c.finish()


def replay(path, tier):
    c = V.Check(PID, "model_checking", tier)
    r = json.load(open(path))
    p = r["payload"]
    if p["kind"] == "growth_chaincore":
        import g_chaincore
        g_chaincore.replay(c, p)
        return 1 if c.violations else 0
    if p["kind"] == "scenario":
        k = json.dumps(p["scenario"])
        run_replay(c, {k: p["allowed"]}, [k], 1, "replay")
    elif p["kind"] == "random":
        rc, out = V.ckbv("c01", ["random", "--seed", p["seed"], "--count", p["index"] + 1] + (["--directed"] if p.get("directed") else []), 900)
        for o in [x for x in V.parse_ndjson(out) if x.get("random") == p["index"]]:
            judge_random(c, o)
    elif p["kind"] == "ghost":
        run_ghost(c)
    elif p["kind"] == "trace":
        f = os.path.join(V.workdir(PID), "replay_trace.ndjson")
        open(f, "w").write("\n".join(json.dumps(e) for e in p["events"]) + "\n")
        validate(c, f, p["nmax"], "replay")
    else:
        res = V.tlc(PID, "MC_ChainCore", p["cfg"], workers=8)
        if res["violated"]:
            c.violation("model/" + res["violated"], "model violation", p)
    return 1 if c.violations else 0
