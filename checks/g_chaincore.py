"""Spec growth attached to C01: progress of block import under fairness, and expiry of the orphan pool.

1. Liveness (spec/ChainCore.tla, FairSpec = Spec + weak fairness on Receive / Insert / Broker / ReleaseLeader / Preload / Verify /
   VerifyDone, no fairness for the environment, no state constraint): EventuallyJudged (every delivered block whose ancestors
   are all delivered is eventually attached, stored with its total difficulty, or invalidated - or waits for the next block
   in the one case the code has), EventuallyQuiescent. Self-tests: the strict form must fail with exactly the known
   scenario; the pre-fix preload thread (PreFix = TRUE) must violate EventuallyQuiescent.
   `g_expiry stuck` reproduces the strict property's counterexample on a real node (known finding).
2. Orphan expiry (spec/ChainCoreX.tla = ChainCore + CleanExpired + history variable `gone`): all C01 invariants with
   "heaviest valid chain among the blocks that were not expired", RetainedWithinHorizon, GoneConsistent; liveness with expiry
   (EventuallyJudgedX, EventuallyQuiescentX, EventuallyCleaned).
   R: TLC exports every quiescent state of the model with the code's constants (EXPIRED_EPOCH = 6, epochs of 1 / 2 blocks, a
   prefix of 8 / 15 attached blocks); `g_expiry replay` delivers the scenarios to a real node whose expiry tick runs every
   30 ms (hook f5c206f) and the final state must be one the model allows for exactly that (tree, order).
"""
import collections
import concurrent.futures as cf
import json
import os
import random
import re

import vcheck as V

PID = "C01"
K_STUCK = "growth-liveness/orphan-of-non-contextually-invalid-parent-waits-for-next-block"
CORE = ["Receive", "Insert", "Broker", "ReleaseLeader", "Preload", "Verify", "VerifyDone", "Deliver"]
XCORE = ["XMint", "XDeliver", "XReceive", "XInsert", "XBroker", "XRelease", "XPreload", "XVerify", "XVerifyDone", "CleanExpired"]
TEMPORAL_RE = re.compile(r"Error: Temporal property (\w+) was violated")
TICK_MS = 30


def tlc_live(module, cfg, workers, timeout=1500, xmx="8g"):
    res = V.tlc(PID, module, cfg, workers=workers, timeout=timeout, xmx=xmx, tag="g_" + cfg.replace(".cfg", ""))
    m = TEMPORAL_RE.search(res["out"])
    if m:
        res["violated"] = m.group(1)
    elif res["rc"] == 13 and not res["violated"]:
        res["violated"] = "temporal"
    return res


def expect_pass(c, res, cfg, actions, info):
    if res["violated"]:
        c.violation("growth-model/%s/%s" % (cfg.replace(".cfg", ""), res["violated"]), "%s violates %s" % (cfg, res["violated"]),
                    {"kind": "growth_chaincore", "mode": "model", "module": res["module"], "cfg": cfg, "tlc_tail": res["out"][-6000:]})
        return False
    V.require_coverage(res, actions, cfg)
    info.append({"cfg": cfg, "distinct": res["distinct"], "generated": res["generated"], "wall_s": res["wall_s"]})
    return True


def expect_fail(res, cfg, prop, must_contain=None):
    if res["violated"] != prop:
        V.log(res["out"][-3000:])
        raise V.ToolError("oracle self-test failed: %s should violate %s, got %s" % (cfg, prop, res["violated"]))
    if must_contain and not all(x in res["out"] for x in must_contain):
        raise V.ToolError("oracle self-test: the counterexample of %s is not the expected scenario" % cfg)


def scen_key(q):
    n = q["n"]
    return json.dumps([n, q["prefix"], q["epochlen"], q["horizon"], q["parent"][:n], q["order"]])


def proj(q):
    n = q["n"]
    return {"tip": q["tip"], "stored": q["stored"], "main": q["main"], "ext": q["ext"][:n], "invalid": q["invalid"], "orphans": q["orphans"],
            "replies": [list(r) for r in q["replies"][:n]], "lost": sum(q["lost"][:n]), "gone": q["gone"], "clean": q["clean"]}


def outcome_sets(out):
    g = {}
    for q in V.tlc_json_lines(out, "X"):
        k = scen_key(q)
        g.setdefault(k, [])
        p = proj(q)
        if p not in g[k]:
            g[k].append(p)
    return g


def run_expiry_replay(c, groups, keys, jobs, stats):
    wd = V.workdir(PID, "growth")
    V.build_harness("g_expiry")
    per = (len(keys) + jobs - 1) // jobs
    parts = [keys[i * per:(i + 1) * per] for i in range(jobs) if keys[i * per:(i + 1) * per]]
    paths = []
    for j, part in enumerate(parts):
        path = os.path.join(wd, "expiry_%d.ndjson" % j)
        with open(path, "w") as f:
            for i, k in enumerate(part):
                n, pre, el, h, par, order = json.loads(k)
                f.write(json.dumps({"id": i, "n": n, "prefix": pre, "epochlen": el, "horizon": h, "parent": par, "order": order}) + "\n")
        paths.append(path)
    done = 0
    with cf.ThreadPoolExecutor(max_workers=jobs) as ex:
        futs = [ex.submit(V.ckbv, "g_expiry", ["replay", "--in", p], 1500, {"VERIF_ORPHAN_TICK_MS": str(TICK_MS)}) for p in paths]
        for part, fu in zip(parts, futs):
            rc, out = fu.result()
            lines = V.parse_ndjson(out)
            if rc != 0 or not any("summary" in x for x in lines):
                V.log(out[-2500:])
                raise V.ToolError("g_expiry replay failed rc=%d" % rc)
            for o in lines:
                if "scenario" not in o:
                    continue
                k = part[o["scenario"]]
                done += 1
                if not o["quiet"]:
                    raise V.ToolError("node did not come to rest in an expiry scenario")
                got = {"tip": o["tip"], "stored": o["stored"], "main": o["main"], "ext": o["ext"], "invalid": o["invalid"], "orphans": o["orphans"],
                       "replies": o["replies"], "lost": o["dropped"]}
                match = [a for a in groups[k] if {x: v for x, v in a.items() if x not in ("gone", "clean")} == got]
                c.case({"expiry_scenario": json.loads(k)}, True)
                if not match:
                    best = min(groups[k], key=lambda a: sum(1 for x in got if a[x] != got[x]))
                    field = [x for x in got if best[x] != got[x]][0]
                    c.violation("growth-expiry/state/" + field, "real node's final state is not one the model (ChainCoreX) allows for this tree and order: %s = %s, allowed %s"
                                % (field, got[field], [a[field] for a in groups[k]]),
                                {"kind": "growth_chaincore", "mode": "expiry", "scenario": json.loads(k), "allowed": groups[k], "observed": o})
                    continue
                if not any(a["clean"] for a in match):
                    # at least three ticks passed at rest: nothing beyond the horizon may be left in the pool
                    c.violation("growth-expiry/not-expired-after-three-ticks", "orphans beyond the retention horizon are still in the pool after three expiry ticks: %s" % o["orphans"],
                                {"kind": "growth_chaincore", "mode": "expiry", "scenario": json.loads(k), "allowed": groups[k], "observed": o})
                    continue
                stats["replayed"] += 1
                if any(a["gone"] for a in match):
                    stats["expired_on_the_real_node"] += 1
                if o["max_orphans"] > 0 and not any(a["gone"] for a in match) and not o["orphans"]:
                    stats["orphan_retained_and_connected"] += 1
                if o["orphans"]:
                    stats["orphan_left_at_the_end"] += 1
    if done != len(keys):
        raise V.ToolError("g_expiry answered %d of %d scenarios" % (done, len(keys)))


def run_stuck(c, rounds):
    rc, out = V.ckbv("g_expiry", ["stuck", "--rounds", rounds], 600)
    lines = [x for x in V.parse_ndjson(out) if "stuck" in x]
    if rc != 0 or len(lines) != rounds:
        V.log(out[-2500:])
        raise V.ToolError("g_expiry stuck failed rc=%d" % rc)
    res = collections.Counter()
    for o in lines:
        payload = {"kind": "growth_chaincore", "mode": "stuck", "observed": o}
        if not o["quiet"] or o["orphan_before"] != 1 or "BLOCK_INVALID" not in o["parent_status"] or "Err" not in o["parent_verdict"]:
            raise V.ToolError("stuck scenario not realised: %s" % o)
        if o["child_orphan_after_parent_failed"] and not o["child_answered_after_parent_failed"]:
            res["child_waits_in_the_pool"] += 1
            c.violation(K_STUCK, "the orphan child of a block that failed the non-contextual checks is neither released nor invalidated "
                        "(still in the pool, no verdict, status %s) until another block arrives" % o["child_status_after_parent_failed"], payload)
        # the next brokered block must release it (EventuallyJudged's exception is exactly that narrow)
        if o["child_orphan_after_next_block"] or "Err" not in o["child_verdict_after_next_block"] or "BLOCK_INVALID" not in o["child_status_after_next_block"] or not o["tip_is_x"]:
            c.violation("growth-liveness/orphan-of-invalid-parent-not-released-by-the-next-block",
                        "after the next block was brokered the child is still not invalidated: %s" % o, payload)
        else:
            res["released_by_the_next_block"] += 1
    return dict(res)


def run(c, tier):
    quick = tier == "quick"
    rnd = random.Random(V.seed())
    info = []
    g = {"spec": "ChainCore.tla (FairSpec), ChainCoreX.tla (orphan expiry)", "tlc_runs": info}
    pool = cf.ThreadPoolExecutor(max_workers=3)
    # 1. liveness of the pipeline
    f_live2 = pool.submit(tlc_live, "MC_ChainCore", "MC_ChainCore_live2.cfg", 2)
    f_strict = pool.submit(tlc_live, "MC_ChainCore", "MC_ChainCore_live2strict.cfg", 2)
    f_prefix = pool.submit(tlc_live, "MC_ChainCore", "MC_ChainCore_liveprefix.cfg", 1)
    later = []
    if not quick:
        later = [("MC_ChainCore", "MC_ChainCore_live3.cfg", pool.submit(tlc_live, "MC_ChainCore", "MC_ChainCore_live3.cfg", 4), CORE),
                 ("MC_ChainCoreX", "MC_ChainCoreX_8.cfg", pool.submit(tlc_live, "MC_ChainCoreX", "MC_ChainCoreX_8.cfg", 3), XCORE),
                 ("MC_ChainCoreX", "MC_ChainCoreX_live.cfg", pool.submit(tlc_live, "MC_ChainCoreX", "MC_ChainCoreX_live.cfg", 3), XCORE)]
    # orphan expiry: the export models run in both tiers (quick: r1 only, a small replayed sample)
    r_cfgs = ("MC_ChainCoreX_r1.cfg",) if quick else ("MC_ChainCoreX_r1.cfg", "MC_ChainCoreX_r2.cfg")
    f_r = [pool.submit(tlc_live, "MC_ChainCoreX", cfg, 3) for cfg in r_cfgs]
    res = f_live2.result()
    res["module"] = "MC_ChainCore"
    expect_pass(c, res, "MC_ChainCore_live2.cfg", CORE, info)
    expect_fail(f_strict.result(), "MC_ChainCore_live2strict.cfg", "EventuallyJudgedStrict", ['"bad_nc"', "Stuttering"])
    expect_fail(f_prefix.result(), "MC_ChainCore_liveprefix.cfg", "EventuallyQuiescent", ["Stuttering"])
    g["liveness_selftests_rejected"] = {"strict form (orphan of a non-contextually invalid parent)": "EventuallyJudgedStrict",
                                        "pre-fix preload thread (PreFix)": "EventuallyQuiescent"}
    g["liveness_properties"] = ["EventuallyJudged", "EventuallyQuiescent"]
    if not quick:
        # 2. the counterexample of the strict form on the real node
        g["stuck_on_real_node"] = run_stuck(c, 3)
        for module, cfg, fu, actions in later:
            res = fu.result()
            res["module"] = module
            expect_pass(c, res, cfg, actions, info)
    if True:
        groups = {}
        for cfg, fu in zip(r_cfgs, f_r):
            res = fu.result()
            res["module"] = "MC_ChainCoreX"
            if expect_pass(c, res, cfg, XCORE, info):
                gs = outcome_sets(res["out"])
                if len(gs) < 100:
                    raise V.ToolError("too few expiry scenarios exported by %s: %d" % (cfg, len(gs)))
                groups.update(gs)
        if groups:
            full = sorted(k for k in groups if len(json.loads(k)[5]) == json.loads(k)[0] - json.loads(k)[1])
            hot = [k for k in full if any(a["gone"] for a in groups[k])]
            cold = [k for k in full if not any(a["gone"] for a in groups[k])]
            rnd.shuffle(hot)
            rnd.shuffle(cold)
            chosen = hot[:16] + cold[:8] if quick else hot[:90] + cold[:50]
            stats = collections.Counter()
            run_expiry_replay(c, groups, chosen, 4, stats)
            g["expiry_replay"] = dict(stats, exported_scenarios=len(groups), complete_deliveries=len(full),
                                      scenarios_with_several_allowed_outcomes=sum(1 for k in full if len(groups[k]) > 1))
            c.add("traces_validated_against_impl", stats["replayed"])
            if not c.violations and (stats["expired_on_the_real_node"] == 0 or stats["orphan_retained_and_connected"] == 0):
                raise V.ToolError("vacuous expiry replay: %s" % dict(stats))
    g["states_liveness_and_expiry"] = sum(r["distinct"] for r in info)
    c.set("growth_liveness_expiry", g)
    return g


def replay(c, p):
    if p.get("mode") == "model":
        res = tlc_live(p["module"], p["cfg"], 4)
        if res["violated"]:
            c.violation("growth-model/%s/%s" % (p["cfg"].replace(".cfg", ""), res["violated"]), "model violation", p)
    elif p.get("mode") == "stuck":
        run_stuck(c, 3)
    else:
        k = json.dumps(p["scenario"])
        run_expiry_replay(c, {k: p["allowed"]}, [k], 1, collections.Counter())
