"""C19 — chain-root commitments, proofs and filter hashes match the chain they describe.

1. TLC exhaustively checks MMR.tla (position store overwritten from mmr_size(fork point) on every reorganisation, incl.
   reorgs to a shorter-but-heavier branch and flawed commitments; all proof position sets) and BlockFilter.tla (builder
   lagging the chain at block granularity); self-tests: the wrong re-open size and live-store reads must violate.
2. R: TLC-generated (exhaustive small + simulation) and random histories on a real node with the real BlockFilter
   service: main chain as MMR.tla expects, roots / stored positions / extensions / proofs against an in-memory MMR over
   the MODEL's main chain, proofs rejected on sibling branches, filters awaited then GCS-matched and hash-chained.
3. The snapshot / live-store interleaving of the filter builder, placed deterministically with the H8 yield point.
"""
import concurrent.futures as cf
import json
import os
import random

import vcheck as V
import c18 as L          # universe / ledger helpers shared with C18 (random_universe, PyLedger, SCRIPTS)

PID = "C19"


def tlc_hists(cfg, simulate=None, depth=None, tag=None, workers=4):
    res = V.tlc(PID, "MCH_MMR", cfg, workers=workers, simulate=simulate, depth=depth, timeout=900, coverage=False, xmx="6g", tag=tag)
    if res["violated"] or res["rc"] != 0:
        V.log(res["out"][-3000:])
        raise V.ToolError("history export failed: %s" % cfg)
    hs, seen = [], set()
    for h in V.tlc_json_lines(res["out"], "HIST"):
        k = json.dumps(h, sort_keys=True)
        if k not in seen:
            seen.add(k)
            hs.append(h)
    return hs


def spec_main(steps):
    """the main chain MMR.tla's Mine yields for a python-generated arrival sequence (same rule: a block whose chain is
    strictly heavier is adopted iff every attached block's commitment is honest; the first flawed one is refused)"""
    parent, work, honest = {0: 0}, {0: 0}, {0: True}
    bad = set()
    main = [0]
    out = []

    def chain(b):
        c = [b]
        while b != 0:
            b = parent[b]
            c.append(b)
        return c[::-1]

    def td(b):
        return sum(work[x] for x in chain(b))
    for s in steps:
        b = s["b"]
        parent[b], work[b], honest[b] = s["parent"], s["work"], s["honest"]
        ch = chain(b)
        if td(b) > td(main[-1]):
            keep = 0
            while keep < len(main) and keep < len(ch) and main[keep] == ch[keep]:
                keep += 1
            att = ch[keep:]
            failed = next((x for x in att if not honest[x]), None)
            if failed is None:
                main = ch
            else:
                bad.add(failed)
                bad.add(b)           # the arriving block is discarded with the verdict (MMR.tla: dropped)
        out.append(dict(s, main=list(main), bad=sorted(bad)))
    return out, bad


def random_history(rng, led, n_blocks, flaw_prob):
    """arrival sequence with bodies; python only chooses inputs, the expected main chain follows MMR.tla's rule"""
    steps, bodies, parent, number = [], {0: list(led.genesis)}, {0: 0}, {0: 0}
    bad = set()
    main = [0]
    for b in range(1, n_blocks + 1):
        depth = max(number.values())
        cands = [x for x in parent if x not in bad]
        r = rng.random()
        if r < 0.5:
            p = main[-1]
        elif r < 0.8:
            p = rng.choice([x for x in cands if number[x] >= depth - 2])
        else:
            p = rng.choice(cands)
        chain, c = [], p
        while True:
            chain.append(bodies[c])
            if c == 0:
                break
            c = parent[c]
        chain.reverse()
        honest = rng.random() >= flaw_prob
        body = led.pick(chain, honest) if hasattr(led, "pick") else (led.body(rng, chain, 3) if honest else [])
        work = 3 if rng.random() < 0.3 else 1
        bodies[b], parent[b], number[b] = body, p, number[p] + 1
        steps.append({"b": b, "parent": p, "work": work, "honest": honest, "txs": body})
        done, bad = spec_main(steps)
        main = done[-1]["main"]
    return spec_main(steps)[0]


def epoch_history(rng, pick_body, gen):
    """a main branch across the first epoch boundary (block 4) with uneven timestamps, a side branch forking at or after
    the last block of epoch 0 that overtakes it, then the old branch overtakes again; `main` is filled by the harness"""
    steps, bodies, parent = [], {0: list(gen)}, {0: 0}
    fast = rng.random() < 0.5

    def mine(p):
        b = len(steps) + 1
        chain, x = [], p
        while True:
            chain.append(bodies[x])
            if x == 0:
                break
            x = parent[x]
        chain.reverse()
        body = pick_body(chain, True)
        bodies[b], parent[b] = body, p
        n = len(chain)                                   # number of the new block
        gap = (rng.randrange(1000, 3000) if fast else rng.randrange(20000, 40000)) if n <= 4 else rng.randrange(4000, 16000)
        steps.append({"b": b, "parent": p, "work": 1, "honest": True, "txs": body, "main": [], "gap_ms": gap})
        return b
    tip, mainb = 0, [0]
    for _ in range(rng.randrange(6, 9)):
        tip = mine(tip)
        mainb.append(tip)
    f = rng.randrange(3, len(mainb) - 2)                 # fork point: number >= 3, at least two blocks detached
    side = mainb[f]
    for _ in range(len(mainb) - 1 - f + 1):
        side = mine(side)
    for _ in range(2):
        tip = mine(tip)
    return steps


def run_chain(c, txs, genesis, hists, procs, tag, all_upto, extra=None):
    wd = V.workdir(PID, "run_" + tag, fresh=True)
    # at most 14 histories per process: the filter service of every history's node keeps that node's Shared alive
    # until the process ends (≈ 100 MB each)
    nchunks = max(procs, (len(hists) + 13) // 14)
    chunks = [hists[i::nchunks] for i in range(nchunks) if hists[i::nchunks]]
    jobs = []
    for ci, chunk in enumerate(chunks):
        f = os.path.join(wd, "in%d.json" % ci)
        with open(f, "w") as fh:
            json.dump(dict({"scripts": L.SCRIPTS, "txs": txs, "genesis_txs": genesis, "hists": chunk, "seed": V.seed() * 100 + ci,
                            "all_subsets_upto": all_upto}, **(extra or {})), fh)
        jobs.append(f)

    def run(f):
        rc, out = V.ckbv("c19", ["chain", "--in", f], timeout=3000)
        return f, rc, out

    V.build_harness("c19")
    tot = {}
    terr = []
    by_id = {h["id"]: h for h in hists}
    with cf.ThreadPoolExecutor(max_workers=procs) as ex:
        for f, rc, out in ex.map(run, jobs):
            lines = V.parse_ndjson(out)
            summ = [x["summary"] for x in lines if "summary" in x]
            if rc != 0 or not summ:
                V.log(out[-3000:])
                raise V.ToolError("c19 chain failed rc=%d on %s" % (rc, f))
            terr += [x["tool_error"] for x in lines if "tool_error" in x]
            for k, v in summ[0].items():
                if isinstance(v, int):
                    tot[k] = tot.get(k, 0) + v
            for x in lines:
                if "mismatch" in x:
                    m = x["mismatch"]
                    h = by_id[m["hist"]]
                    c.violation("chain/" + m["kind"], "%s (history %s step %s)" % (m["detail"], m["hist"], m["step"]),
                                {"kind": "history", "txs": txs, "genesis": genesis, "hist": h, "all_upto": all_upto,
                                 "extra": extra, "mismatch": m})
            judge_serve(c, [x["serve"] for x in lines if "serve" in x], os.path.basename(f), tot,
                        lambda r: {"kind": "history", "txs": txs, "genesis": genesis, "hist": by_id[r["hist"]], "all_upto": all_upto,
                                   "extra": extra, "serve": {k: r[k] for k in ("idx", "step", "phase", "main", "pfilters", "pfhash", "platest")}})
    # violations first: a history that stops after a mismatch also produces knock-on tool errors
    if terr and not c.violations:
        raise V.ToolError("c19 chain: %s" % terr[:3])
    return tot


def judge_serve(c, recs, tag, tot, payload_of):
    """Growth (FilterServe.tla): the answers of the real block-filter protocol handler to every start number, for every
    recorded published snapshot, against what Judge_FilterServe.tla derives from that snapshot."""
    if not recs:
        return
    wd = V.workdir(PID, "serve")
    path = os.path.join(wd, "cases_%s_%d.ndjson" % (tag, os.getpid()))
    with _SERVE_LOCK:
        _SERVE_SEQ[0] += 1
        path = os.path.join(wd, "cases_%s_%d.ndjson" % (tag, _SERVE_SEQ[0]))
    keep = ("idx", "n", "parent", "number", "main", "pfilters", "pfhash", "platest")
    with open(path, "w") as fh:
        for r in recs:
            fh.write(json.dumps({k: r[k] for k in keep}) + "\n")
    res = V.tlc(PID, "Judge_FilterServe", "Judge_FilterServe.cfg", workers=1, env={"CASES": path}, timeout=900, coverage=False,
                tag="judge_" + os.path.basename(path))
    if res["violated"]:
        raise V.ToolError("Judge_FilterServe: %s violated on recorded snapshots (%s)" % (res["violated"], path))
    want = {j["idx"]: j for j in V.tlc_json_lines(res["out"], "J")}
    if len(want) != len(recs):
        raise V.ToolError("Judge_FilterServe judged %d of %d snapshots" % (len(want), len(recs)))
    for r in recs:
        w = want[r["idx"]]
        fh, zero, main = r["fh"], r["zero"], r["main"]
        probs = list(r["bad"])
        for st in range(len(main) + 2):
            # GetBlockFilters: the very blocks
            a, e = r["filters"][st], w["filters"][st]
            if a["k"] != e["k"] or (a["k"] != "ignored" and a["b"] != e["b"]):
                probs.append("filters/start=%d: served %s, FilterServe.tla: %s" % (st, a, e))
            # GetBlockFilterHashes: parent hash and the hashes of the blocks the specification names
            a, e = r["hashes"][st], w["hashes"][st]
            if a["k"] != e["k"]:
                probs.append("hashes/start=%d: served %s, FilterServe.tla: %s" % (st, a["k"], e))
            elif a["k"] != "ignored":
                if a["h"] != [fh.get(str(b)) for b in e["b"]]:
                    probs.append("hashes/start=%d: the served hashes are not those of blocks %s" % (st, e["b"]))
                if a["parent"] != (zero if st == 0 else fh.get(str(main[st - 1]))):
                    probs.append("hashes/start=%d: parent_block_filter_hash is not the filter hash of the block before" % st)
            a, e = r["checkpoints"][st], w["checkpoints"][st]
            if a["k"] != e["k"] or (a["k"] != "ignored" and a["h"] != [fh.get(str(b)) for b in e["b"]]):
                probs.append("checkpoints/start=%d: served %s, FilterServe.tla: %s" % (st, a, e))
        tot["serve_snapshots_judged"] = tot.get("serve_snapshots_judged", 0) + 1
        if r["phase"] == "published" and (r["platest"] < 0 or r["platest"] != main[-1]):
            tot["serve_published_lagging"] = tot.get("serve_published_lagging", 0) + 1
        if r["platest"] >= 0 and r["platest"] not in main:
            tot["serve_latest_off_main"] = tot.get("serve_latest_off_main", 0) + 1
        if probs:
            kind = probs[0].split("/")[0].split(":")[0]
            c.violation("growth-filterserve/" + kind, "block-filter protocol server, history %s step %s (%s snapshot): %s" % (
                r["hist"], r["step"], r["phase"], probs[0]), dict(payload_of(r), problems=probs[:6]))


_SERVE_LOCK = __import__("threading").Lock()
_SERVE_SEQ = [0]


def run_race(c):
    rc, out = V.ckbv("c19", ["race"], timeout=900)
    r = [x["race"] for x in V.parse_ndjson(out) if "race" in x]
    if rc != 0 or not r:
        V.log(out[-3000:])
        raise V.ToolError("c19 race failed rc=%d" % rc)
    r = r[0]
    # the scenario must really have been placed: builder held at the yield point while the chain reorganised, then back
    if not (r["yield_point_reached"] and r["reorg_to_b_while_builder_held"] and r["a2_built_while_off_main"] and r["back_on_a"]
            and r["main_chain_filters_complete_after_return"]):
        raise V.ToolError("race scenario not established: %s" % r)
    if not r["a2_filter_matches_output_lock"] or not r["a2_filter_matches_spent_input_lock"]:
        c.violation("filter-incomplete/built-between-snapshot-and-reorg",
                    "the filter of a main-chain block lacks the lock script of the input it spends: it was built from the live store "
                    "after the chain had reorganised away from the builder's snapshot, and is never rebuilt", {"kind": "race", "observed": r})
    return r


def run_growth_lightclient(c, tier):
    """Spec growth beyond the listed properties (DESIGN.md 3.7 (5)): LightClient.tla, the light-client protocol server on
    top of MMR.tla (blocks / transactions / last-state proofs with difficulty sampling), bound to the real protocol
    components (checks/g_lightclient.py, harness g_lightclient).  Numbers land in coverage["growth_lightclient"]."""
    import g_lightclient
    g_lightclient.run_growth_lightclient(c, tier)


def run(tier):
    c = V.Check(PID, "model_checking", tier)
    try:
        return _run(c, tier)
    except V.ToolError as e:
        # a tool error / vacuity guard after a violation must never hide it
        if c.violations:
            V.log("TOOL-ERROR after %d violation(s) (exit code stays 1): %s" % (len(c.violations), e))
            c.finish()
            return 1
        raise


def _run(c, tier):
    quick = tier == "quick"
    gex = cf.ThreadPoolExecutor(max_workers=1)                   # growth (light-client server): next to the other phases
    gfut = gex.submit(run_growth_lightclient, c, tier)
    c.rule = ("cases = histories (arrival sequences of blocks on any branch with work 1|3 and honest|flawed commitments, bodies over a "
              "transaction universe) delivered to a real node with the real filter builder; after every arrival roots, stored "
              "positions, extensions, proofs and filters are compared with the model's main chain; non-trivial = the expected main "
              "chain reorganises at least once")
    c.assumptions = [
        "a heavier block is a block whose header carries a compact target of three times the difficulty; the node accepts it with the epoch check switched off (Switch::DISABLE_EPOCH), two-phase commit is off as in C18",
        "GCS filters have false positives by construction: only 'every expected script hash matches' is demanded",
        "the light-client protocol handlers' sampling logic (get_last_state_proof) is not driven; proofs are generated through Snapshot::chain_root_mmr as the handlers do",
    ]
    rng = random.Random(V.seed())
    ex = cf.ThreadPoolExecutor(max_workers=3)
    mmr_acts, bf_acts = ["Next"], ["BStart", "BStep", "BFinish"]

    def mc(module, cfg, acts, workers):
        return module, cfg, acts, V.tlc(PID, module, cfg, workers=workers, timeout=1700, xmx="8g")
    jobs = [("MC_MMR", "MC_MMR_5.cfg" if quick else "MC_MMR_6.cfg", mmr_acts, 4 if quick else 6),
            ("MC_BlockFilter", "MC_BlockFilter_5.cfg", bf_acts, 4)]
    if not quick:
        jobs.append(("MC_BlockFilter", "MC_BlockFilter_5w.cfg", bf_acts, 6))      # works {1,3}: shorter-but-heavier reorgs under the builder
    # growth: the block-filter protocol server on top of the builder (FilterServe.tla), works {1,2}
    jobs.append(("MC_FilterServe", "MC_FilterServe_4.cfg" if quick else "MC_FilterServe_5.cfg", ["SNext", "SBuild"], 4))
    fut = [ex.submit(mc, *j) for j in jobs]
    # self-tests of the oracles and vacuity probe
    bug = V.tlc(PID, "MC_MMR", "MC_MMR_buggy.cfg", workers=2, timeout=600, coverage=False)
    if not bug["violated"]:
        raise V.ToolError("oracle self-test failed: WrongSize=TRUE violates nothing")
    c.set("selftest_wrong_reopen_size_rejected_by", bug["violated"])
    vac = V.tlc(PID, "MC_MMR", "MC_MMR_vac.cfg", workers=2, timeout=600, coverage=False)
    if vac["violated"] != "NoStaleTail":
        raise V.ToolError("vacuous model: no reorganisation to a shorter-but-heavier branch leaves a stale tail")
    live = V.tlc(PID, "MC_BlockFilter", "MC_BlockFilter_live.cfg", workers=4, timeout=900, coverage=False, xmx="8g")
    if live["violated"] != "FilterComplete":
        raise V.ToolError("oracle self-test failed: LiveReads=TRUE does not violate FilterComplete (%s)" % live["violated"])
    c.set("selftest_live_store_reads_rejected_by", live["violated"])
    # FilterServe.tla: the three states the header describes must be reachable (each "Never..." invariant must be violated)
    for v in ("NeverLags", "NeverServesAbove0", "NeverIgnoresBuilt"):
        r = V.tlc(PID, "MC_FilterServe", "MC_FilterServe_vac_%s.cfg" % v, workers=2, timeout=600, coverage=False)
        if r["violated"] != v:
            raise V.ToolError("vacuous model: FilterServe never reaches a state that violates %s (%s)" % (v, r["violated"]))
    c.set("selftest_filterserve_reachable", ["served view lags the builder", "non-empty answer above start 0", "built block not served while the latest-built marker is off the main chain"])
    # ---- histories --------------------------------------------------------------------------------------------
    h4 = tlc_hists("MCH_MMR_4.cfg", tag="h4")
    hsim = tlc_hists("MCH_MMR.cfg", "num=%d" % (20 if quick else 80), 8, "hsim")
    c.set("tlc_histories_exported", {"exhaustive_4_blocks": len(h4), "simulated_6_blocks": len(hsim)})
    if len(h4) < 500 or len(hsim) < 50:
        raise V.ToolError("too few histories exported")
    txs, gen = L.random_universe(rng, 5, 14)
    # "typed input under a repeated lock": g1 gives one owner (lock s1) a plain and a typed (s3) cell, g2 spends both
    # (plain first) into another lock; s3 then occurs in g2's block only as the type of a spent cell
    g1 = len(txs) + 1
    txs.append({"ins": [[gen[-1], 0]], "outs": [L.O("s1", L.NONE, 20000, 0), L.O("s1", "s3", 29999, 1)]})
    txs.append({"ins": [[g1, 0], [g1, 1]], "outs": [L.O("s2", L.NONE, 49998, 0)]})
    gadget = [g1, g1 + 1]
    led = L.PyLedger(txs, gen)

    def pick_body(chain, honest):
        """valid body for a block on `chain`; half of the time the gadget transactions go first when they are valid"""
        if not honest:
            return []
        body = []
        if rng.random() < 0.5:
            live, used = led.state(chain)
            for t in gadget:
                ins = [(i[0], i[1]) for i in txs[t - 1]["ins"]]
                if t not in used and all(i in live for i in ins) and not body:
                    body.append(t)            # one gadget transaction per block: g2 sits in a later block than g1
        rest = [t for t in led.body(rng, chain + [body], 2) if t not in gadget] if body else led.body(rng, chain, 3)
        return body + rest
    led.pick = pick_body

    def decorate(h):
        """give the model's blocks bodies (python chooses inputs only); flawed blocks stay empty"""
        bodies, parent = {0: list(gen)}, {0: 0}
        out = []
        for s in h:
            chain, x = [], s["parent"]
            while True:
                chain.append(bodies[x])
                if x == 0:
                    break
                x = parent[x]
            chain.reverse()
            body = pick_body(chain, s["honest"])
            bodies[s["b"]], parent[s["b"]] = body, s["parent"]
            out.append(dict(s, txs=body))
        return out

    def reorgs(h):
        if h and h[0].get("gap_ms"):
            return 2                                     # epoch histories are built around two reorganisations
        n, prev = 0, [0]
        for s in h:
            if s["main"] != prev and s["main"][:-1] != prev:
                n += 1
            prev = s["main"]
        return n
    hists, hid = [], 0
    rng.shuffle(h4)
    rng.shuffle(hsim)
    pick4 = [h for h in h4 if reorgs(h) >= 1][: (24 if quick else 300)]
    picks = [h for h in hsim if reorgs(h) >= 1][: (16 if quick else 150)] + [h for h in hsim if reorgs(h) == 0][:4]
    for h in pick4 + picks:
        hid += 1
        hists.append({"id": hid, "steps": decorate(h), "src": "tlc"})
    for _ in range(10 if quick else 40):
        hid += 1
        hists.append({"id": hid, "steps": random_history(rng, led, rng.randrange(7, 13), 0.08), "src": "random"})
    tot = run_chain(c, txs, gen, hists, 4, "chain", 7)
    # histories that cross an epoch boundary with REAL difficulty adjustment (epochs of 4 blocks, uneven timestamps):
    # merged digests then cover blocks with different compact targets; the expected main chain follows the spec's
    # rule on the headers' real difficulties
    ehists = []
    for _ in range(6 if quick else 30):
        hid += 1
        ehists.append({"id": hid, "steps": epoch_history(rng, pick_body, gen), "src": "epoch"})
    etot = run_chain(c, txs, gen, ehists, 3, "epoch", 7, extra={"epoch_len": 4, "main_by_difficulty": True})
    for k, v in etot.items():
        tot["epoch." + k] = v
    hists += ehists
    for h in hists:
        c.case({"steps": h["steps"]}, reorgs(h["steps"]) >= 1)
    c.add("traces_validated_against_impl", len(hists))
    c.sample({"history": hists[0]["steps"]})
    c.sample({"history": hists[-1]["steps"]})
    c.set("replay", tot)
    # ---- the placed interleaving ----------------------------------------------------------------------------------
    race = run_race(c)
    c.set("race_scenario", race)
    c.add("traces_validated_against_impl", 1)
    # ---- collect model checking -----------------------------------------------------------------------------------
    for f in fut:
        module, cfg, acts, res = f.result()
        if res["violated"]:
            c.violation("model/" + res["violated"], "%s violates %s in %s" % (module, res["violated"], cfg),
                        {"kind": "model", "module": module, "cfg": cfg, "tlc_tail": res["out"][-3000:]})
        V.require_coverage(res, acts, cfg)
        c.add_tlc(res, cfg)
    c.set("exhaustive", True)
    need = {"reorgs": 1, "reorgs_deeper_than_1": 1, "reorgs_to_shorter_heavier": 1, "flawed_refused": 1, "proofs_rejected_on_sibling": 1,
            "input_script_hashes": 1, "positions": 1, "typed_input_under_repeated_lock": 1,
            "epoch.digests_across_adjustment": 1, "epoch.reorgs": 1,
            "serve_snapshots_judged": 1, "serve_nonempty_above0": 1, "serve_published_lagging": 1}
    miss = [k for k, v in need.items() if tot.get(k, 0) < v]
    if miss:
        raise V.ToolError("vacuous replay: %s (%s)" % (miss, tot))
    gfut.result()
    gex.shutdown()
    return c.finish()


def replay(path, tier):
    c = V.Check(PID, "model_checking", tier)
    p = json.load(open(path))["payload"]
    if p["kind"].startswith("growth_lightclient"):
        import g_lightclient
        g_lightclient.replay(c, p, tier)
        return 1 if c.violations else 0
    if p["kind"] == "model":
        res = V.tlc(PID, p["module"], p["cfg"], workers=4)
        if res["violated"]:
            c.violation("model/" + res["violated"], "model violation", p)
    elif p["kind"] == "race":
        run_race(c)
    else:
        run_chain(c, p["txs"], p["genesis"], [p["hist"]], 1, "replay", p["all_upto"], extra=p.get("extra"))
    return 1 if c.violations else 0
