"""C09 — the freezer never loses or corrupts a frozen block, whatever crash interrupts it.

1. TLC exhaustively checks Freezer.tla (appends x sync x truncate x byte-level crash cuts x reopen rounds).
2. R: every distinct post-crash state TLC reaches is materialised on disk and repaired by the real
   FreezerFilesBuilder::build; outcome compared with the model's Reopen successor; then appends / truncate.
3. T: random real-magnitude histories on the real API, validated by Trace_Freezer.tla.
4. Self-test of the oracle: the repair loop as coded before the fix (Buggy = TRUE) must violate an invariant.
"""
import json
import os

import vcheck as V

PID = "C09"
ACTIONS = ["AppendItem", "Sync", "Truncate", "CrashTo", "Reopen"]


def dedupe(js):
    seen, out = set(), []
    for j in js:
        k = json.dumps({x: j[x] for x in ("data", "index", "torn", "items")}, sort_keys=True)
        if k not in seen:
            seen.add(k)
            out.append(j)
    return out


def key_of(mis):
    rec = mis["record"]
    walk = rec["exp"]["head"] != rec["index"][-1][0]
    return "reopen/%s/%s" % (mis["kind"], "walkback-across-file" if walk else "same-file")


def replay_states(c, path, scale, max_size, jitter=True):
    args = ["states", "--in", path, "--scale", scale, "--max-size", max_size, "--seed", V.seed()]
    if jitter:
        args.append("--jitter")
    rc, out = V.ckbv("c09", args, timeout=3000)
    lines = V.parse_ndjson(out)
    summ = [x["summary"] for x in lines if "summary" in x]
    if rc != 0 or not summ:
        V.log(out[-3000:])
        raise V.ToolError("c09-states failed rc=%d" % rc)
    for x in lines:
        if "mismatch" in x:
            m = x["mismatch"]
            c.violation(key_of(m), "real reopen differs from Freezer.tla!Reopen: %s" % m["detail"],
                        {"kind": "state", "scale": scale, "max_size": max_size, "record": m["record"], "detail": m})
    return summ[0]


def drive(c, max_size, hist, steps, n):
    wd = V.workdir(PID)
    trace = os.path.join(wd, "trace_%d.ndjson" % n)
    rc, out = V.ckbv("c09", ["drive", "--seed", V.seed() * 1000 + n, "--hist", hist, "--steps", steps,
                      "--max-size", max_size, "--out", trace], timeout=1200)
    summ = [x["summary"] for x in V.parse_ndjson(out) if "summary" in x]
    if rc != 0 or not summ:
        V.log(out[-3000:])
        raise V.ToolError("c09-drive failed rc=%d" % rc)
    return trace, summ[0]


def validate(c, trace, max_size, steps, n):
    cfg = os.path.join(V.workdir(PID), "Trace_Freezer_%d.cfg" % n)
    with open(cfg, "w") as f:
        f.write("SPECIFICATION TSpec\nCONSTANTS\n MaxSize = %d\n Sizes = {1}\n MaxAppends = %d\n Buggy = FALSE\n"
                "INVARIANT PrefixOK\nINVARIANT HandleOK\nINVARIANT NoLossInv\nPOSTCONDITION Accepted\n"
                "CHECK_DEADLOCK FALSE\n" % (max_size, steps + 1))
    ok, res = V.validate_trace(PID, "Trace_Freezer", cfg, trace, tag="trace%d" % n)
    events = sum(1 for _ in open(trace))
    if not ok:
        import re
        m = re.search(r'<<\s*"TRACE-REJECTED",\s*(\d+),', res["out"])
        at = int(m.group(1)) if m else -1
        evs = [json.loads(x) for x in open(trace)]
        # cut the trace down to the history that was rejected
        start = max(i for i in range(min(at, len(evs))) if evs[i]["ev"] == "Reset") if at > 0 else 0
        frag = evs[start:at]
        inv = res["violated"]
        kind = frag[-1]["ev"] if frag else "?"
        c.violation("trace/%s/%s" % (kind, inv or "not-a-behaviour"),
                    "real history is not a behaviour of Freezer.tla at event %d (%s)" % (at, kind),
                    {"kind": "trace", "max_size": max_size, "steps": steps, "events": frag,
                     "tlc_tail": res["out"][-1500:]})
    return ok, events, res


def run(tier):
    c = V.Check(PID, "model_checking", tier)
    c.rule = ("cases = distinct post-crash on-disk states (data/index/torn/items) reached by TLC, each repaired by the "
              "real build(); non-trivial = the repair has to change a file (dangling data or index entries); plus "
              "real random histories validated as traces (non-trivial = contains a crash)")
    c.assumptions = [
        "a crash cuts only the head data file and the INDEX file (as the property states); older data files are durable",
        "truncate() is treated as durable once it returns",
        "state replay runs with compression off (sizes are then exact); compression is exercised by the trace driver",
    ]
    # 1. exhaustive model checking
    cfgs = ["MC_Freezer_quick.cfg", "MC_Freezer_4.cfg"] if tier == "quick" else ["MC_Freezer_4emit.cfg", "MC_Freezer_5.cfg"]
    emit_out = None
    for cfg in cfgs:
        res = V.tlc(PID, "MC_Freezer", cfg, workers=8, timeout=1500, xmx="12g")
        if res["violated"]:
            c.violation("model/" + res["violated"], "Freezer.tla violates %s in %s" % (res["violated"], cfg),
                        {"kind": "model", "cfg": cfg, "tlc_tail": res["out"][-3000:]})
        V.require_coverage(res, ACTIONS, cfg)
        c.add_tlc(res, cfg)
        if "EmitCrash" in open(os.path.join(V.SPEC, cfg)).read() and "Emit = TRUE" in open(os.path.join(V.SPEC, cfg)).read():
            emit_out = res["out"]
    c.set("exhaustive", True)
    # self-test: the invariants must reject the pre-fix repair loop
    res = V.tlc(PID, "MC_Freezer", "MC_Freezer_buggy.cfg", workers=4, timeout=600)
    if not res["violated"]:
        raise V.ToolError("oracle self-test failed: Buggy=TRUE does not violate any invariant")
    c.set("selftest_buggy_repair_rejected_by", res["violated"])
    # 2. R: every distinct crash state on the real code
    states = dedupe(V.tlc_json_lines(emit_out, "CRASH"))
    if len(states) < 1000:
        raise V.ToolError("too few crash states exported: %d" % len(states))
    path = os.path.join(V.workdir(PID), "crash_states.ndjson")
    with open(path, "w") as f:
        for s in states:
            f.write(json.dumps(s) + "\n")
    max_app = 3 if tier == "quick" else 4
    summ = replay_states(c, path, 5, 4)
    for s in states:
        c.case({x: s[x] for x in ("data", "index", "torn", "items")},
               s["exp"]["index"] != s["index"] or s["exp"]["data"] != s["data"])
    c.set("crash_states_replayed", summ)
    c.add("traces_validated_against_impl", summ["records"])
    for s in states[:: max(1, len(states) // 3)][:3]:
        c.sample({"crash_state": s})
    if tier == "thorough":
        summ1 = replay_states(c, path, 1, 4, jitter=False)   # data granularity == model granularity
        c.set("crash_states_replayed_scale1", summ1)
        c.add("traces_validated_against_impl", summ1["records"])
    # 3. T: real histories validated against the spec
    runs = [(48, 40, 30), (97, 40, 30)] if tier == "quick" else [(48, 150, 40), (64, 150, 40), (97, 150, 40), (200, 100, 60)]
    tot = {"histories": 0, "events": 0, "crashes": 0, "rollovers": 0, "truncates": 0}
    for n, (mx, hist, steps) in enumerate(runs):
        trace, s = drive(c, mx, hist, steps, n)
        ok, events, _ = validate(c, trace, mx, steps, n)
        tot["histories"] += s["histories"]
        tot["events"] += events
        for k in ("crashes", "rollovers", "truncates"):
            tot[k] += s[k]
        c.add("traces_validated_against_impl", s["histories"])
        for h in range(s["histories"]):
            c.case({"trace": n, "hist": h, "seed": V.seed()}, True)
        if n == 0:
            evs = [json.loads(x) for x in open(trace)][:12]
            c.sample({"trace_prefix": evs})
    if tot["crashes"] == 0 or tot["rollovers"] == 0 or tot["truncates"] == 0:
        raise V.ToolError("vacuous trace run: %s" % tot)
    c.set("trace_validation", tot)
    return c.finish()


def replay(path, tier):
    c = V.Check(PID, "model_checking", tier)
    r = json.load(open(path))
    p = r["payload"]
    if p["kind"] == "state":
        f = os.path.join(V.workdir(PID), "replay_state.ndjson")
        open(f, "w").write(json.dumps(p["record"]) + "\n")
        replay_states(c, f, p["scale"], p["max_size"])
    elif p["kind"] == "trace":
        f = os.path.join(V.workdir(PID), "replay_trace.ndjson")
        open(f, "w").write("\n".join(json.dumps(e) for e in p["events"]) + "\n")
        validate(c, f, p["max_size"], p["steps"], 99)
    else:
        res = V.tlc(PID, "MC_Freezer", p["cfg"], workers=8)
        if res["violated"]:
            c.violation("model/" + res["violated"], "model violation", p)
    return 1 if c.violations else 0
